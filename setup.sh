#!/bin/sh
# Build the harness (offline) against /repo's current working tree with hooks enabled.
set -e
cd /verif/sim
export CARGO_NET_OFFLINE=true
cargo build --release --offline 2>&1 | tail -3
