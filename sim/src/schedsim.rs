//! E8 schedsim: a fixed multiset of chain operations distributed over several simulated threads
//! (real OS threads released one at a time by the seeded baton scheduler hooked into grin_util's
//! lock types, the LMDB writer token and the labelled durable steps). Every run happens in a
//! forked child process: a deadlocked run leaves spinning threads behind and is simply exited.

use crate::node::{fresh_dir, RecAdapter};
use crate::rng::{fnv64, SimRng};
use crate::sim::{CaseResult, Violation};
use crate::world::{ckey, World, WorldCfg};
use grin_chain::types::Options;
use grin_chain::Chain;
use grin_core::core::hash::Hashed;
use grin_core::core::pmmr::segment::SegmentIdentifier;
use grin_core::global;
use grin_core::pow;
use grin_util::secp::pedersen::Commitment;
use grin_util::verif::sched;
use serde_json::{json, Value};
use std::path::Path;
use std::sync::{Arc, Mutex};
use std::time::Instant;

#[derive(Clone, Debug)]
pub struct Plan {
	/// blocks processed sequentially before the threads start
	pub pre: Vec<usize>,
	/// per peer thread: block ids to deliver (in this order)
	pub peers: Vec<Vec<usize>>,
	pub readers: usize,
	pub reader_iters: usize,
	pub builder_thread: bool,
	pub segment_thread: bool,
	pub compactor_thread: bool,
	pub stay_pct: u64,
	/// blocks whose headers are not known before the threads start: a "headers" thread delivers
	/// them (header-first) while the peers already submit bodies
	pub late: Vec<usize>,
	pub header_batches: bool,
}

/// Transactions the readers validate while the chain changes under them.
#[derive(Clone)]
pub struct Probes {
	/// spends an output that is unspent (and mature) in every state the node can commit during the run
	pub stable: Option<grin_core::core::Transaction>,
	/// spends an output that exists in no state
	pub never: grin_core::core::Transaction,
}

pub fn build_probes(world: &mut World, plan: &Plan) -> Probes {
	use grin_core::core::{FeeFields, KernelFeatures};
	use grin_core::libtx;
	let base_tip = plan.pre.last().cloned().unwrap_or(0);
	let base_h = world.blocks[base_tip].height;
	let later: Vec<usize> = (1..world.blocks.len()).filter(|i| !plan.pre.contains(i)).collect();
	let maturity = global::coinbase_maturity();
	let fee = libtx::tx_fee(1, 1, 1);
	let mut cand: Option<crate::world::OutInfo> = None;
	for (k, o) in world.blocks[base_tip].ledger.iter() {
		if o.value <= fee + 1 || (o.coinbase && o.height + maturity > base_h) {
			continue;
		}
		if later.iter().all(|i| world.blocks[*i].ledger.contains_key(k)) {
			if cand.as_ref().map(|c| o.height < c.height).unwrap_or(true) {
				cand = Some(o.clone());
			}
		}
	}
	let ff = FeeFields::new(0, fee).expect("fee");
	let stable = cand.map(|o| world.wallet.build_tx(&[o.clone()], &[o.value - fee], None, KernelFeatures::Plain { fee: ff }).0);
	let ghost_key = world.wallet.fresh_key();
	let ghost = crate::world::OutInfo {
		commit: world.wallet.commit(5_000_000_000, &ghost_key),
		value: 5_000_000_000,
		key_id: ghost_key,
		coinbase: false,
		height: 1,
		leaf: 0,
	};
	let never = world.wallet.build_tx(&[ghost], &[5_000_000_000 - fee], None, KernelFeatures::Plain { fee: ff }).0;
	Probes { stable, never }
}

/// `long`: a chain long enough for Chain::compact to act (head >= 81 with AutomatedTesting
/// parameters) with a short competing fork at the tip.
pub fn build_world(seed: u64, long: bool) -> Result<World, String> {
	let mut r = SimRng::new(seed).fork("cfg");
	let mut cfg = WorldCfg::draw(&mut r, true);
	cfg.free_difficulty = false;
	cfg.nrd = false;
	cfg.trunk = r.range(8, 13);
	cfg.branches = r.range(1, 2) as usize;
	cfg.max_branch_depth = r.range(2, 5);
	cfg.tx_pct = 50;
	cfg.max_txs = 2;
	cfg.reorg_pct = 60;
	if long {
		cfg.trunk = r.range(90, 93);
		cfg.branches = 1;
		cfg.max_branch_depth = r.range(2, 4);
		cfg.fork_near_tip = 4;
		cfg.tx_pct = 30;
		cfg.max_txs = 1;
	}
	let mut w = World::new(seed, cfg, "sched-w");
	w.generate_tree()?;
	Ok(w)
}

pub fn draw_plan(world: &World, rng: &mut SimRng) -> Plan {
	let n = world.blocks.len();
	let trunk: Vec<usize> = world.blocks.iter().filter(|b| b.branch == 0).map(|b| b.id).filter(|i| *i > 0).collect();
	let mut k = rng.range(1, (trunk.len() as u64 / 2).max(1)) as usize;
	let long = trunk.len() > 80;
	if long {
		// leave the last 4-6 trunk blocks (and the fork) to the threads; the prefix reaches height >= 81
		k = trunk.len() - rng.range(4, 6) as usize;
	}
	let pre: Vec<usize> = trunk.iter().cloned().take(k).collect();
	let rest: Vec<usize> = (1..n).filter(|i| !pre.contains(i)).collect();
	let n_peers = rng.range(2, 3) as usize;
	let mut peers: Vec<Vec<usize>> = vec![vec![]; n_peers];
	// every remaining block goes to one peer; some also to a second one (duplicates)
	for id in &rest {
		let p = rng.usize_below(n_peers);
		peers[p].push(*id);
		if rng.chance(1, 4) {
			let q = (p + 1) % n_peers;
			peers[q].push(*id);
		}
	}
	// each peer delivers in a (mostly) parents-first order with a few swaps
	for p in peers.iter_mut() {
		p.sort();
		for i in 1..p.len() {
			if rng.chance(1, 5) {
				p.swap(i - 1, i);
			}
		}
	}
	// "leapfrog" plans: two peers alternate along each branch, so that every block one peer submits
	// has its parent in the other peer's hands at about the same time (parent being accepted while
	// the child is being classified as an orphan)
	if !long && rng.chance(1, 3) {
		peers = vec![vec![], vec![]];
		let mut ids = rest.clone();
		ids.sort_by_key(|i| (world.blocks[*i].branch, world.blocks[*i].height));
		for (k, id) in ids.iter().enumerate() {
			peers[k % 2].push(*id);
		}
	}
	Plan {
		pre,
		peers,
		readers: rng.range(1, 2) as usize,
		reader_iters: rng.range(3, 8) as usize,
		builder_thread: rng.chance(1, 2),
		segment_thread: rng.chance(1, 2) || long,
		compactor_thread: long || rng.chance(1, 3),
		stay_pct: *rng.pick(&[30u64, 60, 85]),
		late: {
			let max_branch = world.blocks.iter().map(|b| b.branch).max().unwrap_or(0);
			if max_branch > 0 && rng.chance(1, 2) {
				world.blocks.iter().filter(|b| b.branch == max_branch).map(|b| b.id).collect()
			} else {
				vec![]
			}
		},
		header_batches: rng.chance(1, 2),
	}
}

#[derive(Default)]
struct Shared {
	violations: Vec<(String, String)>,
	reader_obs: u64,
	refused_for_missing_header: u64,
}

/// Builds the state every run of a plan starts from (all headers, then the plan's prefix of block
/// bodies) once; the children work on copies of it.
pub fn build_base(world: &World, plan: &Plan, tag: &str) -> Result<std::path::PathBuf, String> {
	let dir = fresh_dir(tag);
	let adapter = Arc::new(RecAdapter::default());
	let chain = Chain::init(dir.join("chain_data").to_str().unwrap().to_string(), adapter, world.genesis.clone(), pow::verify_size, false, None).map_err(|e| format!("init: {:?}", e))?;
	let opts: Options = world.opts;
	// all headers first (so that every order of bodies is a legal history), then the prefix
	let mut order: Vec<usize> = (1..world.blocks.len()).collect();
	order.sort_by_key(|i| (world.blocks[*i].height, *i));
	for id in &order {
		if plan.late.contains(id) {
			continue;
		}
		chain.process_block_header(&world.blocks[*id].block.header, opts).map_err(|e| format!("header #{}: {:?}", id, e))?;
	}
	for id in &plan.pre {
		chain.process_block(world.blocks[*id].block.clone(), opts).map_err(|e| format!("pre block #{}: {:?}", id, e))?;
	}
	drop(chain);
	Ok(dir)
}

/// The body of one run, executed in the child process. Returns a JSON result.
fn run_in_child(world: &World, plan: &Plan, probes: &Probes, seed: u64, replay: Option<Vec<u32>>, dir: &Path, base: &Path) -> Value {
	if let Err(e) = crate::node::copy_dir(base, dir) {
		return json!({"harness_error": format!("copy base: {:?}", e)});
	}
	let adapter = Arc::new(RecAdapter::default());
	let chain = match Chain::init(
		dir.join("chain_data").to_str().unwrap().to_string(),
		adapter.clone(),
		world.genesis.clone(),
		pow::verify_size,
		false,
		None,
	) {
		Ok(c) => Arc::new(c),
		Err(e) => return json!({"harness_error": format!("init: {:?}", e)}),
	};
	let opts: Options = world.opts;
	let shared = Arc::new(Mutex::new(Shared::default()));
	// in half of the runs one or two threads are stalled for a long stretch at a random point (the
	// schedules in which "looked, then acted much later" races live); a function of the schedule seed
	let mut sr = SimRng::new(seed).fork("stalls");
	let mut stalls: Vec<(u64, u64)> = vec![];
	if sr.chance(1, 2) {
		for _ in 0..sr.range(1, 3) {
			stalls.push((sr.below(2500), sr.range(150, 3000)));
		}
	}
	let n_stalls = stalls.len();
	sched::install_with_stalls(seed, plan.stay_pct, replay, 400_000, stalls);
	let mut handles = vec![];
	let blocks: Arc<Vec<grin_core::core::Block>> = Arc::new(world.blocks.iter().map(|b| b.block.clone()).collect());
	let tds: Arc<Vec<u64>> = Arc::new(world.blocks.iter().map(|b| b.total_difficulty).collect());
	let headers_done = Arc::new(std::sync::atomic::AtomicBool::new(plan.late.is_empty()));
	let has_late = !plan.late.is_empty();
	if has_late {
		let chain = chain.clone();
		let shared = shared.clone();
		let done = headers_done.clone();
		let mut ids = plan.late.clone();
		ids.sort_by_key(|i| (world.blocks[*i].height, *i));
		let headers: Vec<grin_core::core::BlockHeader> = ids.iter().map(|i| world.blocks[*i].block.header.clone()).collect();
		let batches = plan.header_batches;
		handles.push(sched::spawn("headers", move || {
			global::set_local_chain_type(global::ChainTypes::AutomatedTesting);
			let ok_err = |s: &str| s.starts_with("Unfit") || s.starts_with("Orphan") || s.starts_with("OldBlock");
			if batches {
				for chunk in headers.chunks(2) {
					let sync_head = match chain.header_head() {
						Ok(t) => t,
						Err(e) => {
							shared.lock().unwrap().violations.push(("header-head-error".into(), format!("{:?}", e)));
							break;
						}
					};
					if let Err(e) = chain.sync_block_headers(chunk, sync_head, opts) {
						let s = format!("{:?}", e);
						if !ok_err(&s) {
							shared.lock().unwrap().violations.push(("valid-header-refused".into(), format!("header batch at h{}: {}", chunk[0].height, s)));
						}
					}
				}
			} else {
				for h in &headers {
					if let Err(e) = chain.process_block_header(h, opts) {
						let s = format!("{:?}", e);
						if !ok_err(&s) {
							shared.lock().unwrap().violations.push(("valid-header-refused".into(), format!("header h{}: {}", h.height, s)));
						}
					}
				}
			}
			done.store(true, std::sync::atomic::Ordering::SeqCst);
		}));
	}
	for (pi, list) in plan.peers.iter().enumerate() {
		let chain = chain.clone();
		let headers_done = headers_done.clone();
		let list = list.clone();
		let blocks = blocks.clone();
		let shared = shared.clone();
		handles.push(sched::spawn(&format!("peer{}", pi), move || {
			global::set_local_chain_type(global::ChainTypes::AutomatedTesting);
			let mut refused: Vec<usize> = vec![];
			for id in list {
				let r = chain.process_block(blocks[id].clone(), opts);
				if let Err(e) = r {
					let s = format!("{:?}", e);
					let ok = s.starts_with("Unfit") || s.starts_with("Orphan") || s.starts_with("OldBlock");
					if !ok && has_late && s.contains("NotFoundErr") {
						// parent header not delivered yet (legitimately refused, not orphaned): ask again later
						refused.push(id);
						shared.lock().unwrap().refused_for_missing_header += 1;
					} else if !ok {
						shared.lock().unwrap().violations.push(("valid-block-refused".into(), format!("peer{} block #{}: {}", pi, id, s)));
					}
				}
			}
			// as sync would: re-request what was refused once the headers are there
			let mut spins = 0;
			while !refused.is_empty() && spins < 20_000 {
				if !headers_done.load(std::sync::atomic::Ordering::SeqCst) {
					sched::yield_point("wait-headers", None);
					spins += 1;
					continue;
				}
				let mut still = vec![];
				for id in refused.drain(..) {
					if let Err(e) = chain.process_block(blocks[id].clone(), opts) {
						let s = format!("{:?}", e);
						let ok = s.starts_with("Unfit") || s.starts_with("Orphan") || s.starts_with("OldBlock");
						if !ok && s.contains("NotFoundErr") && spins < 19_990 {
							still.push(id);
						} else if !ok {
							shared.lock().unwrap().violations.push(("valid-block-refused".into(), format!("peer{} block #{} (after all headers were delivered): {}", pi, id, s)));
						}
					}
				}
				refused = still;
				spins += 1;
			}
		}));
	}
	for ri in 0..plan.readers {
		let chain = chain.clone();
		let shared = shared.clone();
		let iters = plan.reader_iters;
		let commits: Vec<Commitment> = world.wallet.known.values().take(6).map(|o| o.commit).collect();
		let hash_td: Vec<(grin_core::core::hash::Hash, u64)> = world.blocks.iter().map(|b| (b.hash, b.total_difficulty)).collect();
		let probes = probes.clone();
		handles.push(sched::spawn(&format!("reader{}", ri), move || {
			global::set_local_chain_type(global::ChainTypes::AutomatedTesting);
			let mut last_td = 0u64;
			for _ in 0..iters {
				let head = match chain.head() {
					Ok(h) => h,
					Err(e) => {
						shared.lock().unwrap().violations.push(("head-error".into(), format!("{:?}", e)));
						return;
					}
				};
				let td = head.total_difficulty.to_num();
				if td < last_td {
					shared.lock().unwrap().violations.push(("head-difficulty-decreased".into(), format!("reader{} saw head td {} after {}", ri, td, last_td)));
				}
				last_td = td;
				match chain.get_block(&head.last_block_h) {
					Ok(b) => {
						if b.header.total_difficulty().to_num() != td || b.header.height != head.height {
							shared.lock().unwrap().violations.push(("head-block-inconsistent".into(), format!("reader{}: head says h{} td {}, stored block says h{} td {}", ri, head.height, td, b.header.height, b.header.total_difficulty().to_num())));
						}
					}
					Err(e) => {
						shared.lock().unwrap().violations.push(("head-names-missing-block".into(), format!("reader{}: head {}@{} but get_block fails: {:?}", ri, head.last_block_h, head.height, e)));
					}
				}
				if let Some((_, wtd)) = hash_td.iter().find(|(h, _)| *h == head.last_block_h) {
					if *wtd != td {
						shared.lock().unwrap().violations.push(("head-td-wrong".into(), format!("reader{}: head td {} but block's is {}", ri, td, wtd)));
					}
				}
				if let Err(e) = chain.get_header_by_height(head.height.min(1)) {
					shared.lock().unwrap().violations.push(("header-by-height-error".into(), format!("{:?}", e)));
				}
				for c in &commits {
					// every answer must be a committed one: Some or None, never an error
					if let Err(e) = chain.get_unspent(*c) {
						shared.lock().unwrap().violations.push(("get-unspent-error".into(), format!("{:?}", e)));
					}
					// header of the block an unspent output sits in: Ok, or OutputNotFound when spent
					if let Err(e) = chain.get_header_for_output(*c) {
						let s = format!("{:?}", e);
						if !s.starts_with("OutputNotFound") {
							shared.lock().unwrap().violations.push(("header-for-output-error".into(), s));
						}
					}
				}
				// a transaction whose input is unspent in every committed state validates at any moment;
				// one whose input exists in no state never does
				if let Some(tx) = &probes.stable {
					if let Err(e) = chain.validate_tx(tx) {
						shared.lock().unwrap().violations.push(("validate-tx-saw-uncommitted-state".into(), format!("reader{}: a transaction spending an output that is unspent in every committed state was refused: {:?}", ri, e)));
					}
				}
				if chain.validate_tx(&probes.never).is_ok() {
					shared.lock().unwrap().violations.push(("validate-tx-accepted-nonexistent-input".into(), format!("reader{}: a transaction spending an output that exists in no state validated", ri)));
				}
				shared.lock().unwrap().reader_obs += 1;
			}
		}));
	}
	if plan.builder_thread {
		let chain = chain.clone();
		let blocks = blocks.clone();
		let n = blocks.len();
		let template_viols = shared.clone();
		let template_targets: Vec<usize> = {
			let mut t: Vec<usize> = (1..world.blocks.len()).filter(|i| !plan.pre.contains(i)).collect();
			t.sort_by_key(|i| (world.blocks[*i].height, *i));
			t
		};
		handles.push(sched::spawn("template", move || {
			global::set_local_chain_type(global::ChainTypes::AutomatedTesting);
			// a miner: as soon as the parent of one of the blocks still to come is in, build a template
			// for that very block - at the moment the peers are about to deliver it or a competitor
			let mut targets: Vec<usize> = template_targets.clone();
			targets.truncate(6);
			for k in 0..(3 + targets.len()) {
				let orig = if k < 3 { &blocks[n - 1 - (k % n.max(1)).min(n - 1)] } else { &blocks[targets[k - 3]] };
				if k >= 3 {
					let mut spins = 0;
					while !chain.block_exists(orig.header.prev_hash).unwrap_or(false) && spins < 3000 {
						sched::yield_point("wait-parent", None);
						spins += 1;
					}
				}
				let mut b = orig.clone();
				// Ok or a clean error (parent state not there yet); never a panic or a hang.
				// When it succeeds the template must have been built on the block's own parent state,
				// whatever was committed around the call: the roots and sizes are then exactly the
				// ones the world's builder computed for this very block.
				if chain.set_txhashset_roots(&mut b).is_ok() {
					let (h, o) = (&b.header, &orig.header);
					if h.output_root != o.output_root || h.range_proof_root != o.range_proof_root || h.kernel_root != o.kernel_root || h.output_mmr_size != o.output_mmr_size || h.kernel_mmr_size != o.kernel_mmr_size || h.prev_root != o.prev_root {
						template_viols.lock().unwrap().violations.push((
							"template-built-on-wrong-state".into(),
							format!(
								"set_txhashset_roots for the block at height {} returned Ok with sizes ({}, {}) / roots that differ from those of the same block built on its parent state (sizes ({}, {})): the template was computed on top of another block",
								o.height, h.output_mmr_size, h.kernel_mmr_size, o.output_mmr_size, o.kernel_mmr_size
							),
						));
					}
				}
			}
		}));
	}
	if plan.segment_thread {
		// two peers' handler threads serving segments. The segmenter is cached per archive period: the
		// cache is filled before the threads start, and in the long worlds the head crosses into the
		// next period (height 90: archive header 60 -> 70) while they run, so that one of them rebuilds
		// the segmenter (under the chain's write locks) while the other looks at the stale cache.
		let _ = chain.segmenter();
		for name in ["segments", "segments2"] {
			let chain = chain.clone();
			handles.push(sched::spawn(name, move || {
				global::set_local_chain_type(global::ChainTypes::AutomatedTesting);
				for _ in 0..4 {
					if let Ok(s) = chain.segmenter() {
						let _ = s.kernel_segment(SegmentIdentifier { height: 2, idx: 0 });
						let _ = s.output_segment(SegmentIdentifier { height: 2, idx: 0 });
					}
				}
			}));
		}
	}
	if plan.compactor_thread {
		let chain = chain.clone();
		handles.push(sched::spawn("compactor", move || {
			global::set_local_chain_type(global::ChainTypes::AutomatedTesting);
			let _ = chain.compact();
			let _ = chain.validate(true);
		}));
	}
	let out = match sched::run(handles, 120) {
		Some(o) => o,
		None => return json!({"harness_error": "watchdog: a simulated thread did not reach a scheduling point within 120 s"}),
	};
	let mut viols: Vec<(String, String)> = std::mem::take(&mut shared.lock().unwrap().violations);
	if let Some(d) = &out.deadlock {
		viols.push(("deadlock".into(), format!("all live threads blocked: {}", d)));
	}
	for p in &out.panics {
		viols.push(("panic".into(), p.clone()));
	}
	if out.out_of_steps {
		// ordinary runs need a few thousand scheduling points; after 400 000 the threads that are left
		// only spin (sleep / retry loops that wait for something that never happens)
		viols.push(("no-progress".into(), format!("threads still running after {} scheduling points (livelock): last points {:?}", out.trace.len(), out.trace.iter().rev().take(6).map(|(t, l)| format!("{}:{}", out.names.get(*t as usize).cloned().unwrap_or_default(), l)).collect::<Vec<_>>())));
	}
	let trace_digest = {
		let mut bytes = vec![];
		for (t, l) in &out.trace {
			bytes.extend_from_slice(&t.to_le_bytes());
			bytes.extend_from_slice(l.as_bytes());
		}
		fnv64(&bytes)
	};
	// context-switch sequence digest (interleaving identity)
	let switch_digest = {
		let mut bytes = vec![];
		let mut last = u32::MAX;
		for (t, l) in &out.trace {
			if *t != last {
				bytes.extend_from_slice(&t.to_le_bytes());
				bytes.extend_from_slice(l.as_bytes());
				last = *t;
			}
		}
		fnv64(&bytes)
	};
	let mut final_state = Value::Null;
	if out.deadlock.is_none() && !out.out_of_steps {
		// final state: every block was submitted with its header known, so any sequential order ends on
		// the unique most-work block with every block accepted
		let winner = world.winner();
		match chain.head() {
			Ok(h) => {
				if h.last_block_h != world.blocks[winner].hash {
					let missing: Vec<usize> = (1..world.blocks.len()).filter(|i| !chain.block_exists(world.blocks[*i].hash).unwrap_or(false)).collect();
					viols.push((
						"final-head-not-sequential".into(),
						format!("threads finished on head {}@{} (td {}) but every sequential order of the same submissions ends on #{} {}@{} (td {}); blocks never accepted: {:?}, orphans left: {}", h.last_block_h, h.height, h.total_difficulty.to_num(), winner, world.blocks[winner].hash, world.blocks[winner].height, tds[winner], missing, chain.orphans_len()),
					));
				}
				final_state = json!(format!("{}@{}", h.last_block_h, h.height));
			}
			Err(e) => viols.push(("head-error".into(), format!("{:?}", e))),
		}
		if let Err(e) = chain.validate(false) {
			viols.push(("final-validate-failed".into(), format!("{:?}", e)));
		}
		// every thread is done and nothing is open here: no LMDB environment may still count an open
		// transaction (the next map resize would wait for it forever, with the chain locks held)
		for (path, n) in grin_store::lmdb::verif_open_txs_counts() {
			if n != 0 {
				viols.push(("open-transaction-count-leaked".into(), format!("all threads have finished but environment {} still counts {} open transaction(s): the next resize of its map can never start", path.rsplit('/').take(2).collect::<Vec<_>>().join("/"), n)));
			}
		}
		// unspent view equals the ledger of the final head
		if let Ok(h) = chain.head() {
			if let Some(id) = world.id_of_hash(&h.last_block_h) {
				for (k, _) in world.wallet.known.iter() {
					let c = Commitment::from_vec(k.to_vec());
					let node_has = chain.get_unspent(c).ok().flatten().is_some();
					let want = world.blocks[id].ledger.contains_key(&ckey(&c));
					if node_has != want {
						viols.push(("final-utxo-differs".into(), format!("output {} unspent={} on the node, {} on the replayed chain", crate::rng::hex(&k[..8]), node_has, want)));
						break;
					}
				}
			}
		}
	}
	json!({
		"violations": viols.iter().map(|(k, w)| json!([k, w])).collect::<Vec<_>>(),
		"choices": out.choices,
		"points": out.trace.len(),
		"switches": out.switches,
		"trace_digest": format!("{:016x}", trace_digest),
		"switch_digest": format!("{:016x}", switch_digest),
		"out_of_steps": out.out_of_steps,
		"deadlock": out.deadlock.is_some(),
		"final": final_state,
		"reader_obs": shared.lock().unwrap().reader_obs,
		"stalls": n_stalls,
		"refused_for_missing_header": shared.lock().unwrap().refused_for_missing_header,
		"tail_height": chain.tail().map(|t| t.height).unwrap_or(0),
		"threads": out.names,
		"trace_tail": out.trace.iter().rev().take(12).map(|(t, l)| format!("{}:{}", t, l)).collect::<Vec<_>>(),
	})
}

/// Fork a child for one run; returns its JSON result.
pub fn run_forked(world: &World, plan: &Plan, probes: &Probes, seed: u64, replay: Option<Vec<u32>>, tag: &str, base: &Path) -> Result<Value, String> {
	let dir = fresh_dir(tag);
	let out_file = dir.join("result.json");
	let mut spins = 0;
	while thread_count() > 1 && spins < 500 {
		std::thread::sleep(std::time::Duration::from_millis(2));
		spins += 1;
	}
	let pid = unsafe { libc::fork() };
	if pid < 0 {
		return Err("fork failed".into());
	}
	if pid == 0 {
		let v = std::panic::catch_unwind(std::panic::AssertUnwindSafe(|| run_in_child(world, plan, probes, seed, replay, &dir, base)))
			.unwrap_or_else(|_| json!({"harness_error": "child panicked outside simulated threads"}));
		let _ = std::fs::write(&out_file, serde_json::to_string(&v).unwrap_or_default());
		unsafe { libc::_exit(0) }
	}
	let mut status: libc::c_int = 0;
	// real-time watchdog on the child
	let t0 = Instant::now();
	loop {
		let r = unsafe { libc::waitpid(pid, &mut status, libc::WNOHANG) };
		if r == pid {
			break;
		}
		if t0.elapsed().as_secs() > 180 {
			unsafe { libc::kill(pid, libc::SIGKILL) };
			unsafe { libc::waitpid(pid, &mut status, 0) };
			let _ = std::fs::remove_dir_all(&dir);
			return Err("child watchdog (180 s)".into());
		}
		std::thread::sleep(std::time::Duration::from_millis(2));
	}
	let res = std::fs::read_to_string(&out_file)
		.ok()
		.and_then(|s| serde_json::from_str::<Value>(&s).ok())
		.ok_or_else(|| format!("child wrote no result (status {})", status));
	let _ = std::fs::remove_dir_all(&dir);
	res
}

fn thread_count() -> usize {
	std::fs::read_to_string("/proc/self/status")
		.ok()
		.and_then(|s| s.lines().find(|l| l.starts_with("Threads:")).and_then(|l| l.split_whitespace().nth(1).map(|x| x.parse::<usize>().unwrap_or(1))))
		.unwrap_or(1)
}

fn plan_json(p: &Plan) -> Value {
	json!({"pre": p.pre, "peers": p.peers, "readers": p.readers, "reader_iters": p.reader_iters, "builder": p.builder_thread, "segments": p.segment_thread, "compactor": p.compactor_thread, "stay_pct": p.stay_pct, "late": p.late, "header_batches": p.header_batches})
}

fn plan_from_json(v: &Value) -> Option<Plan> {
	Some(Plan {
		pre: serde_json::from_value(v["pre"].clone()).ok()?,
		peers: serde_json::from_value(v["peers"].clone()).ok()?,
		readers: v["readers"].as_u64()? as usize,
		reader_iters: v["reader_iters"].as_u64()? as usize,
		builder_thread: v["builder"].as_bool()?,
		segment_thread: v["segments"].as_bool()?,
		compactor_thread: v["compactor"].as_bool()?,
		stay_pct: v["stay_pct"].as_u64()?,
		late: serde_json::from_value(v["late"].clone()).unwrap_or_default(),
		header_batches: v["header_batches"].as_bool().unwrap_or(false),
	})
}

pub fn case(tier: &str, seed: u64, case: u64) -> CaseResult {
	let t0 = Instant::now();
	let thorough = tier == "thorough";
	let mut res = CaseResult::new(case, seed);
	let long = case % 4 == 3;
	let mut world = match build_world(seed, long) {
		Ok(w) => w,
		Err(e) => {
			res.harness_error = Some(format!("sched world: {}", e));
			return res;
		}
	};
	let plans = if thorough { 6 } else { 2 };
	let schedules = if thorough { 40 } else { 12 };
	if long {
		res.probe("long_world");
	}
	let rng = SimRng::new(seed);
	let mut determinism_checked = false;
	'outer: for pi in 0..plans {
		let mut pr = rng.fork(&format!("plan{}", pi));
		let plan = draw_plan(&world, &mut pr);
		let probes = build_probes(&mut world, &plan);
		if probes.stable.is_some() {
			res.probe("validate_tx_probe_built");
		}
		if !plan.late.is_empty() {
			res.probe("concurrent_header_delivery");
		}
		let base = match build_base(&world, &plan, &format!("sched-c{}p{}base", case, pi)) {
			Ok(b) => b,
			Err(e) => {
				res.harness_error = Some(format!("base state: {}", e));
				break 'outer;
			}
		};
		for si in 0..schedules {
			let sseed = pr.next_u64();
			let r = match run_forked(&world, &plan, &probes, sseed, None, &format!("sched-c{}p{}s{}", case, pi, si), &base) {
				Ok(v) => v,
				Err(e) => {
					res.harness_error = Some(e);
					let _ = std::fs::remove_dir_all(&base);
					break 'outer;
				}
			};
			if let Some(e) = r["harness_error"].as_str() {
				res.harness_error = Some(e.to_string());
				let _ = std::fs::remove_dir_all(&base);
				break 'outer;
			}
			res.runs += 1;
			res.steps += r["points"].as_u64().unwrap_or(0);
			res.probe_n("context_switches", r["switches"].as_u64().unwrap_or(0));
			res.probe_n("reader_observations", r["reader_obs"].as_u64().unwrap_or(0));
			if r["out_of_steps"].as_bool().unwrap_or(false) {
				res.probe("out_of_steps");
			}
			res.probe_n("body_refused_until_header_arrived", r["refused_for_missing_header"].as_u64().unwrap_or(0));
			res.fault_n("thread_stalled", r["stalls"].as_u64().unwrap_or(0));
			if r["tail_height"].as_u64().unwrap_or(0) >= 20 {
				res.probe("compaction_moved_tail_under_concurrency");
			}
			let sd = u64::from_str_radix(r["switch_digest"].as_str().unwrap_or("0"), 16).unwrap_or(0);
			res.run_digests.push((sd, r["switches"].as_u64().unwrap_or(0) > 0));
			res.states.insert(sd);
			if res.samples.is_empty() {
				res.samples.push(json!({"plan": plan_json(&plan), "threads": r["threads"], "scheduling_points": r["points"], "context_switches": r["switches"], "trace_tail": r["trace_tail"], "final": r["final"]}));
			}
			// determinism self-test: replaying the recorded choices reproduces the trace exactly
			if !determinism_checked {
				let choices: Vec<u32> = serde_json::from_value(r["choices"].clone()).unwrap_or_default();
				if let Ok(r2) = run_forked(&world, &plan, &probes, sseed, Some(choices), &format!("sched-c{}det", case), &base) {
					if r2["trace_digest"] != r["trace_digest"] {
						res.harness_error = Some(format!("replay of the recorded schedule diverged: {} vs {}", r["trace_digest"], r2["trace_digest"]));
						let _ = std::fs::remove_dir_all(&base);
						break 'outer;
					}
					res.probe("replay_identical");
				}
				determinism_checked = true;
			}
			if let Some(vs) = r["violations"].as_array() {
				if let Some(v) = vs.first() {
					let key = v[0].as_str().unwrap_or("").to_string();
					let what = v[1].as_str().unwrap_or("").to_string();
					// minimise the schedule: fewer arbitrary decisions, same violation
					let recorded: Vec<u32> = serde_json::from_value(r["choices"].clone()).unwrap_or_default();
					let mut trial = 0;
					let minimal = crate::sim::minimise_choices(
						&recorded,
						|cand| {
							trial += 1;
							match run_forked(&world, &plan, &probes, sseed, Some(cand.to_vec()), &format!("sched-c{}min{}", case, trial), &base) {
								Ok(r2) => r2["violations"].as_array().map(|a| a.iter().any(|x| x[0].as_str() == Some(key.as_str()))).unwrap_or(false),
								Err(_) => false,
							}
						},
						40,
					);
					let nonzero = |c: &[u32]| c.iter().filter(|x| **x != 0).count();
					res.violations.push(Violation {
						key: format!("C17:{}", key),
						what: format!(
							"{} [plan {} schedule seed {}; {} scheduling points, {} switches; schedule minimised from {} to {} forced decisions]",
							what,
							pi,
							sseed,
							r["points"],
							r["switches"],
							nonzero(&recorded),
							nonzero(&minimal)
						),
						replay: json!({"engine": "schedsim", "property": "C17", "case_seed": seed, "long": long, "plan": plan_json(&plan), "sched_seed": sseed, "choices": minimal, "recorded_choices": recorded.len(), "trace_tail": r["trace_tail"]}),
					});
					let _ = std::fs::remove_dir_all(&base);
					break 'outer;
				}
			}
		}
		let _ = std::fs::remove_dir_all(&base);
	}
	world.cleanup();
	res.wall_s = t0.elapsed().as_secs_f64();
	res
}

pub fn replay(rp: &Value) -> Result<Option<Violation>, String> {
	let seed = rp["case_seed"].as_u64().ok_or("no case_seed")?;
	let plan = plan_from_json(&rp["plan"]).ok_or("bad plan")?;
	let choices: Vec<u32> = serde_json::from_value(rp["choices"].clone()).map_err(|e| format!("{}", e))?;
	let mut world = build_world(seed, rp["long"].as_bool().unwrap_or(false))?;
	let probes = build_probes(&mut world, &plan);
	let base = build_base(&world, &plan, "sched-replay-base")?;
	let r = run_forked(&world, &plan, &probes, rp["sched_seed"].as_u64().unwrap_or(0), Some(choices), "sched-replay", &base);
	let _ = std::fs::remove_dir_all(&base);
	world.cleanup();
	let r = r?;
	println!("  points {} switches {} trace {}", r["points"], r["switches"], r["trace_digest"]);
	if let Some(vs) = r["violations"].as_array() {
		if let Some(v) = vs.first() {
			return Ok(Some(Violation {
				key: format!("C17:{}", v[0].as_str().unwrap_or("")),
				what: v[1].as_str().unwrap_or("").to_string(),
				replay: rp.clone(),
			}));
		}
	}
	Ok(None)
}
