//! Counting global allocator: largest single request and peak live bytes since the last reset.
//! Used by the wire engine to bound what a decoder asks for in response to peer-announced sizes.

use std::alloc::{GlobalAlloc, Layout, System};
use std::sync::atomic::{AtomicUsize, Ordering};

pub struct Counting;

static LIVE: AtomicUsize = AtomicUsize::new(0);
static BASE: AtomicUsize = AtomicUsize::new(0);
static PEAK: AtomicUsize = AtomicUsize::new(0);
static MAX_REQ: AtomicUsize = AtomicUsize::new(0);

unsafe impl GlobalAlloc for Counting {
	unsafe fn alloc(&self, l: Layout) -> *mut u8 {
		let p = System.alloc(l);
		if !p.is_null() {
			note(l.size());
		}
		p
	}
	unsafe fn alloc_zeroed(&self, l: Layout) -> *mut u8 {
		let p = System.alloc_zeroed(l);
		if !p.is_null() {
			note(l.size());
		}
		p
	}
	unsafe fn dealloc(&self, p: *mut u8, l: Layout) {
		LIVE.fetch_sub(l.size(), Ordering::Relaxed);
		System.dealloc(p, l)
	}
	unsafe fn realloc(&self, p: *mut u8, l: Layout, new_size: usize) -> *mut u8 {
		let q = System.realloc(p, l, new_size);
		if !q.is_null() {
			LIVE.fetch_sub(l.size(), Ordering::Relaxed);
			note(new_size);
		}
		q
	}
}

#[inline]
fn note(size: usize) {
	let live = LIVE.fetch_add(size, Ordering::Relaxed) + size;
	PEAK.fetch_max(live, Ordering::Relaxed);
	MAX_REQ.fetch_max(size, Ordering::Relaxed);
}

/// Start a measurement window.
pub fn reset() {
	let live = LIVE.load(Ordering::Relaxed);
	BASE.store(live, Ordering::Relaxed);
	PEAK.store(live, Ordering::Relaxed);
	MAX_REQ.store(0, Ordering::Relaxed);
}

/// (peak live bytes above the level at reset, largest single request) since `reset`.
pub fn stats() -> (usize, usize) {
	let peak = PEAK.load(Ordering::Relaxed);
	let base = BASE.load(Ordering::Relaxed);
	(peak.saturating_sub(base), MAX_REQ.load(Ordering::Relaxed))
}
