//! E6 poolsim: one real chain + one real `TransactionPool`, wired as `servers::Server::new` wires
//! them: the pool judges through the real `servers::PoolToChainAdapter`, and the chain's adapter is
//! the real `ChainToPoolAndNetAdapter` (reconcile_block on Next|Reorg, truncate_reorg_cache,
//! reconcile_reorg_cache on Reorg, header broadcast to a `Peers` object without connections).
//! After every operation the pool must hold a jointly valid, fee-paying, mineable set.

use crate::node::{fresh_dir, StatusKind};
use grin_chain::BlockStatus;
use grin_keychain::Keychain;
use grin_p2p::ChainAdapter as NetChainAdapter;
use grin_servers::common::adapters::{ChainToPoolAndNetAdapter, NetToChainAdapter, PoolToChainAdapter, PoolToNetAdapter};
use grin_servers::common::hooks::ChainEvents;
use grin_util::RwLock;
use std::sync::Mutex;
use crate::rng::{fnv64, SimRng};
use crate::sim::{CaseResult, Violation};
use crate::world::{ckey, CommitKey, OutInfo, World, WorldCfg};
use grin_chain::Chain;
use grin_core::core::committed::Committed;
use grin_core::core::hash::{Hash, Hashed};
use grin_core::core::transaction::{self, Weighting};
use grin_core::core::{
	Block, BlockHeader, BlockSums, CommitWrapper, FeeFields, Inputs, KernelFeatures, OutputIdentifier,
	Transaction,
};
use grin_core::global;
use grin_core::libtx;
use grin_core::pow;
use grin_pool::types::{BlockChain, PoolAdapter, PoolConfig, PoolEntry, PoolError, TxSource};
use grin_pool::TransactionPool;
use serde_derive::{Deserialize, Serialize};
use serde_json::{json, Value};
use std::collections::{BTreeMap, BTreeSet};
use std::sync::Arc;
use std::time::Instant;

/// Simulated relay: the stem relay of the next stem submission fails when the simulator says so
/// (no Dandelion relay peer available), which makes add_to_pool fall back to fluffing.
pub struct SimRelay {
	pub fail_next_stem: std::sync::atomic::AtomicBool,
	pub stem_relay_failed: std::sync::atomic::AtomicU64,
}

impl PoolAdapter for SimRelay {
	fn tx_accepted(&self, _entry: &PoolEntry) {}
	fn stem_tx_accepted(&self, _entry: &PoolEntry) -> Result<(), PoolError> {
		if self.fail_next_stem.swap(false, std::sync::atomic::Ordering::SeqCst) {
			self.stem_relay_failed.fetch_add(1, std::sync::atomic::Ordering::SeqCst);
			Err(PoolError::DandelionError)
		} else {
			Ok(())
		}
	}
}

/// Chain event hook (the slot the node uses for logging and web hooks): records what was accepted.
pub struct EventRec {
	pub events: Arc<Mutex<Vec<(Hash, StatusKind)>>>,
}

impl ChainEvents for EventRec {
	fn on_block_accepted(&self, block: &Block, status: BlockStatus) {
		let k = match status {
			BlockStatus::Next { .. } => StatusKind::Next,
			BlockStatus::Fork { .. } => StatusKind::Fork,
			BlockStatus::Reorg { .. } => StatusKind::Reorg,
		};
		self.events.lock().unwrap().push((block.hash(), k));
	}
}

pub type RealPool = TransactionPool<PoolToChainAdapter, SimRelay>;

/// Chain + pool + peers assembled like `servers::Server::new` does.
pub type RealNet = NetToChainAdapter<PoolToChainAdapter, SimRelay>;

/// What a peer connection is to the adapters: an address nobody is connected from.
pub fn sim_peer_info() -> grin_p2p::PeerInfo {
	grin_p2p::PeerInfo {
		capabilities: grin_p2p::Capabilities::default(),
		user_agent: "sim".into(),
		version: grin_core::ser::ProtocolVersion::local(),
		addr: grin_p2p::PeerAddr("10.9.9.9:13414".parse().unwrap()),
		direction: grin_p2p::types::Direction::Inbound,
		live_info: Arc::new(RwLock::new(grin_p2p::types::PeerLiveInfo::new(grin_core::pow::Difficulty::min_dma()))),
	}
}

pub fn assemble_node(dir: &std::path::Path, genesis: Block, relay: Arc<SimRelay>, cfg: PoolConfig) -> Result<(Arc<Chain>, Arc<RwLock<RealPool>>, Arc<grin_p2p::Peers>, Arc<Mutex<Vec<(Hash, StatusKind)>>>), String> {
	assemble_node_net(dir, genesis, relay, cfg).map(|(c, p, pe, ev, _)| (c, p, pe, ev))
}

pub fn assemble_node_net(dir: &std::path::Path, genesis: Block, relay: Arc<SimRelay>, cfg: PoolConfig) -> Result<(Arc<Chain>, Arc<RwLock<RealPool>>, Arc<grin_p2p::Peers>, Arc<Mutex<Vec<(Hash, StatusKind)>>>, Arc<RealNet>), String> {
	let p2c = Arc::new(PoolToChainAdapter::new());
	let pool = Arc::new(RwLock::new(TransactionPool::new(cfg, p2c.clone(), relay)));
	let events = Arc::new(Mutex::new(vec![]));
	let c2p = Arc::new(ChainToPoolAndNetAdapter::new(pool.clone(), vec![Box::new(EventRec { events: events.clone() })]));
	let chain = Chain::init(dir.join("chain_data").to_str().unwrap().to_string(), c2p.clone(), genesis, pow::verify_size, false, None).map_err(|e| format!("{:?}", e))?;
	let chain = Arc::new(chain);
	p2c.set_chain(chain.clone());
	let store = grin_p2p::store::PeerStore::new(dir.join("peers").to_str().unwrap()).map_err(|e| format!("peer store: {:?}", e))?;
	let peers = Arc::new(grin_p2p::Peers::new(store, Arc::new(grin_p2p::DummyAdapter {}), grin_p2p::P2PConfig::default()));
	c2p.init(peers.clone());
	let sync = Arc::new(grin_chain::SyncState::new());
	let net = Arc::new(NetToChainAdapter::new(sync, chain.clone(), pool.clone(), grin_servers::ServerConfig::default(), vec![]));
	net.init(peers.clone());
	Ok((chain, pool, peers, events, net))
}

#[derive(Clone)]
pub struct PoolChain {
	pub chain: Arc<Chain>,
}

impl BlockChain for PoolChain {
	fn chain_head(&self) -> Result<BlockHeader, PoolError> {
		self.chain
			.head_header()
			.map_err(|_| PoolError::Other("failed to get chain head".into()))
	}
	fn get_block_header(&self, hash: &Hash) -> Result<BlockHeader, PoolError> {
		self.chain
			.get_block_header(hash)
			.map_err(|_| PoolError::Other("failed to get block header".into()))
	}
	fn get_block_sums(&self, hash: &Hash) -> Result<BlockSums, PoolError> {
		self.chain
			.get_block_sums(hash)
			.map_err(|_| PoolError::Other("failed to get block sums".into()))
	}
	fn validate_tx(&self, tx: &Transaction) -> Result<(), PoolError> {
		self.chain.validate_tx(tx).map_err(|e| match e {
			grin_chain::Error::Transaction { source: txe } => txe.into(),
			grin_chain::Error::NRDRelativeHeight => PoolError::NRDKernelRelativeHeight,
			_ => PoolError::Other("failed to validate tx".into()),
		})
	}
	fn validate_inputs(&self, inputs: &Inputs) -> Result<Vec<OutputIdentifier>, PoolError> {
		self.chain
			.validate_inputs(inputs)
			.map(|outputs| outputs.into_iter().map(|(out, _)| out).collect::<Vec<_>>())
			.map_err(|_| PoolError::Other("failed to validate inputs".into()))
	}
	fn verify_coinbase_maturity(&self, inputs: &Inputs) -> Result<(), PoolError> {
		self.chain
			.verify_coinbase_maturity(inputs)
			.map_err(|_| PoolError::ImmatureCoinbase)
	}
	fn verify_tx_lock_height(&self, tx: &Transaction) -> Result<(), PoolError> {
		self.chain
			.verify_tx_lock_height(tx)
			.map_err(|_| PoolError::ImmatureTransaction)
	}
}

#[derive(Serialize, Deserialize, Clone, Debug, PartialEq)]
pub enum Submit {
	/// fresh spend of mature unspent outputs
	Valid,
	/// spends an output created by a pooled transaction
	Dependent,
	/// spends an input already spent by a pooled transaction
	Conflict,
	/// the same transaction again
	Duplicate,
	/// aggregate of two pooled transactions (or one pooled + a new one)
	Aggregated,
	/// fee below the minimum for its weight
	UnderFee,
	/// spends a coinbase one block before it matures
	ImmatureCoinbase,
	/// spends a coinbase that matures exactly with the next block
	JustMatureCoinbase,
	/// lock height two blocks ahead
	LockFuture,
	/// lock height equal to the next block's height
	LockNext,
	/// spends an output that does not exist
	NoSuchInput,
	/// valid spend whose kernel signature is garbage
	BadSignature,
	/// everything burned as fee (no outputs), honestly signed
	Outputless,
	/// no outputs and a garbage kernel signature
	OutputlessBadSignature,
	/// honest transaction whose fee carries a priority shift (fee large enough after shifting)
	ShiftedFee,
	/// declares a fee with a priority shift but pays only the shifted amount
	ShiftedUnderpay,
	/// aggregate of an already pooled, generously paying transaction and a new one that pays less than
	/// its own minimum: only the new part would enter the pool, so it must be refused
	AggregatedUnderFee,
	/// one transaction spending an immature coinbase together with a mature one
	MixedMaturityCoinbases,
	/// spends outputs of two different pooled transactions (a child with two parents in the pool)
	DependentTwoParents,
	/// a transaction that sits in the stempool is broadcast (what happens when its embargo expires)
	FluffStemmed,
	/// spends an output of the most recently pooled transaction
	DependentOnNewest,
	/// a no-recent-duplicate kernel with an excess never used before
	NrdFresh,
	/// an NRD kernel whose excess occurred in a block of the current chain fewer than
	/// relative_height blocks below the next block
	NrdRecentDuplicate,
	/// the same, exactly relative_height blocks below the next block
	NrdJustOldEnough,
	/// aggregate of two fresh transactions with height-locked kernels: one lock reached by the next
	/// block, the other two blocks further on - the aggregate is locked until the later one
	AggregatedMixedLocks,
	/// a transaction that sits in the stempool comes back as a stem transaction with *another body
	/// around the same kernel*: one more input and three more outputs (the kernel offset absorbs the
	/// difference of the blinding factors), so the fee its kernel pays no longer covers its weight
	/// unless the original paid well above the minimum. The pool recognises transactions by kernel.
	StemSameKernelHeavier,
}

#[derive(Serialize, Deserialize, Clone, Debug, PartialEq)]
pub enum Op {
	Submit { kind: Submit, stem: bool, r: u64 },
	/// mine a block from prepare_mineable_transactions()
	MinePool { r: u64 },
	/// mine a block with a subset of the pool and, optionally, a spend conflicting with a pooled tx
	MineSubset { conflict: bool, r: u64 },
	MineEmpty { r: u64 },
	/// a competing branch forking `depth` blocks below the head overtakes it
	Reorg { depth: u64, r: u64 },
	/// shrink the pool capacity so that the next submissions evict
	ShrinkCapacity { to: usize },
	/// only the header of a new block on the head arrives (header-first propagation, sync): the
	/// header chain is one ahead of the block chain, the pool must keep judging against the block chain
	HeaderAhead { r: u64 },
}

pub struct PoolSim<'w, P: PoolAdapter + 'static> {
	world: &'w mut World,
	chain: Arc<Chain>,
	events: Arc<Mutex<Vec<(Hash, StatusKind)>>>,
	pool: Arc<RwLock<TransactionPool<PoolToChainAdapter, P>>>,
	_peers: Arc<grin_p2p::Peers>,
	net: Arc<NetToChainAdapter<PoolToChainAdapter, P>>,
	peer_info: grin_p2p::PeerInfo,
	/// direct mode: the simulated Dandelion relay
	relay: Option<Arc<SimRelay>>,
	/// network mode: the node's real p2p stack and the simulated peers at the other ends
	link: Option<crate::netsim::NetLink>,
	/// network mode: the real `servers::mining::mine_block::get_block` over this node's chain and pool
	real_miner: Option<Box<dyn Fn() -> Result<Block, String>>>,
	dir: std::path::PathBuf,
	/// world block id of the node's head
	head: usize,
	base_blocks: usize,
	mark: crate::world::WorldMark,
	pub log: Vec<String>,
	pub step: u64,
	pub probes: BTreeMap<String, u64>,
	/// transactions submitted and accepted so far (for duplicates / aggregates)
	accepted: Vec<Transaction>,
	/// kernels of submissions the pool refused (and that were not in the pool at that moment, nor
	/// accepted since): a refused transaction leaves no trace, so none of them may ever show up in
	/// the txpool or stempool (C06: "processes further input exactly as a node that never saw it")
	refused_kernels: BTreeSet<Hash>,
	/// kernels of every submission the pool ever accepted: such a transaction may legitimately come
	/// back through the reorg cache after a later resubmission of it was refused (e.g. while it sat
	/// in a block that the reorg then undid)
	ever_accepted_kernels: BTreeSet<Hash>,
}

fn viol(key: &str, what: String) -> Violation {
	Violation {
		key: format!("C14:{}", key),
		what,
		replay: Value::Null,
	}
}

fn tx_inputs(tx: &Transaction) -> Vec<CommitKey> {
	let v: Vec<CommitWrapper> = tx.inputs().into();
	v.iter().map(|c| ckey(&c.commitment())).collect()
}

impl<'w> PoolSim<'w, SimRelay> {
	pub fn new(world: &'w mut World, start: usize, tag: &str) -> Result<PoolSim<'w, SimRelay>, String> {
		let dir = fresh_dir(tag);
		let relay = Arc::new(SimRelay {
			fail_next_stem: std::sync::atomic::AtomicBool::new(false),
			stem_relay_failed: std::sync::atomic::AtomicU64::new(0),
		});
		let (chain, pool, peers, events, net) = assemble_node_net(
			&dir,
			world.genesis.clone(),
			relay.clone(),
			PoolConfig {
				accept_fee_base: global::get_accept_fee_base(),
				reorg_cache_period: 30,
				max_pool_size: 50,
				max_stempool_size: 50,
				mineable_max_weight: global::max_block_weight(),
			},
		)?;
		for id in world.path_to(start) {
			chain
				.process_block(world.blocks[id].block.clone(), world.opts)
				.map_err(|e| format!("base block #{}: {:?}", id, e))?;
		}
		events.lock().unwrap().clear();
		let base_blocks = world.blocks.len();
		let mark = world.mark();
		Ok(PoolSim {
			world,
			chain,
			events,
			pool,
			_peers: peers,
			net,
			peer_info: sim_peer_info(),
			relay: Some(relay),
			link: None,
			real_miner: None,
			dir,
			head: start,
			base_blocks,
			mark,
			log: vec![],
			step: 0,
			probes: BTreeMap::new(),
			accepted: vec![],
			refused_kernels: BTreeSet::new(),
			ever_accepted_kernels: BTreeSet::new(),
		})
	}
}

fn pool_config() -> PoolConfig {
	PoolConfig {
		accept_fee_base: global::get_accept_fee_base(),
		reorg_cache_period: 30,
		max_pool_size: 50,
		max_stempool_size: 50,
		mineable_max_weight: global::max_block_weight(),
	}
}

impl<'w> PoolSim<'w, PoolToNetAdapter> {
	/// Network mode: the node is assembled with its complete p2p stack (E11 netsim); submissions and
	/// blocks arrive as peer messages, the pool relays through the real `PoolToNetAdapter`.
	pub fn new_net(world: &'w mut World, start: usize, tag: &str, with_relay: bool) -> Result<PoolSim<'w, PoolToNetAdapter>, String> {
		if world.cfg.nrd {
			// the node's peer threads read the process-wide flag
			global::set_global_nrd_enabled(true);
		}
		let dir = fresh_dir(tag);
		let base: Vec<Block> = world.path_to(start).into_iter().filter(|i| *i != 0).map(|i| world.blocks[i].block.clone()).collect();
		let link = crate::netsim::NetLink::new(&dir, world.genesis.clone(), pool_config(), &base, world.opts, with_relay)?;
		let chain = link.node.chain.clone();
		let pool = link.node.pool.clone();
		let events = link.node.events.clone();
		let peers = link.node.peers.clone();
		let net = link.node.net.clone();
		let (c2, p2) = (chain.clone(), pool.clone());
		let real_miner: Box<dyn Fn() -> Result<Block, String>> = Box::new(move || {
			let (c, p) = (c2.clone(), p2.clone());
			let (tx, rx) = std::sync::mpsc::channel();
			let _ = std::thread::Builder::new().name("netsim-helper".into()).spawn(move || {
				let r = grin_servers::verif_export::get_block(&c, &p, None, None);
				let _ = tx.send(r.0);
			});
			rx.recv_timeout(std::time::Duration::from_secs(20)).map_err(|_| "mine_block::get_block did not return a block within 20 s (it retries for as long as building fails)".to_string())
		});
		let base_blocks = world.blocks.len();
		let mark = world.mark();
		let mut ps = PoolSim {
			world,
			chain,
			events,
			pool,
			_peers: peers,
			net,
			peer_info: sim_peer_info(),
			relay: None,
			link: Some(link),
			real_miner: Some(real_miner),
			dir,
			head: start,
			base_blocks,
			mark,
			log: vec![],
			step: 0,
			probes: BTreeMap::new(),
			accepted: vec![],
			refused_kernels: BTreeSet::new(),
			ever_accepted_kernels: BTreeSet::new(),
		};
		ps.probe(if with_relay { "net_mode_with_relay_peer" } else { "net_mode_without_relay_peer" });
		Ok(ps)
	}
}

impl<'w, P: PoolAdapter + 'static> PoolSim<'w, P> {
	pub fn destroy(mut self) {
		let dir = self.dir.clone();
		let base = self.base_blocks;
		if let Some(l) = self.link.as_mut() {
			l.shutdown();
		}
		let world = self.world;
		let _ = base;
		world.reset_to(&self.mark);
		drop(self.real_miner);
		drop(self.link);
		drop(self.pool);
		drop(self.chain);
		let _ = std::fs::remove_dir_all(dir);
	}

	/// What the relay peer (and the source peer) received from the node since the last call.
	fn drain_net(&mut self) {
		let mut seen: Vec<String> = vec![];
		if let Some(l) = self.link.as_mut() {
			for slot in 0..l.peers.len() {
				for m in l.take(slot) {
					seen.push(format!("{}:{}", slot, crate::netsim::describe(&m).split('(').next().unwrap_or("").to_string()));
				}
			}
		}
		for s in seen {
			if s.ends_with("StemTransaction") {
				self.probe("net_stem_relayed_to_peer");
			} else if s.ends_with("Transaction") || s.ends_with("TransactionKernel") {
				self.probe("net_tx_broadcast_to_peer");
			} else if s.ends_with("Header") || s.ends_with("CompactBlock") {
				self.probe("net_block_broadcast_to_peer");
			}
		}
	}

	/// Network mode: serve what the node asked of peer 0 after a delivery (compact block, full block,
	/// transaction by kernel hash) from what the simulated peer has.
	fn serve_net(&mut self, blocks: &[Block], txs: &[Transaction]) -> Result<(), Violation> {
		for _ in 0..8 {
			let inbox = match self.link.as_mut() {
				Some(l) => l.take(0),
				None => return Ok(()),
			};
			let mut asked = false;
			for m in inbox {
				use grin_p2p::msg::{Message, Type};
				match m {
					Message::GetCompactBlock(h) => {
						if let Some(b) = blocks.iter().find(|b| b.hash() == h) {
							let cb = crate::wiresim::det_compact_block(b, fnv64(h.as_bytes()).rotate_left(17), grin_core::ser::ProtocolVersion::local());
							self.probe("net_compact_block_requested");
							self.net_send(0, Type::CompactBlock, cb)?;
							asked = true;
						}
					}
					Message::GetBlock(h) => {
						if let Some(b) = blocks.iter().find(|b| b.hash() == h) {
							self.probe("net_full_block_requested");
							self.net_send(0, Type::Block, b.clone())?;
							asked = true;
						}
					}
					Message::GetTransaction(h) => {
						if let Some(t) = txs.iter().find(|t| t.kernels().iter().any(|k| k.hash() == h)) {
							self.probe("net_transaction_requested_by_kernel_hash");
							self.net_send(0, Type::Transaction, t.clone())?;
							asked = true;
						}
					}
					_ => {}
				}
			}
			if !asked {
				return Ok(());
			}
		}
		Ok(())
	}

	fn net_send<T: grin_core::ser::Writeable>(&mut self, slot: usize, ty: grin_p2p::msg::Type, body: T) -> Result<(), Violation> {
		let step = self.step;
		match self.link.as_mut() {
			Some(l) => l.send(slot, ty, body).map_err(|e| viol("net-delivery-failed", format!("step {}: {}", step, e))),
			None => Ok(()),
		}
	}

	fn pooled_kernels(&self, with_stem: bool) -> BTreeSet<Hash> {
		let p = self.pool.read();
		let mut s: BTreeSet<Hash> = p.txpool.all_transactions().iter().flat_map(|t| t.kernels().iter().map(|k| k.hash()).collect::<Vec<_>>()).collect();
		if with_stem {
			for t in p.stempool.all_transactions() {
				for k in t.kernels() {
					s.insert(k.hash());
				}
			}
		}
		s
	}

	/// One submission: straight into the pool (direct mode), or as a peer message through the real
	/// Protocol and NetToChainAdapter (network mode; one in three announced by kernel hash first).
	/// Returns Ok(class) with class "accepted" or the refusal class.
	fn deliver_tx(&mut self, tx: &Transaction, stem: bool, header: &BlockHeader, r: u64) -> Result<(String, bool), Violation> {
		if self.link.is_none() {
			let res = self.pool.write().add_to_pool(TxSource::Broadcast, tx.clone(), stem, header);
			return Ok(match res {
				Ok(()) => ("accepted".to_string(), true),
				Err(e) => {
					let s = format!("{:?}", e);
					(s.split(|c: char| c == '(' || c == ' ' || c == '{').next().unwrap_or("").to_string(), false)
				}
			});
		}
		use grin_p2p::msg::Type;
		let before = self.pooled_kernels(stem);
		let before_any = self.pooled_kernels(true);
		if stem {
			self.net_send(0, Type::StemTransaction, tx.clone())?;
		} else if r % 3 == 0 && !tx.kernels().is_empty() {
			self.probe("net_tx_announced_by_kernel_hash");
			self.net_send(0, Type::TransactionKernel, tx.kernels()[0].hash())?;
			self.serve_net(&[], &[tx.clone()])?;
		} else {
			self.net_send(0, Type::Transaction, tx.clone())?;
		}
		let after = self.pooled_kernels(stem);
		let all_in = tx.kernels().iter().all(|k| after.contains(&k.hash()));
		let all_before = tx.kernels().iter().all(|k| before.contains(&k.hash()));
		let _ = before_any;
		let ok = all_in && !all_before;
		if !ok && std::env::var("VERIF_NET_DEBUG").is_ok() {
			use grin_p2p::ChainAdapter as _;
			let via = self.net.transaction_received(tx.clone(), stem);
			let bytes = grin_core::ser::ser_vec(tx, grin_core::ser::ProtocolVersion::local()).unwrap();
			let back: Result<Transaction, _> = grin_core::ser::deserialize(&mut &bytes[..], grin_core::ser::ProtocolVersion::local(), grin_core::ser::DeserializationMode::default());
			eprintln!("  adapter direct says {:?}; wire roundtrip {:?}; conn alive {:?}", via, back.map(|t| t.hash()), self.link.as_ref().map(|l| l.peers[0].alive));
			let again = self.pool.write().add_to_pool(TxSource::Broadcast, tx.clone(), stem, header);
			eprintln!("net refused: kernel_first={} ins={} outs={} kernels={} stem={} all_in={} all_before={} direct add_to_pool now says {:?}; syncing={}", !stem && r % 3 == 0, tx.inputs().len(), tx.outputs().len(), tx.kernels().len(), stem, all_in, all_before, again, self.link.as_ref().map(|l| l.node.sync.is_syncing()).unwrap_or(false));
		}
		Ok((if ok { "accepted".to_string() } else { "refused".to_string() }, ok))
	}

	fn probe(&mut self, k: &str) {
		*self.probes.entry(k.to_string()).or_insert(0) += 1;
	}

	fn chain_fingerprint(&self) -> String {
		let head = self.chain.head().map(|h| format!("{}@{}", h.last_block_h, h.height)).unwrap_or_else(|e| format!("{:?}", e));
		let hh = self.chain.header_head().map(|h| format!("{}@{}", h.last_block_h, h.height)).unwrap_or_else(|e| format!("{:?}", e));
		let t = self.chain.txhashset();
		let t = t.read();
		let roots = t.roots().map(|r| format!("{:?}", r)).unwrap_or_else(|e| format!("{:?}", e));
		format!("head {} header_head {} sizes ({}, {}, {}) roots {:x}", head, hh, t.output_mmr_size(), t.rangeproof_mmr_size(), t.kernel_mmr_size(), fnv64(roots.as_bytes()))
	}

	fn head_header(&self) -> BlockHeader {
		self.world.blocks[self.head].block.header.clone()
	}

	/// Inputs currently claimed by pooled (tx + stem) transactions.
	fn pool_inputs(&self) -> BTreeSet<CommitKey> {
		let mut s = BTreeSet::new();
		let pooled: Vec<Transaction> = {
			let p = self.pool.read();
			p.txpool.all_transactions().into_iter().chain(p.stempool.all_transactions().into_iter()).collect()
		};
		for t in pooled.iter() {
			for k in tx_inputs(t) {
				s.insert(k);
			}
		}
		s
	}

	/// Mature unspent outputs at the head that no pooled transaction spends.
	fn free_outputs(&self) -> Vec<OutInfo> {
		let h = self.world.blocks[self.head].height + 1;
		let used = self.pool_inputs();
		World::spendable(&self.world.blocks[self.head].ledger, h)
			.into_iter()
			.filter(|o| !used.contains(&ckey(&o.commit)))
			.collect()
	}

	fn plain_fee(n_in: usize, n_out: usize) -> u64 {
		libtx::tx_fee(n_in, n_out, 1)
	}

	fn make_spend(&mut self, ins: &[OutInfo], n_out: usize, fee: u64, features: Option<KernelFeatures>, rng: &mut SimRng) -> Option<Transaction> {
		let total: u64 = ins.iter().map(|o| o.value).sum();
		if total <= fee + n_out as u64 {
			return None;
		}
		let mut rest = total - fee;
		let mut vals = vec![];
		for i in 0..n_out {
			if i + 1 == n_out {
				vals.push(rest);
			} else {
				let v = rng.range(1, rest - (n_out - i - 1) as u64);
				vals.push(v);
				rest -= v;
			}
		}
		let f = features.unwrap_or(KernelFeatures::Plain {
			fee: FeeFields::new(0, fee).ok()?,
		});
		let (tx, _) = self.world.wallet.build_tx(ins, &vals, None, f);
		Some(tx)
	}

	/// `t` with one more input (`x`) and three more outputs that split `x`'s value, the kernel - and with
	/// it the fee - unchanged: the kernel offset absorbs the difference of the blinding factors.
	fn same_kernel_other_body(&mut self, t: &Transaction, x: &OutInfo) -> Option<Transaction> {
		use grin_keychain::{Keychain, SwitchCommitmentType};
		let kc = self.world.wallet.keychain.clone();
		let pb = grin_core::libtx::ProofBuilder::new(&kc);
		let secp = kc.secp();
		let k_in = kc.derive_key(x.value, &x.key_id, SwitchCommitmentType::Regular).ok()?;
		let vals = [x.value / 3, x.value / 3, x.value - 2 * (x.value / 3)];
		let mut pos = vec![t.offset.secret_key(secp).ok()?];
		let mut outs: Vec<grin_core::core::Output> = t.outputs().to_vec();
		for v in vals.iter() {
			let id = self.world.wallet.fresh_key();
			let commit = self.world.wallet.commit(*v, &id);
			let proof = grin_core::libtx::proof::create(&kc, &pb, *v, &id, SwitchCommitmentType::Regular, commit, None).ok()?;
			outs.push(grin_core::core::Output::new(grin_core::core::OutputFeatures::Plain, commit, proof));
			pos.push(kc.derive_key(*v, &id, SwitchCommitmentType::Regular).ok()?);
			self.world.wallet.known.insert(ckey(&commit), OutInfo { commit, value: *v, key_id: id, coinbase: false, height: 0, leaf: 0 });
		}
		let offset = secp.blind_sum(pos, vec![k_in]).ok()?;
		let mut ins: Vec<grin_core::core::Input> = match t.inputs() {
			grin_core::core::Inputs::FeaturesAndCommit(v) => v.clone(),
			_ => return None,
		};
		ins.push(grin_core::core::Input::new(crate::world::out_features(x.coinbase), x.commit));
		let tx = Transaction::new(grin_core::core::Inputs::FeaturesAndCommit(ins), &outs, t.kernels()).with_offset(grin_keychain::BlindingFactor::from_secret_key(offset));
		tx.validate(Weighting::AsTransaction).ok()?;
		Some(tx)
	}

	/// The pool was reconciled by the real ChainToPoolAndNetAdapter while the block was processed; here
	/// only the simulator's own notion of the head follows the recorded events.
	fn absorb_block_events(&mut self) {
		let events: Vec<(Hash, StatusKind)> = std::mem::take(&mut *self.events.lock().unwrap());
		for (hash, kind) in events {
			let id = match self.world.id_of_hash(&hash) {
				Some(i) => i,
				None => continue,
			};
			if kind == StatusKind::Next || kind == StatusKind::Reorg {
				self.head = id;
			}
			if kind == StatusKind::Reorg {
				self.probe("reorg_reconciled");
			}
		}
	}

	/// Network mode: the node's own block builder (`servers::mining::mine_block::get_block`, which takes
	/// the mineable set from the pool, burns the reward and sets the roots) must come back with a block
	/// within the weight limit, and a replica opened on a copy of the node's data directory must accept
	/// that block once the simulator has solved its proof of work.
	fn real_mine_check(&mut self) -> Result<(), Violation> {
		let step = self.step;
		let mut b = match &self.real_miner {
			None => return Ok(()),
			Some(m) => m().map_err(|e| viol("mineable-set-does-not-assemble", format!("step {}: {}", step, e)))?,
		};
		self.probe("real_mine_block_built");
		if b.kernels().len() > 1 {
			self.probe("real_mine_block_with_transactions");
		}
		let w = b.body.weight();
		if w > global::max_block_weight() {
			return Err(viol("mineable-set-too-heavy", format!("step {}: the block built by mine_block::get_block weighs {} > {}", step, w, global::max_block_weight())));
		}
		let prev = self.chain.head_header().map_err(|e| viol("head-error", format!("{:?}", e)))?;
		let diff = b.header.total_difficulty() - prev.total_difficulty();
		b.header.pow.nonce = 0;
		if pow::pow_size(&mut b.header, diff, global::proofsize(), global::min_edge_bits()).is_err() {
			return Err(viol("harness-pow", format!("step {}: no proof of work found", step)));
		}
		let copy = fresh_dir("mine-replica");
		crate::node::copy_dir(&self.dir.join("chain_data"), &copy.join("chain_data")).map_err(|e| viol("harness-copy", format!("{}", e)))?;
		let res = {
			let replica = crate::node::Node::open_at(copy.clone(), self.world.genesis.clone(), false);
			match replica {
				Ok(mut n) => {
					let same_head = n.chain().head().map(|h| h.last_block_h == prev.hash()).unwrap_or(false);
					let r = if same_head { n.chain().process_block(b.clone(), grin_chain::Options::NONE).map(|_| ()).map_err(|e| format!("{:?}", e)) } else { Err("replica opened on another head".to_string()) };
					n.destroy();
					r
				}
				Err(e) => Err(format!("replica Chain::init: {:?}", e)),
			}
		};
		let _ = std::fs::remove_dir_all(&copy);
		match res {
			Ok(()) => Ok(()),
			Err(e) if e.starts_with("replica") => Err(viol("harness-replica", format!("step {}: {}", step, e))),
			Err(e) => Err(viol("mineable-block-refused", format!("step {}: the block built by mine_block::get_block from the pool ({} kernels, weight {}) is refused by the chain: {}", step, b.kernels().len(), w, e))),
		}
	}

	/// Build a block on the node's head with `txs`, add it to the world (builder) and deliver it.
	fn mine(&mut self, txs: Vec<Transaction>, what: &str) -> Result<(), Violation> {
		let parent = self.head;
		let dt = self.world.draw_dt();
		let b = match self.world.assemble(parent, &txs, dt, None) {
			Ok(b) => b,
			Err(e) => {
				if what == "pool" {
					return Err(viol("mineable-set-does-not-assemble", format!("step {}: the set offered for mining does not assemble into a block: {}", self.step, e)));
				}
				return Ok(());
			}
		};
		if what == "pool" {
			let w = b.body.weight();
			if w > global::max_block_weight() {
				return Err(viol("mineable-set-too-heavy", format!("step {}: block built from the mineable set weighs {} > {}", self.step, w, global::max_block_weight())));
			}
		}
		let id = match self.world.add_block(parent, b.clone(), 0, txs, what.to_string()) {
			Ok(i) => i,
			Err(e) => {
				if what == "pool" {
					return Err(viol("mineable-block-refused", format!("step {}: block built from prepare_mineable_transactions was refused: {}", self.step, e)));
				}
				return Ok(());
			}
		};
		// the block reaches the node the way a peer's messages do: through the real NetToChainAdapter,
		// as a full block, as a compact block (hydrated from the pool; the full block follows when the
		// adapter would have asked for it), header first, or - one in four - straight into the chain
		let bh = b.hash();
		let mode = fnv64(bh.as_bytes()) % 4;
		let how = if self.link.is_some() && mode != 3 {
			use grin_p2p::msg::Type;
			let how = match mode {
				0 => {
					self.net_send(0, Type::Block, b.clone())?;
					"full block over the wire"
				}
				1 => {
					let cb = crate::wiresim::det_compact_block(&b, fnv64(bh.as_bytes()).rotate_left(17), grin_core::ser::ProtocolVersion::local());
					self.net_send(0, Type::CompactBlock, cb)?;
					"compact block over the wire"
				}
				_ => {
					self.probe("block_delivered_header_first");
					self.net_send(0, Type::Header, b.header.clone())?;
					"header first over the wire"
				}
			};
			self.serve_net(&[b.clone()], &[])?;
			if !self.chain.block_exists(bh).unwrap_or(false) {
				// the peer pushes the full block when the node did not come back for it
				self.net_send(0, Type::Block, b.clone())?;
				self.serve_net(&[b.clone()], &[])?;
			}
			self.drain_net();
			how
		} else {
		match mode {
			0 => {
				let _ = self.net.block_received(b.clone(), &self.peer_info, self.world.opts);
				"full block via adapter"
			}
			1 | 2 => {
				if mode == 2 {
					let _ = self.net.header_received(b.header.clone(), &self.peer_info);
					self.probe("block_delivered_header_first");
				}
				let cb = crate::wiresim::det_compact_block(&b, fnv64(bh.as_bytes()).rotate_left(17), grin_core::ser::ProtocolVersion::local());
				let _ = self.net.compact_block_received(cb, &self.peer_info);
				if self.chain.block_exists(bh).unwrap_or(false) {
					self.probe("compact_block_hydrated_from_pool");
					"compact block hydrated"
				} else {
					// what the peer answers to the adapter's request for the full block
					self.probe("compact_block_fell_back_to_full_block");
					let _ = self.net.block_received(b.clone(), &self.peer_info, self.world.opts);
					"compact block, then full block"
				}
			}
			_ => {
				let _ = self.chain.process_block(b.clone(), self.world.opts);
				"process_block"
			}
		}
		};
		if !self.chain.block_exists(bh).unwrap_or(false) {
			let again = self.chain.process_block(b, self.world.opts);
			return Err(viol("block-refused-by-node", format!("step {}: node did not accept block #{} ({}) the builder accepted, delivered as {}; process_block now says {:?}", self.step, id, what, how, again.map(|t| t.map(|x| x.height)))));
		}
		self.absorb_block_events();
		Ok(())
	}

	pub fn exec(&mut self, op: &Op) -> Result<(), Violation> {
		self.step += 1;
		let res = match op {
			Op::Submit { kind, stem, r } => {
				// a submission, accepted or refused, never touches chain state (C06, transaction clause)
				let before = self.chain_fingerprint();
				let out = self.submit(kind, *stem, *r)?;
				let after = self.chain_fingerprint();
				if before != after {
					return Err(viol("submission-changed-chain-state", format!("step {}: submission {:?} ({}) changed the chain state: {} -> {}", self.step, kind, out, before, after)));
				}
				out
			}
			Op::MinePool { .. } => {
				self.real_mine_check()?;
				let prepared = self.pool.read().prepare_mineable_transactions();
				let txs = prepared
					.map_err(|e| viol("prepare-mineable-failed", format!("step {}: {:?}", self.step, e)))?;
				let n = txs.len();
				if n > 0 {
					self.probe("mined_from_pool_nonempty");
				}
				self.mine(txs, "pool")?;
				format!("mined {} txs", n)
			}
			Op::MineSubset { conflict, r } => {
				let mut rng = SimRng::new(*r);
				let mut all = self.pool.read().txpool.all_transactions();
				rng.shuffle(&mut all);
				let k = if all.is_empty() { 0 } else { rng.usize_below(all.len() + 1) };
				let mut txs: Vec<Transaction> = vec![];
				// keep only a dependency-closed prefix: a tx whose input is created by an unselected pool tx is skipped
				let created_by_pool: BTreeSet<CommitKey> = all.iter().flat_map(|t| t.outputs().iter().map(|o| ckey(&o.commitment())).collect::<Vec<_>>()).collect();
				for t in all.iter().take(k) {
					let needs: Vec<CommitKey> = tx_inputs(t).into_iter().filter(|i| created_by_pool.contains(i)).collect();
					let have: BTreeSet<CommitKey> = txs.iter().flat_map(|x| x.outputs().iter().map(|o| ckey(&o.commitment())).collect::<Vec<_>>()).collect();
					if needs.iter().all(|n| have.contains(n)) {
						txs.push(t.clone());
					}
				}
				if *conflict {
					// a different transaction spending an input a pooled (unselected) tx spends
					let selected_inputs: BTreeSet<CommitKey> = txs.iter().flat_map(|t| tx_inputs(t)).collect();
					let ledger = self.world.blocks[self.head].ledger.clone();
					let cand: Vec<OutInfo> = self
						.pool_inputs()
						.iter()
						.filter(|k| !selected_inputs.contains(*k))
						.filter_map(|k| ledger.get(k).cloned())
						.collect();
					if let Some(x) = cand.first() {
						if let Some(t) = self.make_spend(&[x.clone()], 1, Self::plain_fee(1, 1), None, &mut rng) {
							txs.push(t);
							self.probe("block_with_conflicting_spend");
						}
					}
				}
				let n = txs.len();
				self.mine(txs, "subset")?;
				format!("mined subset {} txs", n)
			}
			Op::MineEmpty { .. } => {
				self.mine(vec![], "empty")?;
				"mined empty".into()
			}
			Op::HeaderAhead { .. } => {
				let parent = self.head;
				let dt = self.world.draw_dt();
				match self.world.assemble(parent, &[], dt, None) {
					Ok(b) => match self.world.add_block(parent, b.clone(), 0, vec![], "header-only".to_string()) {
						Ok(_) => match self.chain.process_block_header(&b.header, self.world.opts) {
							Ok(()) => {
								self.probe("header_chain_ahead_of_block_chain");
								"header only".into()
							}
							Err(e) => return Err(viol("header-refused-by-node", format!("step {}: node refused the header of a block the builder accepted: {:?}", self.step, e))),
						},
						Err(_) => "skipped".into(),
					},
					Err(_) => "skipped".into(),
				}
			}
			Op::Reorg { depth, r } => {
				let mut rng = SimRng::new(*r);
				// fork point `depth` below the head
				let mut fp = self.head;
				for _ in 0..*depth {
					if let Some(p) = self.world.blocks[fp].parent {
						if p >= 1 {
							fp = p;
						}
					}
				}
				let target = self.world.blocks[self.head].total_difficulty;
				let mut p = fp;
				let mut guard = 0;
				let mut new_ids = vec![];
				while self.world.blocks[p].total_difficulty <= target && guard < 10 {
					// fork blocks carry their own spends (possibly of outputs pooled txs spend)
					let h = self.world.blocks[p].height + 1;
					let mut txs = vec![];
					if rng.chance(1, 2) {
						let mut pool = World::spendable(&self.world.blocks[p].ledger, h);
						// every other reorg aims at the outputs pooled transactions spend: the pooled spender
						// falls out, whatever else was refused for clashing with it must stay out
						if *r % 2 == 0 {
							let claimed = self.pool_inputs();
							let aimed: Vec<OutInfo> = pool.iter().filter(|o| claimed.contains(&ckey(&o.commit))).cloned().collect();
							if !aimed.is_empty() {
								pool = aimed;
								self.probe("fork_block_spends_pooled_input");
							}
						}
						if !pool.is_empty() {
							let x = rng.pick(&pool).clone();
							if let Some(t) = self.make_spend(&[x], 2, Self::plain_fee(1, 2), None, &mut rng) {
								txs.push(t);
							}
						}
					}
					let dt = self.world.draw_dt();
					let b = match self.world.assemble(p, &txs, dt, None) {
						Ok(b) => b,
						Err(_) => break,
					};
					match self.world.add_block(p, b, 1, txs, "fork".into()) {
						Ok(id) => {
							new_ids.push(id);
							p = id;
						}
						Err(_) => break,
					}
					guard += 1;
				}
				for id in &new_ids {
					let b = self.world.blocks[*id].block.clone();
					let head_before = self.head;
					let pool_before = (self.pooled_kernels(false), self.pooled_kernels(true));
					if let Err(e) = self.chain.process_block(b, self.world.opts) {
						return Err(viol("fork-block-refused", format!("step {}: node refused fork block #{}: {:?}", self.step, id, e)));
					}
					self.absorb_block_events();
					// C06: a block accepted onto a fork that does not become the head leaves the node as it
					// was - its pool included (what it holds decides how later compact blocks are hydrated
					// and which transactions it still relays)
					if self.head == head_before {
						self.probe("losing_fork_block_delivered_with_pool_watch");
						let pool_after = (self.pooled_kernels(false), self.pooled_kernels(true));
						if pool_after != pool_before {
							return Err(viol(
								"losing-fork-block-changed-pool",
								format!("step {}: fork block #{} did not become the head, yet the pool went from {} (+{} stem) to {} (+{} stem) kernels", self.step, id, pool_before.0.len(), pool_before.1.len() - pool_before.0.len(), pool_after.0.len(), pool_after.1.len() - pool_after.0.len()),
							));
						}
					}
				}
				self.probe("reorg_op");
				format!("reorg depth {} via {} blocks", depth, new_ids.len())
			}
			Op::ShrinkCapacity { to } => {
				self.pool.write().config.max_pool_size = *to;
				format!("capacity {}", to)
			}
		};
		self.check(&format!("{:?} -> {}", op, res))
	}

	fn submit(&mut self, kind: &Submit, stem: bool, r: u64) -> Result<String, Violation> {
		let mut rng = SimRng::new(r);
		let header = self.head_header();
		let next_h = header.height + 1;
		let maturity = global::coinbase_maturity();
		let free = self.free_outputs();
		// expectation: Some(true) must be accepted, Some(false) must be refused, None = either
		let mut expect: Option<bool> = None;
		let tx: Option<Transaction> = match kind {
			Submit::Valid => {
				let mut f = free.clone();
				rng.shuffle(&mut f);
				let n_in = rng.range(1, 2) as usize;
				let ins: Vec<OutInfo> = f.into_iter().take(n_in).collect();
				if ins.is_empty() {
					None
				} else {
					let n_out = rng.range(1, 3) as usize;
					// (the fee bonus comes straight from the operation's seed, so that a schedule can ask for
					// a transaction at the bare minimum - the first candidate for eviction - or above it)
					let fee = Self::plain_fee(ins.len(), n_out) + (r % 5) * 1_000_000;
					expect = Some(true);
					self.make_spend(&ins, n_out, fee, None, &mut rng)
				}
			}
			Submit::Dependent | Submit::DependentOnNewest => {
				// an output created by a pooled tx (the most recently pooled one for DependentOnNewest) and
				// not yet spent by another pooled tx
				let used = self.pool_inputs();
				let mut cands: Vec<OutInfo> = vec![];
				let mut pooled_txs = self.pool.read().txpool.all_transactions();
				if *kind == Submit::DependentOnNewest {
					pooled_txs = pooled_txs.into_iter().rev().take(1).collect();
				}
				for t in pooled_txs {
					for o in t.outputs() {
						let k = ckey(&o.commitment());
						if !used.contains(&k) {
							if let Some(i) = self.world.wallet.known.get(&k) {
								cands.push(i.clone());
							}
						}
					}
				}
				if cands.is_empty() {
					None
				} else {
					let x = rng.pick(&cands).clone();
					expect = Some(true);
					self.probe(if *kind == Submit::DependentOnNewest { "dependent_on_newest_submitted" } else { "dependent_chain_submitted" });
					self.make_spend(&[x], 1, Self::plain_fee(1, 1) + (r % 5) * 1_000_000, None, &mut rng)
				}
			}
			Submit::StemSameKernelHeavier => {
				let stemmed = self.pool.read().stempool.all_transactions();
				let used = self.pool_inputs();
				let extra: Option<OutInfo> = free.iter().find(|o| !used.contains(&ckey(&o.commit)) && o.value > 10).cloned();
				match (stemmed.first().cloned(), extra) {
					(Some(t), Some(x)) => {
						let heavier = self.same_kernel_other_body(&t, &x);
						if let Some(h) = &heavier {
							let base = self.pool.read().config.accept_fee_base;
							expect = if h.shifted_fee() < h.weight() * base { Some(false) } else { None };
							self.probe("stem_same_kernel_heavier_body_submitted");
							if expect == Some(false) {
								self.probe("stem_same_kernel_heavier_body_under_fee");
							}
						}
						heavier
					}
					_ => None,
				}
			}
			Submit::FluffStemmed => {
				let stemmed = self.pool.read().stempool.all_transactions();
				if stemmed.is_empty() {
					None
				} else {
					let t = rng.pick(&stemmed).clone();
					expect = Some(true);
					self.probe("stem_tx_fluffed");
					Some(t)
				}
			}
			Submit::DependentTwoParents => {
				let used = self.pool_inputs();
				let mut per_tx: Vec<OutInfo> = vec![];
				let pooled_txs = self.pool.read().txpool.all_transactions();
				for t in pooled_txs {
					for o in t.outputs() {
						let k = ckey(&o.commitment());
						if !used.contains(&k) {
							if let Some(i) = self.world.wallet.known.get(&k) {
								per_tx.push(i.clone());
								break;
							}
						}
					}
				}
				if per_tx.len() < 2 {
					None
				} else {
					rng.shuffle(&mut per_tx);
					expect = Some(true);
					self.probe("two_parent_child_submitted");
					self.make_spend(&[per_tx[0].clone(), per_tx[1].clone()], 1, Self::plain_fee(2, 1) + (r % 5) * 1_000_000, None, &mut rng)
				}
			}
			Submit::Conflict => {
				let ledger = self.world.blocks[self.head].ledger.clone();
				let cands: Vec<OutInfo> = self.pool.read().txpool.all_transactions().iter().flat_map(|t| tx_inputs(t)).filter_map(|k| ledger.get(&k).cloned()).collect();
				if cands.is_empty() {
					None
				} else {
					let x = rng.pick(&cands).clone();
					expect = Some(false);
					self.probe("conflicting_submitted");
					self.make_spend(&[x], 1, Self::plain_fee(1, 1), None, &mut rng)
				}
			}
			Submit::Duplicate => {
				let all = self.pool.read().txpool.all_transactions();
				if all.is_empty() {
					None
				} else {
					expect = Some(false);
					Some(rng.pick(&all).clone())
				}
			}
			Submit::Aggregated => {
				let all = self.pool.read().txpool.all_transactions();
				if all.len() >= 2 {
					let a = all[0].clone();
					let b = all[all.len() - 1].clone();
					self.probe("aggregate_of_pooled_submitted");
					transaction::aggregate(&[a, b]).ok()
				} else if all.len() == 1 && !free.is_empty() {
					let x = free[0].clone();
					let t = self.make_spend(&[x], 1, Self::plain_fee(1, 1), None, &mut rng);
					t.and_then(|t| transaction::aggregate(&[all[0].clone(), t]).ok())
				} else {
					None
				}
			}
			Submit::MixedMaturityCoinbases => {
				let used = self.pool_inputs();
				let cbs: Vec<OutInfo> = self.world.blocks[self.head].ledger.values().filter(|o| o.coinbase && !used.contains(&ckey(&o.commit))).cloned().collect();
				let young: Vec<OutInfo> = cbs.iter().filter(|o| o.height + maturity == next_h + 1).cloned().collect();
				let old: Vec<OutInfo> = cbs.iter().filter(|o| o.height + maturity <= next_h).cloned().collect();
				if let (Some(x), false) = (young.first().cloned(), old.is_empty()) {
					let y = rng.pick(&old).clone();
					expect = Some(false);
					self.probe("mixed_maturity_coinbases_submitted");
					self.make_spend(&[x, y], 1, Self::plain_fee(2, 1), None, &mut rng)
				} else {
					None
				}
			}
			Submit::AggregatedUnderFee => {
				// a generous A goes into the txpool first (fluff), then AB with a near-free B
				if free.len() >= 2 && self.pool.read().txpool.size() + 2 <= self.pool.read().config.max_pool_size {
					let a = self.make_spend(&[free[0].clone()], 1, Self::plain_fee(1, 1) * 6, None, &mut rng);
					let b = self.make_spend(&[free[1].clone()], 1, 1_000 + rng.below(1000), None, &mut rng);
					match (a, b) {
						(Some(a), Some(b)) => {
							if self.pool.write().add_to_pool(TxSource::Broadcast, a.clone(), false, &header).is_ok() {
								self.accepted.push(a.clone());
								expect = Some(false);
								self.probe("aggregate_with_underfee_remainder_submitted");
								transaction::aggregate(&[a, b]).ok()
							} else {
								None
							}
						}
						_ => None,
					}
				} else {
					None
				}
			}
			Submit::ShiftedFee | Submit::ShiftedUnderpay => {
				if let Some(x) = free.first().cloned() {
					let shift = rng.range(1, 6);
					let fee = (Self::plain_fee(1, 1) << shift) | 1;
					if x.value > fee + 1 {
						let honest = *kind == Submit::ShiftedFee;
						expect = Some(honest);
						self.probe(if honest { "shifted_fee_submitted" } else { "shifted_underpay_submitted" });
						let paid = if honest { fee } else { fee >> shift };
						let f = KernelFeatures::Plain { fee: FeeFields::new(shift, fee).expect("fee fields") };
						let (tx, _) = self.world.wallet.build_tx(&[x.clone()], &[x.value - paid], None, f);
						Some(tx)
					} else {
						None
					}
				} else {
					None
				}
			}
			Submit::UnderFee => {
				if let Some(x) = free.first().cloned() {
					expect = Some(false);
					if self.pool.read().total_size() > self.pool.read().config.max_pool_size {
						self.probe("underfee_submitted_at_capacity");
					}
					let fee = Self::plain_fee(1, 1).saturating_sub(1 + rng.below(1000)).max(1);
					self.make_spend(&[x], 1, fee, None, &mut rng)
				} else {
					None
				}
			}
			Submit::ImmatureCoinbase | Submit::JustMatureCoinbase => {
				let want = if *kind == Submit::ImmatureCoinbase { next_h + 1 } else { next_h };
				let used = self.pool_inputs();
				let cands: Vec<OutInfo> = self.world.blocks[self.head]
					.ledger
					.values()
					.filter(|o| o.coinbase && o.height + maturity == want && !used.contains(&ckey(&o.commit)))
					.cloned()
					.collect();
				if let Some(x) = cands.first().cloned() {
					expect = Some(*kind == Submit::JustMatureCoinbase && next_h >= maturity);
					self.probe(if *kind == Submit::ImmatureCoinbase { "immature_coinbase_submitted" } else { "just_mature_coinbase_submitted" });
					self.make_spend(&[x], 1, Self::plain_fee(1, 1), None, &mut rng)
				} else {
					None
				}
			}
			Submit::LockFuture | Submit::LockNext => {
				if let Some(x) = free.first().cloned() {
					let lh = if *kind == Submit::LockFuture { next_h + 1 + (r % 3) } else { next_h };
					expect = Some(*kind == Submit::LockNext);
					let fee = Self::plain_fee(1, 1);
					let f = KernelFeatures::HeightLocked {
						fee: FeeFields::new(0, fee).unwrap(),
						lock_height: lh,
					};
					self.probe(if *kind == Submit::LockFuture { "lock_future_submitted" } else { "lock_next_submitted" });
					self.make_spend(&[x], 1, fee, Some(f), &mut rng)
				} else {
					None
				}
			}
			Submit::AggregatedMixedLocks => {
				if free.len() >= 2 {
					let fee = Self::plain_fee(1, 1);
					let mk = |lh: u64| KernelFeatures::HeightLocked { fee: FeeFields::new(0, fee).unwrap(), lock_height: lh };
					let a = self.make_spend(&[free[0].clone()], 1, fee, Some(mk(next_h)), &mut rng);
					let b = self.make_spend(&[free[1].clone()], 1, fee, Some(mk(next_h + 2)), &mut rng);
					expect = Some(false);
					self.probe("aggregate_with_mixed_lock_heights_submitted");
					match (a, b) {
						(Some(a), Some(b)) => transaction::aggregate(&[a, b]).ok(),
						_ => None,
					}
				} else {
					None
				}
			}
			Submit::BadSignature | Submit::Outputless | Submit::OutputlessBadSignature => {
				if let Some(x) = free.first().cloned() {
					let t = if *kind == Submit::BadSignature {
						self.make_spend(&[x.clone()], 1, Self::plain_fee(1, 1), None, &mut rng)
					} else {
						FeeFields::new(0, x.value).ok().map(|ff| self.world.wallet.build_tx(&[x.clone()], &[], None, KernelFeatures::Plain { fee: ff }).0)
					};
					// everything is paid as fee: acceptable only if the input covers the minimum fee
					let pays_enough = x.value >= Self::plain_fee(1, 0).max(Self::plain_fee(1, 1));
					expect = if *kind == Submit::Outputless { if pays_enough { Some(true) } else { None } } else { Some(false) };
					t.map(|mut t| {
						if *kind != Submit::Outputless {
							let mut raw = [0u8; 64];
							raw.copy_from_slice(&rng.bytes(64));
							if let Ok(sig) = grin_util::secp::Signature::from_raw_data(&raw) {
								t.body.kernels[0].excess_sig = sig;
							}
						}
						t
					})
				} else {
					None
				}
			}
			Submit::NrdFresh | Submit::NrdRecentDuplicate | Submit::NrdJustOldEnough => {
				use grin_core::core::NRDRelativeHeight;
				let hv4 = grin_core::consensus::header_version(next_h) >= grin_core::core::HeaderVersion(4);
				if !self.world.cfg.nrd || !hv4 || free.is_empty() {
					None
				} else {
					let x = free[0].clone();
					let fee = Self::plain_fee(1, 1);
					let ff = FeeFields::new(0, fee).unwrap();
					// excesses that occurred in a block of the current chain and are not in the pool now
					let pooled: BTreeSet<Hash> = self.pooled_kernels(true);
					let _ = &pooled;
					let in_pool: BTreeSet<CommitKey> = {
						let p = self.pool.read();
						p.txpool.all_transactions().iter().chain(p.stempool.all_transactions().iter()).flat_map(|t| t.kernels().iter().map(|k| ckey(&k.excess)).collect::<Vec<_>>()).collect()
					};
					let secp_commit = |k: &grin_util::secp::key::SecretKey, w: &World| ckey(&w.wallet.keychain.secp().commit(0, k.clone()).expect("commit"));
					let on_chain: Vec<(grin_util::secp::key::SecretKey, u64)> = self
						.world
						.nrd_keys
						.iter()
						.filter_map(|k| {
							let ex = secp_commit(k, &*self.world);
							if in_pool.contains(&ex) {
								return None;
							}
							self.world.blocks[self.head].nrd_last.get(&ex).map(|p| (k.clone(), *p))
						})
						.collect();
					if *kind == Submit::NrdFresh {
						let rh = rng.range(1, 3);
						expect = Some(true);
						self.probe("nrd_fresh_submitted");
						let f = KernelFeatures::NoRecentDuplicate { fee: ff, relative_height: NRDRelativeHeight::new(rh).unwrap() };
						if x.value > fee + 1 {
							let (tx, _, key) = self.world.wallet.build_tx_ex(&[x.clone()], &[x.value - fee], None, f, None);
							if !self.world.nrd_keys.iter().any(|k| k == &key) {
								self.world.nrd_keys.push(key);
							}
							Some(tx)
						} else {
							None
						}
					} else if let Some((key, p)) = on_chain.last().cloned() {
						let dist = next_h - p;
						let recent = *kind == Submit::NrdRecentDuplicate;
						let rh = if recent { dist + 1 } else { dist };
						if rh >= 1 && rh <= 1440 && x.value > fee + 1 {
							expect = Some(!recent);
							self.probe(if recent { "nrd_recent_duplicate_submitted" } else { "nrd_just_old_enough_submitted" });
							if recent && !self.pool.read().txpool.all_transactions().is_empty() {
								self.probe("nrd_recent_duplicate_next_to_other_kernels");
							}
							let f = KernelFeatures::NoRecentDuplicate { fee: ff, relative_height: NRDRelativeHeight::new(rh).unwrap() };
							let (tx, _, _) = self.world.wallet.build_tx_ex(&[x.clone()], &[x.value - fee], None, f, Some(key));
							Some(tx)
						} else {
							None
						}
					} else {
						None
					}
				}
			}
			Submit::NoSuchInput => {
				let key_id = self.world.wallet.fresh_key();
				let value = 5_000_000_000u64;
				let fake = OutInfo {
					commit: self.world.wallet.commit(value, &key_id),
					value,
					key_id,
					coinbase: false,
					height: 0,
					leaf: 0,
				};
				expect = Some(false);
				self.make_spend(&[fake], 1, Self::plain_fee(1, 1), None, &mut rng)
			}
		};
		let tx = match tx {
			Some(t) => t,
			None => return Ok("skipped".into()),
		};
		let stem = stem && *kind != Submit::AggregatedUnderFee && *kind != Submit::FluffStemmed;
		if stem && rng.chance(1, 4) {
			// no relay peer for this one: add_to_pool falls back to the txpool
			if let Some(relay) = &self.relay {
				relay.fail_next_stem.store(true, std::sync::atomic::Ordering::SeqCst);
			}
		}
		let over_capacity = self.pool.read().txpool.size() >= self.pool.read().config.max_pool_size;
		if self.link.is_some() && (over_capacity || self.pool.read().total_size() >= self.pool.read().config.max_pool_size) {
			// over the wire only the pool's contents tell whether a transaction was taken; at capacity
			// an admitted transaction may be the one evicted right away, so no answer is expected
			expect = None;
		}
		let (cls, ok) = self.deliver_tx(&tx, stem, &header, r)?;
		let res: Result<(), ()> = if ok { Ok(()) } else { Err(()) };
		if let Some(relay) = &self.relay {
			let relay_failed = relay.stem_relay_failed.swap(0, std::sync::atomic::Ordering::SeqCst) > 0;
			relay.fail_next_stem.store(false, std::sync::atomic::Ordering::SeqCst);
			if relay_failed {
				self.probe("stem_relay_failed_fell_back_to_fluff");
			}
		}
		self.drain_net();
		if res.is_ok() {
			for k in tx.kernels() {
				self.refused_kernels.remove(&k.hash());
				self.ever_accepted_kernels.insert(k.hash());
			}
		} else if (self.link.is_none() && expect != Some(true)) || expect == Some(false) {
			// (over the wire a refusal is only inferred from the pool's contents: counted only where the
			// model says the submission has to be refused)
			let pooled = self.pooled_kernels(true);
			for k in tx.kernels() {
				if !pooled.contains(&k.hash()) && !self.ever_accepted_kernels.contains(&k.hash()) {
					self.refused_kernels.insert(k.hash());
				}
			}
		}
		if res.is_ok() {
			self.accepted.push(tx);
			self.probe(if stem { "stem_accepted" } else { "fluff_accepted" });
			if over_capacity && !stem {
				self.probe("accepted_at_capacity_with_eviction");
			}
		}
		if let Some(want) = expect {
			// capacity refusals of stem transactions are legal
			let capacity_refusal = cls == "OverCapacity";
			if res.is_ok() != want && !(want && capacity_refusal) {
				return Err(viol(
					&format!("submit-result:{:?}", kind),
					format!("step {}: submission {:?} (stem={}) at height {}: pool answered {} but must {}", self.step, kind, stem, header.height, cls, if want { "accept" } else { "refuse" }),
				));
			}
		}
		Ok(cls)
	}

	/// The pool invariants (C14), checked after every operation.
	fn check(&mut self, ctx: &str) -> Result<(), Violation> {
		let step = self.step;
		let header = match self.chain.head_header() {
			Ok(h) => h,
			Err(e) => return Err(viol("head-error", format!("{:?}", e))),
		};
		if header.hash() != self.world.blocks[self.head].hash {
			return Err(viol("harness-head-out-of-sync", format!("step {}: node head {} vs model #{}", step, header.hash(), self.head)));
		}
		// after an operation that connected blocks: the chain state is still the valid one. Submissions
		// run their transactions through a read-only extension of the chain (`validate_tx`); whatever
		// such an extension leaves behind in the MMR backends' buffers is flushed by the next accepted
		// block. (Only after block operations: `validate` itself rolls an extension back and would wipe
		// residue before it could do harm.)
		if ctx.starts_with("Mine") || ctx.starts_with("Reorg") {
			if let Err(e) = self.chain.validate(true) {
				return Err(viol("chain-invalid-after-pool-traffic", format!("step {} ({}): Chain::validate(fast) fails after the pool judged submissions against this chain and a block was then accepted: {:?}", step, ctx, e)));
			}
			self.probe("chain_validated_after_block_op");
		}
		let txs = self.pool.read().txpool.all_transactions();
		let stem = self.pool.read().stempool.all_transactions();
		// nothing the pool refused has found its way in
		for t in txs.iter().chain(stem.iter()) {
			if let Some(k) = t.kernels().iter().find(|k| self.refused_kernels.contains(&k.hash())) {
				return Err(viol("refused-transaction-in-pool", format!("step {} ({}): the pool holds kernel {} of a transaction it refused when it was submitted (and that was never accepted since)", step, ctx, k.hash())));
			}
		}
		// no two entries share an input
		let mut seen: BTreeSet<CommitKey> = BTreeSet::new();
		for t in &txs {
			for i in tx_inputs(t) {
				if !seen.insert(i) {
					return Err(viol("pool-double-spend", format!("step {} ({}): two pooled transactions spend the same output {}", step, ctx, crate::rng::hex(&i[..8]))));
				}
			}
		}
		// every entry on its own
		let base = self.pool.read().config.accept_fee_base;
		for t in txs.iter().chain(stem.iter()) {
			if let Err(e) = t.validate(Weighting::AsTransaction) {
				return Err(viol("pool-entry-invalid", format!("step {} ({}): a pooled transaction fails standalone validation: {:?}", step, ctx, e)));
			}
			let min_fee = t.weight() * base;
			if t.shifted_fee() < min_fee {
				return Err(viol("pool-entry-under-fee", format!("step {} ({}): a pooled transaction pays {} (shifted) below the minimum {} for weight {}", step, ctx, t.shifted_fee(), min_fee, t.weight())));
			}
			if t.weight() > global::max_tx_weight() {
				return Err(viol("pool-entry-too-heavy", format!("step {} ({}): pooled transaction weight {} > {}", step, ctx, t.weight(), global::max_tx_weight())));
			}
		}
		// jointly valid on top of the current head
		for (name, set) in [("txpool", txs.clone()), ("txpool+stempool", txs.iter().chain(stem.iter()).cloned().collect::<Vec<_>>())] {
			if set.is_empty() {
				continue;
			}
			let agg = match transaction::aggregate(&set) {
				Ok(a) => a,
				Err(e) => return Err(viol("pool-aggregate-fails", format!("step {} ({}): {} does not aggregate: {:?}", step, ctx, name, e))),
			};
			if let Err(e) = agg.validate(Weighting::NoLimit) {
				return Err(viol("pool-aggregate-invalid", format!("step {} ({}): aggregate of {} is invalid: {:?}", step, ctx, name, e)));
			}
			if let Err(e) = self.chain.validate_tx(&agg) {
				return Err(viol("pool-not-applicable-on-head", format!("step {} ({}): aggregate of {} ({} txs) cannot be applied on the current head h{}: {:?}", step, ctx, name, set.len(), header.height, e)));
			}
			// block sums
			let sums = match self.chain.get_block_sums(&header.hash()) {
				Ok(s) => s,
				Err(e) => return Err(viol("block-sums-missing", format!("{:?}", e))),
			};
			let offset = {
				let secp = grin_util::static_secp_instance();
				let secp = secp.lock();
				header.total_kernel_offset().add(&agg.offset, &secp)
			};
			let offset = match offset {
				Ok(o) => o,
				Err(e) => return Err(viol("offset-add-failed", format!("{:?}", e))),
			};
			if let Err(e) = (sums, &agg as &dyn Committed).verify_kernel_sums(agg.overage(), offset) {
				return Err(viol("pool-sums-do-not-balance", format!("step {} ({}): {} does not balance on top of the head: {:?}", step, ctx, name, e)));
			}
		}
		// the mineable set is a subset that validates (assembling it into a real block is done by MinePool)
		let mineable = self.pool.read().prepare_mineable_transactions();
		match mineable {
			Ok(m) => {
				// the txpool as a whole applies on the head (checked above), so something of it is mineable
				if m.is_empty() && !txs.is_empty() {
					return Err(viol("mineable-set-empty", format!("step {} ({}): the txpool holds {} transaction(s) that apply on the head, yet nothing is offered for mining", step, ctx, txs.len())));
				}
				if !m.is_empty() {
					match transaction::aggregate(&m) {
						Ok(a) => {
							if a.weight() + 24 > global::max_block_weight() + 3 && a.validate(Weighting::AsLimitedTransaction(global::max_block_weight())).is_err() {
								return Err(viol("mineable-set-too-heavy", format!("step {} ({}): mineable set weighs {}", step, ctx, a.weight())));
							}
							if let Err(e) = self.chain.validate_tx(&a) {
								return Err(viol("mineable-set-not-applicable", format!("step {} ({}): {:?}", step, ctx, e)));
							}
						}
						Err(e) => return Err(viol("mineable-set-does-not-aggregate", format!("step {} ({}): {:?}", step, ctx, e))),
					}
				}
			}
			Err(e) => return Err(viol("prepare-mineable-failed", format!("step {} ({}): {:?}", step, ctx, e))),
		}
		self.log.push(format!("{} {} | pool {} stem {} head h{}", step, ctx, txs.len(), stem.len(), header.height));
		Ok(())
	}
}

pub fn gen_ops(rng: &mut SimRng, thorough: bool) -> Vec<Op> {
	let n = if thorough { rng.range(20, 45) } else { rng.range(14, 28) };
	let mut ops = vec![];
	for _ in 0..n {
		let k = rng.below(100);
		let op = if k < 55 {
			let kind = match rng.below(32) {
				0..=6 => Submit::Valid,
				7 | 8 => Submit::Dependent,
				9 | 10 => Submit::Conflict,
				11 => Submit::Duplicate,
				12 | 13 => Submit::Aggregated,
				14 => Submit::UnderFee,
				15 => Submit::ImmatureCoinbase,
				16 => Submit::JustMatureCoinbase,
				17 => Submit::LockFuture,
				18 => Submit::LockNext,
				19 => Submit::NoSuchInput,
				20 => Submit::BadSignature,
				21 => Submit::Outputless,
				22 => Submit::OutputlessBadSignature,
				23 => Submit::ShiftedFee,
				24 => Submit::ShiftedUnderpay,
				25 => Submit::AggregatedUnderFee,
				26 => Submit::MixedMaturityCoinbases,
				27 => Submit::DependentTwoParents,
				28 => Submit::FluffStemmed,
				29 => Submit::NrdFresh,
				30 => Submit::NrdRecentDuplicate,
				_ => Submit::NrdJustOldEnough,
			};
			Op::Submit { kind, stem: rng.chance(1, 4), r: rng.next_u64() }
		} else if k < 70 {
			Op::MinePool { r: rng.next_u64() }
		} else if k < 82 {
			Op::MineSubset { conflict: rng.chance(1, 2), r: rng.next_u64() }
		} else if k < 86 {
			Op::MineEmpty { r: rng.next_u64() }
		} else if k < 89 {
			Op::HeaderAhead { r: rng.next_u64() }
		} else if k < 95 {
			Op::Reorg { depth: rng.range(1, 3), r: rng.next_u64() }
		} else {
			Op::ShrinkCapacity { to: rng.range(0, 4) as usize }
		};
		ops.push(op);
	}
	// a full pool must not relax admission: somewhere in the second half the capacity drops below
	// the current size and an under-fee fluff transaction (and a valid one, which evicts) follow
	let at = (ops.len() / 2 + rng.usize_below(ops.len() / 2 + 1)).min(ops.len());
	let mut tail = vec![];
	// r with a chosen remainder: r % 5 is a transaction's fee bonus, r % 3 a LockFuture's distance
	let r_mod = |rng: &mut SimRng, m: u64, v: u64| -> u64 {
		let r = rng.next_u64() >> 1;
		r - (r % m) + v
	};
	let family = rng.chance(1, 2);
	if family {
		// two parents at the bare minimum fee (the youngest of the cheapest is what eviction takes), a
		// fluff child of both, and a grandchild: eviction must not leave descendants behind
		tail.push(Op::Submit { kind: Submit::Valid, stem: false, r: r_mod(rng, 5, 0) });
		tail.push(Op::Submit { kind: Submit::Valid, stem: false, r: r_mod(rng, 5, 0) });
		tail.push(Op::Submit { kind: Submit::DependentTwoParents, stem: false, r: r_mod(rng, 5, 3) });
		tail.push(Op::Submit { kind: Submit::DependentOnNewest, stem: false, r: r_mod(rng, 5, 4) });
		tail.push(Op::ShrinkCapacity { to: rng.range(0, 2) as usize });
		tail.push(Op::Submit { kind: Submit::Valid, stem: false, r: r_mod(rng, 5, 4) });
	}
	// headers of one fork ahead of the blocks of another: the pool judges maturity and lock heights
	// against the blocks (a lock height of exactly the height the header chain has reached is in the future)
	tail.push(Op::HeaderAhead { r: rng.next_u64() });
	tail.push(Op::Submit { kind: Submit::LockFuture, stem: false, r: r_mod(rng, 3, 0) });
	tail.push(Op::Submit { kind: Submit::LockNext, stem: false, r: rng.next_u64() });
	tail.push(Op::Submit { kind: Submit::AggregatedMixedLocks, stem: false, r: rng.next_u64() });
	tail.push(Op::Submit { kind: Submit::AggregatedMixedLocks, stem: false, r: rng.next_u64() });
	tail.push(Op::Reorg { depth: rng.range(2, 3), r: rng.next_u64() });
	tail.push(Op::Submit { kind: Submit::JustMatureCoinbase, stem: false, r: rng.next_u64() });
	tail.push(Op::Submit { kind: Submit::ImmatureCoinbase, stem: false, r: rng.next_u64() });
	// a stem transaction at the bare minimum fee, then another body around its kernel, as stem again
	tail.push(Op::Submit { kind: Submit::Valid, stem: true, r: r_mod(rng, 5, 0) });
	tail.push(Op::Submit { kind: Submit::StemSameKernelHeavier, stem: true, r: rng.next_u64() });
	tail.extend(vec![
		// a stem transaction that depends on a pooled one, so that the eviction below may take its parent
		Op::Submit { kind: Submit::Valid, stem: false, r: rng.next_u64() },
		Op::Submit { kind: Submit::Dependent, stem: true, r: rng.next_u64() },
		Op::ShrinkCapacity { to: rng.range(0, 1) as usize },
		Op::Submit { kind: Submit::UnderFee, stem: false, r: rng.next_u64() },
		Op::Submit { kind: Submit::Valid, stem: false, r: rng.next_u64() },
		Op::Submit { kind: Submit::Valid, stem: false, r: rng.next_u64() },
	]);
	for (i, op) in tail.into_iter().enumerate() {
		ops.insert(at + i, op);
	}
	ops.extend(nrd_sequence(rng));
	ops
}

/// Workload for the pool clause of C13: submissions sitting exactly on the maturity / lock-height
/// thresholds, blocks that move the thresholds, and reorgs that change which fork they refer to.
pub fn gen_ops_c13(rng: &mut SimRng, thorough: bool) -> Vec<Op> {
	let n = if thorough { rng.range(24, 48) } else { rng.range(16, 30) };
	let mut ops = vec![];
	for _ in 0..n {
		let k = rng.below(100);
		let op = if k < 60 {
			let kind = match rng.below(12) {
				0 | 1 => Submit::ImmatureCoinbase,
				2 | 3 | 4 => Submit::JustMatureCoinbase,
				5 | 6 => Submit::LockFuture,
				7 | 8 => Submit::LockNext,
				9 | 10 => Submit::MixedMaturityCoinbases,
				_ => Submit::Valid,
			};
			Op::Submit { kind, stem: rng.chance(1, 4), r: rng.next_u64() }
		} else if k < 72 {
			Op::MinePool { r: rng.next_u64() }
		} else if k < 80 {
			Op::MineEmpty { r: rng.next_u64() }
		} else if k < 88 {
			Op::HeaderAhead { r: rng.next_u64() }
		} else {
			Op::Reorg { depth: rng.range(1, 3), r: rng.next_u64() }
		};
		ops.push(op);
	}
	// headers of one fork ahead of the blocks of another, then threshold spends
	let at = rng.usize_below(ops.len() + 1);
	let r3 = {
		let r = rng.next_u64() >> 1;
		r - (r % 3)
	};
	let seq = vec![
		Op::HeaderAhead { r: rng.next_u64() },
		// the header chain is one ahead: a lock height of exactly the height it has reached is still in
		// the future for the next block (r % 3 == 0: the lock is next height + 1)
		Op::Submit { kind: Submit::LockFuture, stem: false, r: r3 },
		Op::Submit { kind: Submit::LockNext, stem: false, r: rng.next_u64() },
		Op::Reorg { depth: rng.range(2, 3), r: rng.next_u64() },
		Op::Submit { kind: Submit::JustMatureCoinbase, stem: false, r: rng.next_u64() },
		Op::Submit { kind: Submit::ImmatureCoinbase, stem: false, r: rng.next_u64() },
		Op::Submit { kind: Submit::MixedMaturityCoinbases, stem: false, r: rng.next_u64() },
		// an aggregate is locked until the latest of its kernels' lock heights, wherever that kernel sorts
		Op::Submit { kind: Submit::AggregatedMixedLocks, stem: false, r: rng.next_u64() },
		Op::Submit { kind: Submit::AggregatedMixedLocks, stem: false, r: rng.next_u64() },
	];
	for (i, op) in seq.into_iter().enumerate() {
		ops.insert(at + i, op);
	}
	ops.extend(nrd_sequence(rng));
	ops
}

/// (worlds with NRD kernels enabled; skipped elsewhere) an NRD kernel gets mined, then - with an
/// ordinary transaction waiting in the pool - the same excess comes back one block too early and,
/// later, exactly on time.
fn nrd_sequence(rng: &mut SimRng) -> Vec<Op> {
	vec![
		Op::Submit { kind: Submit::NrdFresh, stem: false, r: rng.next_u64() },
		Op::MinePool { r: rng.next_u64() },
		Op::Submit { kind: Submit::Valid, stem: false, r: rng.next_u64() },
		Op::Submit { kind: Submit::NrdRecentDuplicate, stem: false, r: rng.next_u64() },
		Op::MineEmpty { r: rng.next_u64() },
		Op::Submit { kind: Submit::NrdRecentDuplicate, stem: false, r: rng.next_u64() },
		Op::Submit { kind: Submit::NrdJustOldEnough, stem: false, r: rng.next_u64() },
	]
}

pub fn build_world(seed: u64) -> Result<(World, usize), String> {
	let mut r = SimRng::new(seed).fork("cfg");
	let mut cfg = WorldCfg::draw(&mut r, true);
	cfg.free_difficulty = false;
	cfg.nrd = seed % 2 == 0;
	cfg.branches = 0;
	cfg.trunk = if cfg.nrd { r.range(10, 13) } else { r.range(8, 12) };
	cfg.tx_pct = 50;
	cfg.max_txs = 2;
	if cfg.nrd {
		// threads other than the simulation's own (API handler threads, the node's peer threads) read
		// the process-wide flag
		global::set_global_nrd_enabled(true);
	}
	let mut w = World::new(seed, cfg, "pool-w");
	let mut tip = 0;
	for _ in 0..w.cfg.trunk {
		tip = w.extend(tip, 0)?;
	}
	Ok((w, tip))
}

/// How the node of a run is assembled and reached.
#[derive(Clone, Copy, Debug, PartialEq)]
pub enum Mode {
	/// pool driven directly, blocks through the NetToChainAdapter's methods, simulated relay
	Direct,
	/// everything arrives as peer messages through the node's real p2p stack (E11 netsim)
	Net { with_relay: bool },
}

impl Mode {
	pub fn name(&self) -> &'static str {
		match self {
			Mode::Direct => "direct",
			Mode::Net { with_relay: true } => "net+relay",
			Mode::Net { with_relay: false } => "net",
		}
	}
	pub fn from_name(s: &str) -> Mode {
		match s {
			"net+relay" => Mode::Net { with_relay: true },
			"net" => Mode::Net { with_relay: false },
			_ => Mode::Direct,
		}
	}
}

pub fn run_ops(world: &mut World, start: usize, ops: &[Op], tag: &str, acc: Option<&mut CaseResult>) -> (Option<Violation>, u64, Vec<String>, u64) {
	run_ops_mode(world, start, ops, tag, acc, Mode::Direct)
}

pub fn run_ops_mode(world: &mut World, start: usize, ops: &[Op], tag: &str, acc: Option<&mut CaseResult>, mode: Mode) -> (Option<Violation>, u64, Vec<String>, u64) {
	match mode {
		Mode::Direct => match PoolSim::new(world, start, tag) {
			Ok(s) => run_sim(s, ops, acc),
			Err(e) => (Some(viol("setup-failed", e)), 0, vec![], 0),
		},
		Mode::Net { with_relay } => match PoolSim::new_net(world, start, tag, with_relay) {
			Ok(s) => run_sim(s, ops, acc),
			Err(e) => (Some(viol("setup-failed", e)), 0, vec![], 0),
		},
	}
}

fn run_sim<P: PoolAdapter + 'static>(mut sim: PoolSim<P>, ops: &[Op], acc: Option<&mut CaseResult>) -> (Option<Violation>, u64, Vec<String>, u64) {
	let mut v = None;
	for op in ops {
		if let Err(e) = sim.exec(op) {
			v = Some(e);
			break;
		}
	}
	let digest = fnv64(sim.log.join("\n").as_bytes());
	if let Some(acc) = acc {
		for (k, n) in &sim.probes {
			acc.probe_n(k, *n);
		}
	}
	let (steps, log) = (sim.step, sim.log.clone());
	sim.destroy();
	(v, digest, log, steps)
}

/// Pool clause of C13: only the accept / refuse answers for the threshold submissions are judged
/// here (the pool's own invariants are C14's business and are merely counted).
pub fn case_c13(tier: &str, seed: u64, case: u64) -> CaseResult {
	let t0 = Instant::now();
	let thorough = tier == "thorough";
	let mut res = CaseResult::new(case, seed);
	let (mut world, start) = match build_world(seed) {
		Ok(w) => w,
		Err(e) => {
			res.harness_error = Some(format!("pool world: {}", e));
			return res;
		}
	};
	let runs = if thorough { 12 } else { 4 };
	let rng = SimRng::new(seed);
	for run in 0..runs {
		let mut rr = rng.fork(&format!("pool13-{}", run));
		let ops = gen_ops_c13(&mut rr, thorough);
		// every other run over the node's real p2p stack (the adapter chooses the header the pool judges against)
		let mode = if run % 2 == 1 { Mode::Net { with_relay: run % 4 == 1 } } else { Mode::Direct };
		if mode != Mode::Direct {
			res.probe("netsim_runs");
		}
		let (v, digest, log, steps) = run_ops_mode(&mut world, start, &ops, &format!("pool13-c{}r{}", case, run), Some(&mut res), mode);
		res.runs += 1;
		res.steps += steps;
		res.run_digests.push((digest, true));
		for o in &ops {
			if let Op::Submit { kind, .. } = o {
				res.fault(&format!("pool-submit:{:?}", kind));
			}
		}
		res.extra.insert("poolsim_runs".into(), json!(res.runs));
		if let Some(v) = v {
			let relevant = ["ImmatureCoinbase", "JustMatureCoinbase", "LockFuture", "LockNext", "MixedMaturityCoinbases", "NrdRecentDuplicate", "NrdJustOldEnough", "NrdFresh", "AggregatedMixedLocks"].iter().any(|k| v.key == format!("C14:submit-result:{}", k));
			if relevant {
				res.violations.push(Violation {
					key: v.key.replace("C14:submit-result:", "C13:pool-answer:"),
					what: format!("pool clause: {}", v.what),
					replay: json!({"engine": "poolsim", "property": "C13", "case_seed": seed, "mode": mode.name(), "ops": serde_json::to_value(&ops).unwrap(), "log": log.iter().rev().take(6).cloned().collect::<Vec<_>>()}),
				});
				break;
			} else {
				res.probe("pool_invariant_violation_left_to_C14");
			}
		}
	}
	world.cleanup();
	res.wall_s = t0.elapsed().as_secs_f64();
	res
}

/// Pool clauses of C06: a submission, accepted or refused, never changes chain state, and a block
/// accepted onto a fork that does not become the head leaves the pool as it was. Other pool
/// invariants are C14's business and merely counted here.
pub fn case_c06(tier: &str, seed: u64, case: u64) -> CaseResult {
	let t0 = Instant::now();
	let thorough = tier == "thorough";
	let mut res = CaseResult::new(case, seed);
	let (mut world, start) = match build_world(seed) {
		Ok(w) => w,
		Err(e) => {
			res.harness_error = Some(format!("pool world: {}", e));
			return res;
		}
	};
	let runs = if thorough { 12 } else { 4 };
	let rng = SimRng::new(seed);
	for run in 0..runs {
		let mut rr = rng.fork(&format!("pool06-{}", run));
		let mut ops = gen_ops(&mut rr, thorough);
		// more forks arriving while the pool is not empty: deep enough that the first fork blocks lose
		// a two-input transaction in the pool, double spends of single inputs of it refused, then a reorg
		// whose blocks spend what the pool spends
		for _ in 0..2 {
			let at = rr.usize_below(ops.len() + 1);
			ops.insert(at, Op::Reorg { depth: rr.range(1, 2), r: (rr.next_u64() >> 1) << 1 });
			ops.insert(at, Op::Submit { kind: Submit::Conflict, stem: false, r: rr.next_u64() });
			ops.insert(at, Op::Submit { kind: Submit::Conflict, stem: false, r: rr.next_u64() });
			ops.insert(at, Op::Submit { kind: Submit::Valid, stem: false, r: rr.next_u64() });
			ops.insert(at, Op::Submit { kind: Submit::Valid, stem: false, r: rr.next_u64() });
		}
		for _ in 0..3 {
			let at = rr.usize_below(ops.len() + 1);
			ops.insert(at, Op::Reorg { depth: rr.range(2, 3), r: rr.next_u64() });
			ops.insert(at, Op::Submit { kind: Submit::Valid, stem: false, r: rr.next_u64() });
			ops.insert(at, Op::Submit { kind: Submit::Valid, stem: true, r: rr.next_u64() });
		}
		let mode = if run % 2 == 1 { Mode::Net { with_relay: true } } else { Mode::Direct };
		let (v, digest, log, steps) = run_ops_mode(&mut world, start, &ops, &format!("pool06-c{}r{}", case, run), Some(&mut res), mode);
		res.runs += 1;
		res.steps += steps;
		res.run_digests.push((digest, true));
		res.extra.insert("poolsim_runs".into(), json!(res.runs));
		if let Some(v) = v {
			let relevant = v.key == "C14:losing-fork-block-changed-pool" || v.key == "C14:submission-changed-chain-state" || v.key == "C14:refused-transaction-in-pool" || v.key == "C14:chain-invalid-after-pool-traffic";
			if relevant {
				res.violations.push(Violation {
					key: v.key.replace("C14:", "C06:pool-"),
					what: format!("pool clause: {}", v.what),
					replay: json!({"engine": "poolsim", "property": "C06", "case_seed": seed, "mode": mode.name(), "ops": serde_json::to_value(&ops).unwrap(), "log": log.iter().rev().take(6).cloned().collect::<Vec<_>>()}),
				});
				break;
			} else {
				res.probe("pool_invariant_violation_left_to_C14");
			}
		}
	}
	world.cleanup();
	res.wall_s = t0.elapsed().as_secs_f64();
	res
}

pub fn case(tier: &str, seed: u64, case: u64) -> CaseResult {
	let t0 = Instant::now();
	let thorough = tier == "thorough";
	let mut res = CaseResult::new(case, seed);
	let (mut world, start) = match build_world(seed) {
		Ok(w) => w,
		Err(e) => {
			res.harness_error = Some(format!("pool world: {}", e));
			return res;
		}
	};
	let runs = if thorough { 12 } else { 4 };
	let rng = SimRng::new(seed);
	for run in 0..runs {
		let mut rr = rng.fork(&format!("pool{}", run));
		let ops = gen_ops(&mut rr, thorough);
		// every other run is a network run (three in four of those with a Dandelion relay peer)
		let mode = if run % 2 == 1 { Mode::Net { with_relay: (run / 2 + case) % 4 != 3 } } else { Mode::Direct };
		if mode != Mode::Direct {
			res.probe("netsim_runs");
		}
		let (v, digest, log, steps) = run_ops_mode(&mut world, start, &ops, &format!("pool-c{}r{}", case, run), Some(&mut res), mode);
		res.runs += 1;
		res.steps += steps;
		res.run_digests.push((digest, true));
		for o in &ops {
			match o {
				Op::Submit { kind, .. } => res.fault(&format!("submit:{:?}", kind)),
				Op::Reorg { .. } => res.fault("reorg"),
				Op::MineSubset { conflict: true, .. } => res.fault("block_with_conflict"),
				Op::ShrinkCapacity { .. } => res.fault("capacity_shrunk"),
				_ => {}
			}
		}
		if res.samples.is_empty() {
			res.samples.push(json!({"ops": ops.iter().take(14).map(|o| format!("{:?}", o)).collect::<Vec<_>>(), "log_tail": log.iter().rev().take(4).cloned().collect::<Vec<_>>()}));
		}
		if let Some(v) = v {
			if v.key == "C14:losing-fork-block-changed-pool" {
				// a statement of C06 (checked by its pool cases), not of C14: an emptied pool is still a valid one
				res.probe("violation_left_to_C06");
				continue;
			}
			let key = v.key.clone();
			let mut n = 0;
			let min_ops = crate::sim::ddmin(
				&ops,
				|cand| {
					n += 1;
					let (v2, _, _, _) = run_ops_mode(&mut world, start, cand, &format!("pool-min{}", n), None, mode);
					v2.map(|x| x.key == key).unwrap_or(false)
				},
				if mode == Mode::Direct { 40 } else { 16 },
			);
			let (v3, _, log3, _) = run_ops_mode(&mut world, start, &min_ops, "pool-minfinal", None, mode);
			let what = v3.map(|x| x.what).unwrap_or(v.what.clone());
			res.violations.push(Violation {
				key: v.key,
				what: format!("{} [minimised from {} to {} ops]", what, ops.len(), min_ops.len()),
				replay: json!({"engine": "poolsim", "property": "C14", "case_seed": seed, "mode": mode.name(), "ops": serde_json::to_value(&min_ops).unwrap(), "log": log3}),
			});
			break;
		}
	}
	world.cleanup();
	res.wall_s = t0.elapsed().as_secs_f64();
	res
}

pub fn replay(rp: &Value) -> Result<Option<Violation>, String> {
	let seed = rp["case_seed"].as_u64().ok_or("no case_seed")?;
	let ops: Vec<Op> = serde_json::from_value(rp["ops"].clone()).map_err(|e| format!("{}", e))?;
	let (mut world, start) = build_world(seed)?;
	let mode = Mode::from_name(rp["mode"].as_str().unwrap_or("direct"));
	let (v, _, log, _) = run_ops_mode(&mut world, start, &ops, "pool-replay", None, mode);
	for l in log {
		println!("  {}", l);
	}
	world.cleanup();
	Ok(v)
}

#[allow(dead_code)]
fn _unused(_: Block) {}
