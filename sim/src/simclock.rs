// Simulated wall clock and sleep gate, by symbol interposition - no change to /repo needed.
//
// The harness binary defines `clock_gettime`, `nanosleep` and `clock_nanosleep` itself; everything
// linked into the executable (Rust std, chrono, the grin crates, LMDB) resolves those names here
// instead of in libc.
//
// * CLOCK_REALTIME (what `Utc::now()` / `SystemTime::now()` read) is the real clock plus an offset
//   the simulator owns; in *frozen* mode it is a fixed base plus that offset, so every deadline
//   the node computes from `Utc::now()` is a function of the simulator's `advance` calls alone.
//   CLOCK_MONOTONIC (`Instant`) stays real: the harness's own watchdog budgets use it.
// * A thread registered as *gated* (by thread name) does not sleep: every `thread::sleep(d)` parks it
//   until the simulator grants the next step, and reports `d` - the simulator advances the simulated
//   clock by it. The thread's loop thereby becomes a step function: one grant = one iteration.
//
// With offset 0, not frozen and no gated name (the default) behaviour is exactly libc's.

use std::cell::Cell;
use std::sync::atomic::{AtomicBool, AtomicI64, AtomicUsize, Ordering};
use std::sync::{Condvar, Mutex};
use std::time::{Duration, Instant};

static OFFSET_NS: AtomicI64 = AtomicI64::new(0);
static FROZEN: AtomicBool = AtomicBool::new(false);
static FROZEN_BASE_NS: AtomicI64 = AtomicI64::new(0);
static REAL_GETTIME: AtomicUsize = AtomicUsize::new(0);

type GetTime = unsafe extern "C" fn(libc::clockid_t, *mut libc::timespec) -> libc::c_int;

unsafe fn real_gettime(clk: libc::clockid_t, ts: *mut libc::timespec) -> libc::c_int {
	let mut p = REAL_GETTIME.load(Ordering::Relaxed);
	if p == 0 {
		let sym = libc::dlsym(libc::RTLD_NEXT, b"clock_gettime\0".as_ptr() as *const libc::c_char);
		p = if sym.is_null() { 1 } else { sym as usize };
		REAL_GETTIME.store(p, Ordering::Relaxed);
	}
	if p == 1 {
		return libc::syscall(libc::SYS_clock_gettime, clk as libc::c_long, ts) as libc::c_int;
	}
	let f: GetTime = std::mem::transmute(p);
	f(clk, ts)
}

#[no_mangle]
pub unsafe extern "C" fn clock_gettime(clk: libc::clockid_t, ts: *mut libc::timespec) -> libc::c_int {
	let r = real_gettime(clk, ts);
	if r == 0 && clk == libc::CLOCK_REALTIME && !ts.is_null() {
		let off = OFFSET_NS.load(Ordering::Relaxed);
		let frozen = FROZEN.load(Ordering::Relaxed);
		if frozen || off != 0 {
			let real = (*ts).tv_sec as i64 * 1_000_000_000 + (*ts).tv_nsec as i64;
			let t = if frozen { FROZEN_BASE_NS.load(Ordering::Relaxed) + off } else { real + off };
			(*ts).tv_sec = (t / 1_000_000_000) as libc::time_t;
			(*ts).tv_nsec = (t % 1_000_000_000) as libc::c_long;
		}
	}
	r
}

/// Freeze the simulated wall clock at the current real time: from now on it moves only by `advance`.
pub fn freeze() {
	let mut ts = libc::timespec { tv_sec: 0, tv_nsec: 0 };
	unsafe { real_gettime(libc::CLOCK_REALTIME, &mut ts) };
	FROZEN_BASE_NS.store(ts.tv_sec as i64 * 1_000_000_000 + ts.tv_nsec as i64, Ordering::Relaxed);
	OFFSET_NS.store(0, Ordering::Relaxed);
	FROZEN.store(true, Ordering::Relaxed);
}

pub fn unfreeze() {
	FROZEN.store(false, Ordering::Relaxed);
	OFFSET_NS.store(0, Ordering::Relaxed);
}

pub fn advance(d: Duration) {
	OFFSET_NS.fetch_add(d.as_nanos() as i64, Ordering::Relaxed);
}

/// Simulated time elapsed since `freeze`.
pub fn elapsed() -> Duration {
	Duration::from_nanos(OFFSET_NS.load(Ordering::Relaxed).max(0) as u64)
}

// ------------------------------------------------------------------------------------------
// sleep gate

struct Gate {
	/// name of the thread whose sleeps are gates (empty: nobody)
	name: String,
	permits: u64,
	parked: bool,
	/// the sleep the parked thread asked for
	pending_ns: u64,
	sleeps: u64,
}

static GATE_ON: AtomicBool = AtomicBool::new(false);
static GATE: Mutex<Gate> = Mutex::new(Gate {
	name: String::new(),
	permits: 0,
	parked: false,
	pending_ns: 0,
	sleeps: 0,
});
static GATE_CV: Condvar = Condvar::new();

thread_local! {
	// 0 unknown, 1 gated, 2 not gated; re-evaluated when the gate generation changes
	static GATED: Cell<(usize, u8)> = const { Cell::new((0, 0)) };
}
static GATE_GEN: AtomicUsize = AtomicUsize::new(1);

fn is_gated_thread() -> bool {
	if !GATE_ON.load(Ordering::Acquire) {
		return false;
	}
	let gen = GATE_GEN.load(Ordering::Acquire);
	GATED
		.try_with(|c| {
			let (g, v) = c.get();
			if g == gen && v != 0 {
				return v == 1;
			}
			let name = std::thread::current().name().map(|s| s.to_string()).unwrap_or_default();
			let gated = {
				let gate = GATE.lock().unwrap();
				!gate.name.is_empty() && gate.name == name
			};
			c.set((gen, if gated { 1 } else { 2 }));
			gated
		})
		.unwrap_or(false)
}

fn gate_sleep(ns: u64) {
	let mut g = GATE.lock().unwrap();
	g.parked = true;
	g.pending_ns = ns;
	g.sleeps += 1;
	GATE_CV.notify_all();
	while g.permits == 0 && GATE_ON.load(Ordering::Acquire) {
		g = GATE_CV.wait(g).unwrap();
	}
	if g.permits > 0 {
		g.permits -= 1;
	}
	g.parked = false;
	GATE_CV.notify_all();
}

fn ts_ns(req: *const libc::timespec) -> u64 {
	if req.is_null() {
		return 0;
	}
	unsafe { ((*req).tv_sec.max(0) as u64) * 1_000_000_000 + (*req).tv_nsec.max(0) as u64 }
}

#[no_mangle]
pub unsafe extern "C" fn nanosleep(req: *const libc::timespec, rem: *mut libc::timespec) -> libc::c_int {
	if is_gated_thread() {
		gate_sleep(ts_ns(req));
		return 0;
	}
	libc::syscall(libc::SYS_nanosleep, req, rem) as libc::c_int
}

#[no_mangle]
pub unsafe extern "C" fn clock_nanosleep(clk: libc::clockid_t, flags: libc::c_int, req: *const libc::timespec, rem: *mut libc::timespec) -> libc::c_int {
	if flags == 0 && is_gated_thread() {
		gate_sleep(ts_ns(req));
		return 0;
	}
	// the raw system call returns -errno through errno; clock_nanosleep(3) returns the error number
	let r = libc::syscall(libc::SYS_clock_nanosleep, clk as libc::c_long, flags as libc::c_long, req, rem);
	if r == 0 {
		0
	} else {
		*libc::__errno_location()
	}
}

/// From now on the sleeps of the thread called `name` are gates.
pub fn gate_install(name: &str) {
	let mut g = GATE.lock().unwrap();
	g.name = name.to_string();
	g.permits = 0;
	g.parked = false;
	g.pending_ns = 0;
	g.sleeps = 0;
	GATE_GEN.fetch_add(1, Ordering::AcqRel);
	GATE_ON.store(true, Ordering::Release);
}

/// Sleeps are sleeps again; a parked thread is released.
pub fn gate_remove() {
	GATE_ON.store(false, Ordering::Release);
	let mut g = GATE.lock().unwrap();
	g.name.clear();
	g.permits = 0;
	GATE_GEN.fetch_add(1, Ordering::AcqRel);
	GATE_CV.notify_all();
}

/// Wait (real time, harness watchdog) until the gated thread is parked in a sleep. Returns the sleep
/// it asked for, or None when it did not get there within `budget`.
pub fn gate_wait_parked(budget: Duration) -> Option<Duration> {
	let t0 = Instant::now();
	let mut g = GATE.lock().unwrap();
	loop {
		if g.parked && g.permits == 0 {
			return Some(Duration::from_nanos(g.pending_ns));
		}
		let left = budget.checked_sub(t0.elapsed())?;
		let (ng, _) = GATE_CV.wait_timeout(g, left.min(Duration::from_millis(200))).unwrap();
		g = ng;
	}
}

/// Let the parked thread run up to its next sleep.
pub fn gate_grant() {
	let mut g = GATE.lock().unwrap();
	g.permits += 1;
	g.parked = false;
	GATE_CV.notify_all();
}

pub fn gate_sleeps() -> u64 {
	GATE.lock().unwrap().sleeps
}

/// Self-test used by `verif-sim selftest-clock`: the interposition is in effect.
pub fn selftest() -> Result<String, String> {
	let t0 = chrono::Utc::now();
	let i0 = Instant::now();
	freeze();
	advance(Duration::from_secs(700));
	let t1 = chrono::Utc::now();
	let i1 = Instant::now();
	let d = (t1 - t0).num_milliseconds();
	if !(699_000..=701_500).contains(&d) {
		unfreeze();
		return Err(format!("Utc::now() moved by {} ms after advance(700 s)", d));
	}
	if i1.duration_since(i0) > Duration::from_secs(5) {
		unfreeze();
		return Err("Instant moved with the simulated clock".into());
	}
	std::thread::sleep(Duration::from_millis(20));
	let t2 = chrono::Utc::now();
	if t2 != t1 {
		unfreeze();
		return Err("frozen clock moved during a real sleep".into());
	}
	// gated thread: three sleeps of 10 s must take no real time
	gate_install("gated-selftest");
	let h = std::thread::Builder::new()
		.name("gated-selftest".into())
		.spawn(|| {
			for _ in 0..3 {
				std::thread::sleep(Duration::from_secs(10));
			}
		})
		.map_err(|e| e.to_string())?;
	let r0 = Instant::now();
	let mut asked = vec![];
	for _ in 0..3 {
		match gate_wait_parked(Duration::from_secs(5)) {
			Some(d) => asked.push(d.as_secs()),
			None => {
				gate_remove();
				unfreeze();
				return Err("gated thread never parked: thread::sleep does not go through nanosleep / clock_nanosleep here".into());
			}
		}
		gate_grant();
	}
	let _ = h.join();
	gate_remove();
	unfreeze();
	if r0.elapsed() > Duration::from_secs(5) {
		return Err("gated sleeps took real time".into());
	}
	let t3 = chrono::Utc::now();
	if (t3 - t0).num_seconds().abs() > 5 {
		return Err("clock did not return to real time after unfreeze".into());
	}
	Ok(format!("clock +700 s observed as {} ms; gated sleeps asked {:?} s", d, asked))
}
