//! E10 apisim: the decoders behind the node's JSON-RPC API (C11, API clause).
//!
//! One real chain and one real transaction pool behind a real `grin_api::Foreign`, driven exactly
//! as `ForeignAPIHandlerV2::post` drives it (`handle_request` on the parsed body, then
//! `to_string_pretty` of the reply). The hostile party is an API client: every valid request of
//! every method is sent first (and must be answered with `Ok`), then structure-aware mutations of
//! its JSON tree and of its text. The replies of the valid requests are in turn mutated and fed to
//! the typed decoders API consumers use (`OutputPrintable` with its Merkle proof from hex,
//! `BlockPrintable`, ...).
//!
//! Oracle (C11): no panic, an answer within 20 s, no single allocation beyond a small multiple of
//! the request length.

use crate::node::{fresh_dir, RecAdapter};
use crate::poolsim::{RealPool, SimRelay};
use crate::rng::{fnv64, SimRng};
use crate::sim::{CaseResult, Violation};
use crate::world::{OutInfo, World};
use easy_jsonrpc_mw::{Handler, MaybeReply};
use grin_api::{Foreign, ForeignRpc, Owner, OwnerRpc};
use grin_p2p::store::PeerStore;
use grin_p2p::{Capabilities, PeerAddr, PeerData, Peers, ReasonForBan, State};
use grin_chain::{Chain, SyncState};
use grin_core::core::hash::Hashed;
use grin_core::core::{FeeFields, KernelFeatures, Transaction};
use grin_core::global;
use grin_core::libtx;
use grin_core::pow;
use grin_pool::types::PoolConfig;
use grin_pool::TransactionPool;
use grin_util::RwLock;
use grin_util::ToHex;
use serde_json::{json, Value};
use std::sync::mpsc::{channel, Receiver, Sender};
use std::sync::Arc;
use std::time::{Duration, Instant};

type Pool = RealPool;

pub struct ApiNode {
	pub chain: Arc<Chain>,
	pub pool: Arc<RwLock<Pool>>,
	pub sync: Arc<SyncState>,
	pub peers: Arc<Peers>,
	dir: std::path::PathBuf,
	tx: Option<Sender<Job>>,
	rx: Receiver<Outcome>,
}

enum Job {
	Request(Value),
	OwnerRequest(Value),
	Decode(String, Value),
}

#[derive(Debug, Clone)]
pub struct Outcome {
	pub panic: Option<String>,
	pub reply: Option<Value>,
	pub reply_len: usize,
	pub max_req: usize,
	pub decoded_ok: bool,
}

fn panic_text(p: Box<dyn std::any::Any + Send>) -> String {
	if let Some(s) = p.downcast_ref::<String>() {
		s.clone()
	} else if let Some(s) = p.downcast_ref::<&str>() {
		s.to_string()
	} else {
		"panic".to_string()
	}
}

/// The typed decoders of API consumers, by the method whose reply they read.
fn decode_reply(method: &str, v: Value) -> bool {
	use grin_api::*;
	match method {
		"get_header" => serde_json::from_value::<BlockHeaderPrintable>(v).is_ok(),
		"get_block" => serde_json::from_value::<BlockPrintable>(v).is_ok(),
		"get_blocks" => serde_json::from_value::<BlockListing>(v).is_ok(),
		"get_version" => serde_json::from_value::<Version>(v).is_ok(),
		"get_tip" => serde_json::from_value::<Tip>(v).is_ok(),
		"get_kernel" => serde_json::from_value::<LocatedTxKernel>(v).is_ok(),
		"get_outputs" => serde_json::from_value::<Vec<OutputPrintable>>(v).is_ok(),
		"get_unspent_outputs" | "get_pmmr_indices" => serde_json::from_value::<OutputListing>(v).is_ok(),
		"get_unconfirmed_transactions" => serde_json::from_value::<Vec<grin_pool::types::PoolEntry>>(v).is_ok(),
		"push_transaction" => serde_json::from_value::<Transaction>(v).is_ok(),
		"get_status" => serde_json::from_value::<Status>(v).is_ok(),
		"get_peers" => serde_json::from_value::<Vec<PeerData>>(v).is_ok(),
		"get_connected_peers" => serde_json::from_value::<Vec<grin_p2p::types::PeerInfoDisplay>>(v).is_ok(),
		_ => true,
	}
}

impl ApiNode {
	pub fn new(world: &World, start: usize, tag: &str) -> Result<ApiNode, String> {
		let dir = fresh_dir(tag);
		let relay = Arc::new(SimRelay {
			fail_next_stem: std::sync::atomic::AtomicBool::new(false),
			stem_relay_failed: std::sync::atomic::AtomicU64::new(0),
		});
		let (chain, pool, peers, _events) = crate::poolsim::assemble_node(
			&dir,
			world.genesis.clone(),
			relay,
			PoolConfig {
				accept_fee_base: global::get_accept_fee_base(),
				reorg_cache_period: 30,
				max_pool_size: 50,
				max_stempool_size: 50,
				mineable_max_weight: global::max_block_weight(),
			},
		)?;
		for id in world.path_to(start) {
			chain
				.process_block(world.blocks[id].block.clone(), world.opts)
				.map_err(|e| format!("base block #{}: {:?}", id, e))?;
		}
		let sync = Arc::new(SyncState::new());
		for (i, st) in [State::Healthy, State::Banned, State::Defunct].iter().enumerate() {
			peers.save_peer(&PeerData {
				addr: PeerAddr(format!("10.0.0.{}:13414", i + 1).parse().unwrap()),
				capabilities: Capabilities::default(),
				user_agent: "MW/Grin 5.x".into(),
				flags: *st,
				last_banned: if *st == State::Banned { 1_600_000_000 } else { 0 },
				ban_reason: if *st == State::Banned { ReasonForBan::BadBlock } else { ReasonForBan::None },
				last_connected: 1_600_000_100,
				last_attempt: 1_600_000_200,
			})
			.map_err(|e| format!("save peer: {:?}", e))?;
		}
		let (jtx, jrx) = channel::<Job>();
		let (otx, orx) = channel::<Outcome>();
		let (c2, p2, s2) = (Arc::downgrade(&chain), Arc::downgrade(&pool), Arc::downgrade(&sync));
		let peers2 = Arc::downgrade(&peers);
		std::thread::Builder::new()
			.name("api-handler".into())
			.stack_size(8 << 20)
			.spawn(move || {
				global::set_local_chain_type(global::ChainTypes::AutomatedTesting);
				while let Ok(job) = jrx.recv() {
					crate::alloc::reset();
					let out = match job {
						Job::Request(val) => {
							let r = std::panic::catch_unwind(std::panic::AssertUnwindSafe(|| {
								// as ForeignAPIHandlerV2::post
								let api = Foreign::new(c2.clone(), p2.clone(), s2.clone());
								let foreign_api = &api as &dyn ForeignRpc;
								let res = match foreign_api.handle_request(val) {
									MaybeReply::Reply(r) => r,
									MaybeReply::DontReply => json!([]),
								};
								let text = serde_json::to_string_pretty(&res).unwrap_or_default();
								(res, text.len())
							}));
							let (_peak, max_req) = crate::alloc::stats();
							match r {
								Ok((res, n)) => Outcome { panic: None, reply: Some(res), reply_len: n, max_req, decoded_ok: false },
								Err(p) => Outcome { panic: Some(panic_text(p)), reply: None, reply_len: 0, max_req, decoded_ok: false },
							}
						}
						Job::OwnerRequest(val) => {
							let r = std::panic::catch_unwind(std::panic::AssertUnwindSafe(|| {
								// as OwnerAPIHandlerV2::post
								let api = Owner::new(c2.clone(), peers2.clone(), s2.clone());
								let owner_api = &api as &dyn OwnerRpc;
								let res = match owner_api.handle_request(val) {
									MaybeReply::Reply(r) => r,
									MaybeReply::DontReply => json!([]),
								};
								let text = serde_json::to_string_pretty(&res).unwrap_or_default();
								(res, text.len())
							}));
							let (_peak, max_req) = crate::alloc::stats();
							match r {
								Ok((res, n)) => Outcome { panic: None, reply: Some(res), reply_len: n, max_req, decoded_ok: false },
								Err(p) => Outcome { panic: Some(panic_text(p)), reply: None, reply_len: 0, max_req, decoded_ok: false },
							}
						}
						Job::Decode(method, val) => {
							let r = std::panic::catch_unwind(std::panic::AssertUnwindSafe(|| decode_reply(&method, val)));
							let (_peak, max_req) = crate::alloc::stats();
							match r {
								Ok(ok) => Outcome { panic: None, reply: None, reply_len: 0, max_req, decoded_ok: ok },
								Err(p) => Outcome { panic: Some(panic_text(p)), reply: None, reply_len: 0, max_req, decoded_ok: false },
							}
						}
					};
					if otx.send(out).is_err() {
						break;
					}
				}
			})
			.map_err(|e| format!("spawn: {}", e))?;
		Ok(ApiNode { chain, pool, sync, peers, dir, tx: Some(jtx), rx: orx })
	}

	/// None = no answer within 20 s.
	fn run(&self, job: Job) -> Option<Outcome> {
		self.tx.as_ref().unwrap().send(job).ok()?;
		self.rx.recv_timeout(Duration::from_secs(20)).ok()
	}

	pub fn request(&self, v: &Value) -> Option<Outcome> {
		self.run(Job::Request(v.clone()))
	}

	pub fn owner_request(&self, v: &Value) -> Option<Outcome> {
		self.run(Job::OwnerRequest(v.clone()))
	}

	fn send(&self, owner: bool, v: &Value) -> Option<Outcome> {
		if owner {
			self.owner_request(v)
		} else {
			self.request(v)
		}
	}

	pub fn decode(&self, method: &str, v: &Value) -> Option<Outcome> {
		self.run(Job::Decode(method.to_string(), v.clone()))
	}

	pub fn destroy(mut self) {
		self.tx.take();
		let dir = self.dir.clone();
		drop(self);
		let _ = std::fs::remove_dir_all(dir);
	}
}

fn rpc(method: &str, params: Value) -> Value {
	json!({"jsonrpc": "2.0", "method": method, "params": params, "id": 1})
}

/// A valid transaction spending `n_in` spendable outputs of the head ledger not in `used`.
fn valid_tx(world: &mut World, head: usize, used: &mut Vec<OutInfo>, rng: &mut SimRng, features: Option<KernelFeatures>, n_out: usize) -> Option<Transaction> {
	let h = world.blocks[head].height + 1;
	let mut cands: Vec<OutInfo> = World::spendable(&world.blocks[head].ledger, h)
		.into_iter()
		.filter(|o| !used.iter().any(|u| u.commit == o.commit))
		.collect();
	if cands.is_empty() {
		return None;
	}
	rng.shuffle(&mut cands);
	let ins: Vec<OutInfo> = cands.into_iter().take(1).collect();
	let fee = libtx::tx_fee(ins.len(), n_out, 1);
	let total: u64 = ins.iter().map(|o| o.value).sum();
	if total <= fee + n_out as u64 {
		return None;
	}
	let mut rest = total - fee;
	let mut vals = vec![];
	for i in 0..n_out {
		if i + 1 == n_out {
			vals.push(rest);
		} else {
			let v = rng.range(1, rest - (n_out - i - 1) as u64);
			vals.push(v);
			rest -= v;
		}
	}
	let f = features.unwrap_or(KernelFeatures::Plain { fee: FeeFields::new(0, fee).ok()? });
	let f = match f {
		KernelFeatures::HeightLocked { lock_height, .. } => KernelFeatures::HeightLocked { fee: FeeFields::new(0, fee).ok()?, lock_height },
		other => other,
	};
	let (tx, _) = world.wallet.build_tx(&ins, &vals, None, f);
	used.extend(ins);
	Some(tx)
}

/// The valid requests of one case: (method, request, must the reply be `Ok`).
fn corpus(world: &mut World, head: usize, node: &ApiNode, rng: &mut SimRng) -> Vec<(String, Value, bool)> {
	let mut out: Vec<(String, Value, bool)> = vec![];
	let path = world.path_to(head);
	let hh = world.blocks[head].height;
	let some_block = |rng: &mut SimRng| path[rng.usize_below(path.len())];
	// an unspent commitment, a spent one, a kernel excess
	let ledger: Vec<OutInfo> = world.blocks[head].ledger.values().cloned().collect();
	let unspent = ledger[rng.usize_below(ledger.len())].clone();
	let b = some_block(rng);
	let bh = world.blocks[b].block.header.clone();
	out.push(("get_header".into(), rpc("get_header", json!([bh.height, null, null])), true));
	out.push(("get_header".into(), rpc("get_header", json!([null, bh.hash().to_hex(), null])), true));
	out.push(("get_header".into(), rpc("get_header", json!([null, null, unspent.commit.to_hex()])), true));
	out.push(("get_block".into(), rpc("get_block", json!([bh.height, null, null])), true));
	out.push(("get_block".into(), rpc("get_block", json!([null, bh.hash().to_hex(), null])), true));
	out.push(("get_block".into(), rpc("get_block", json!([null, null, unspent.commit.to_hex()])), true));
	out.push(("get_blocks".into(), rpc("get_blocks", json!([0, hh, 5, true])), true));
	out.push(("get_blocks".into(), rpc("get_blocks", json!([hh.saturating_sub(2), hh, 1000, false])), true));
	out.push(("get_version".into(), rpc("get_version", json!([])), true));
	out.push(("get_tip".into(), rpc("get_tip", json!([])), true));
	let kb = &world.blocks[some_block(rng)].block;
	let k = kb.kernels()[rng.usize_below(kb.kernels().len())];
	out.push(("get_kernel".into(), rpc("get_kernel", json!([k.excess.to_hex(), null, null])), true));
	out.push(("get_kernel".into(), rpc("get_kernel", json!([k.excess.to_hex(), 0, hh])), true));
	let mut commits: Vec<String> = ledger.iter().take(3).map(|o| o.commit.to_hex()).collect();
	// one that does not exist
	let nk = world.wallet.fresh_key();
	commits.push(world.wallet.commit(12345, &nk).to_hex());
	out.push(("get_outputs".into(), rpc("get_outputs", json!([commits, null, null, true, true])), true));
	out.push(("get_outputs".into(), rpc("get_outputs", json!([[unspent.commit.to_hex()], 0, hh, false, false])), true));
	out.push(("get_unspent_outputs".into(), rpc("get_unspent_outputs", json!([1, null, 10, true])), true));
	out.push(("get_unspent_outputs".into(), rpc("get_unspent_outputs", json!([1, 20, 1000, false])), true));
	out.push(("get_pmmr_indices".into(), rpc("get_pmmr_indices", json!([0, hh])), true));
	out.push(("get_pmmr_indices".into(), rpc("get_pmmr_indices", json!([hh.saturating_sub(1), null])), true));
	out.push(("get_pool_size".into(), rpc("get_pool_size", json!([])), true));
	out.push(("get_stempool_size".into(), rpc("get_stempool_size", json!([])), true));
	// transactions: plain, two outputs, height locked (already unlocked)
	let mut used = vec![];
	let t1 = valid_tx(world, head, &mut used, rng, None, 1);
	let t2 = valid_tx(world, head, &mut used, rng, None, 2);
	let t3 = valid_tx(world, head, &mut used, rng, Some(KernelFeatures::HeightLocked { fee: FeeFields::zero(), lock_height: hh }), 1);
	for (t, fluff) in [(t1, json!(true)), (t2, json!(null)), (t3, json!(false))] {
		if let Some(t) = t {
			let tj = serde_json::to_value(&t).unwrap();
			out.push(("push_transaction".into(), rpc("push_transaction", json!([tj, fluff])), true));
		}
	}
	out.push(("get_unconfirmed_transactions".into(), rpc("get_unconfirmed_transactions", json!([])), true));
	let _ = node;
	out
}

/// Owner API requests (sent after the foreign ones: some of them change state).
fn owner_corpus(world: &World, head: usize) -> Vec<(String, Value, bool)> {
	let mut out: Vec<(String, Value, bool)> = vec![];
	let hh = world.blocks[head].block.header.hash().to_hex();
	out.push(("get_status".into(), rpc("get_status", json!([])), true));
	out.push(("get_peers".into(), rpc("get_peers", json!([null])), true));
	out.push(("get_peers".into(), rpc("get_peers", json!(["10.0.0.2:13414"])), true));
	out.push(("get_connected_peers".into(), rpc("get_connected_peers", json!([])), true));
	out.push(("ban_peer".into(), rpc("ban_peer", json!(["10.0.0.1:13414"])), false));
	out.push(("unban_peer".into(), rpc("unban_peer", json!(["10.0.0.1:13414"])), true));
	out.push(("validate_chain".into(), rpc("validate_chain", json!([true])), true));
	out.push(("reset_chain_head".into(), rpc("reset_chain_head", json!([hh])), false));
	out.push(("invalidate_header".into(), rpc("invalidate_header", json!(["00".repeat(32)])), false));
	out.push(("compact_chain".into(), rpc("compact_chain", json!([])), true));
	out
}

fn is_hexish(s: &str) -> bool {
	s.len() >= 8 && s.len() % 2 == 0 && s.bytes().all(|b| b.is_ascii_hexdigit())
}

fn hex_of_len(rng: &mut SimRng, bytes: usize) -> String {
	let b = rng.bytes(bytes.min(64));
	let mut s = String::with_capacity(bytes * 2);
	let h = b.to_hex();
	while s.len() < bytes * 2 {
		s.push_str(&h);
	}
	s.truncate(bytes * 2);
	s
}

/// Replacement values for one node of a JSON tree, by what the node is.
fn replacements(v: &Value, rng: &mut SimRng) -> Vec<(String, Value)> {
	let mut r: Vec<(String, Value)> = vec![];
	let mut push = |n: &str, v: Value| r.push((n.to_string(), v));
	match v {
		Value::Number(_) => {
			push("0", json!(0));
			push("1", json!(1));
			push("-1", json!(-1));
			push("u64max", json!(u64::MAX));
			push("u64max-1", json!(u64::MAX - 1));
			push("2^63", json!(1u64 << 63));
			push("2^32", json!(1u64 << 32));
			push("65536", json!(65536));
			push("2^64f", json!(18446744073709551616.0f64));
			push("1.5", json!(1.5));
			push("numstr", json!("7"));
			push("null", Value::Null);
			push("true", json!(true));
			push("[]", json!([]));
			push("{}", json!({}));
		}
		Value::String(s) if is_hexish(s) => {
			let n = s.len() / 2;
			push("empty", json!(""));
			push("one-char", json!("0"));
			push("non-hex", json!(format!("zz{}", &s[2..])));
			push("non-ascii", json!(format!("\u{e9}{}", &s[2..])));
			push("odd", json!(&s[..s.len() - 1]));
			push("minus-byte", json!(&s[..s.len() - 2]));
			push("plus-byte", json!(format!("{}00", s)));
			push("plus-32", json!(format!("{}{}", s, hex_of_len(rng, 32))));
			push("two-bytes", json!(&s[..4]));
			push("doubled", json!(format!("{}{}", s, s)));
			push("upper", json!(s.to_uppercase()));
			push("0x", json!(format!("0x{}", s)));
			push("zeros", json!("00".repeat(n)));
			push("ff", json!("ff".repeat(n)));
			for l in [31usize, 32, 33, 34, 63, 64, 65, 66, 128, 674, 675, 676, 5133, 5134, 5135, 5200, 10_000, 100_000] {
				if l != n {
					push(&format!("hexlen{}", l), json!(hex_of_len(rng, l)));
				}
			}
			push("null", Value::Null);
			push("0", json!(0));
			push("[]", json!([]));
			push("bytes-array", json!(vec![7u8; n.min(64)]));
		}
		Value::String(s) => {
			push("empty", json!(""));
			push("lower", json!(s.to_lowercase()));
			push("unknown", json!("Foo"));
			for f in ["Plain", "Coinbase", "HeightLocked", "NoRecentDuplicate", "Transaction"] {
				if f != s {
					push(f, json!(f));
				}
			}
			push("long", json!("A".repeat(70_000)));
			push("null", Value::Null);
			push("0", json!(0));
			push("{}", json!({}));
		}
		Value::Bool(_) => {
			push("null", Value::Null);
			push("0", json!(0));
			push("str", json!("true"));
			push("[]", json!([]));
		}
		Value::Null => {
			push("0", json!(0));
			push("u64max", json!(u64::MAX));
			push("empty-str", json!(""));
			push("hex1", json!("00"));
			push("hex32", json!(hex_of_len(rng, 32)));
			push("hex33", json!(hex_of_len(rng, 33)));
			push("hex34", json!(hex_of_len(rng, 34)));
			push("[]", json!([]));
			push("{}", json!({}));
			push("true", json!(true));
		}
		Value::Array(a) => {
			push("empty", json!([]));
			push("[null]", json!([null]));
			push("null", Value::Null);
			push("{}", json!({}));
			push("0", json!(0));
			if let Some(first) = a.first() {
				push("x2000", Value::Array(std::iter::repeat(first.clone()).take(2000).collect()));
				let mut dup = a.clone();
				dup.push(first.clone());
				push("dup-first", Value::Array(dup));
				let mut less = a.clone();
				less.pop();
				push("pop", Value::Array(less));
				let mut more = a.clone();
				more.push(Value::Null);
				push("push-null", Value::Array(more));
			}
			let mut nest = json!([]);
			for _ in 0..100 {
				nest = json!([nest]);
			}
			push("nest100", nest);
		}
		Value::Object(o) => {
			push("empty", json!({}));
			push("null", Value::Null);
			push("[]", json!([]));
			push("0", json!(0));
			for k in o.keys() {
				let mut less = o.clone();
				less.remove(k);
				push(&format!("drop:{}", k), Value::Object(less));
			}
			let mut more = o.clone();
			more.insert("zzz_unknown".into(), json!(1));
			push("extra-key", Value::Object(more));
		}
	}
	r
}

/// All paths (as pointer strings) of a tree, parents before children.
fn paths(v: &Value, prefix: &str, out: &mut Vec<String>) {
	out.push(prefix.to_string());
	match v {
		Value::Array(a) => {
			for (i, x) in a.iter().enumerate() {
				paths(x, &format!("{}/{}", prefix, i), out);
			}
		}
		Value::Object(o) => {
			for (k, x) in o.iter() {
				paths(x, &format!("{}/{}", prefix, k.replace('~', "~0").replace('/', "~1")), out);
			}
		}
		_ => {}
	}
}

/// Mutations of a JSON document below `root` (a pointer; "" = everything).
fn tree_mutations(doc: &Value, root: &str, rng: &mut SimRng, cap: usize) -> Vec<(String, Value)> {
	let mut ps = vec![];
	if let Some(sub) = doc.pointer(root) {
		paths(sub, root, &mut ps);
	}
	let mut all: Vec<(String, Value)> = vec![];
	for p in ps {
		let node = match doc.pointer(&p) {
			Some(n) => n.clone(),
			None => continue,
		};
		for (name, rep) in replacements(&node, rng) {
			let mut d = doc.clone();
			if p.is_empty() {
				d = rep;
			} else if let Some(slot) = d.pointer_mut(&p) {
				*slot = rep;
			}
			all.push((format!("{}={}", p, name), d));
		}
	}
	if all.len() > cap {
		rng.shuffle(&mut all);
		all.truncate(cap);
	}
	all
}

fn envelope_mutations(req: &Value) -> Vec<(String, Value)> {
	let mut out = vec![];
	let with = |k: &str, v: Value| {
		let mut r = req.clone();
		r[k] = v;
		r
	};
	let without = |k: &str| {
		let mut r = req.clone();
		r.as_object_mut().unwrap().remove(k);
		r
	};
	out.push(("method=unknown".into(), with("method", json!("no_such_method"))));
	out.push(("method=0".into(), with("method", json!(0))));
	out.push(("method=null".into(), with("method", Value::Null)));
	out.push(("no-method".into(), without("method")));
	out.push(("params=null".into(), with("params", Value::Null)));
	out.push(("params={}".into(), with("params", json!({}))));
	out.push(("params=str".into(), with("params", json!("x"))));
	out.push(("no-params".into(), without("params")));
	out.push(("no-id".into(), without("id")));
	out.push(("id=null".into(), with("id", Value::Null)));
	out.push(("id=str".into(), with("id", json!("abc"))));
	out.push(("id={}".into(), with("id", json!({}))));
	out.push(("jsonrpc=1.0".into(), with("jsonrpc", json!("1.0"))));
	out.push(("no-jsonrpc".into(), without("jsonrpc")));
	out.push(("batch-2".into(), json!([req, req])));
	out.push(("batch-empty".into(), json!([])));
	out.push(("batch-junk".into(), json!([1, "x", null, {}])));
	out.push(("batch-300".into(), Value::Array(std::iter::repeat(with("id", json!(2))).take(300).collect())));
	out.push(("scalar".into(), json!(7)));
	out.push(("null".into(), Value::Null));
	// named parameters instead of positional ones
	if let Some(a) = req["params"].as_array() {
		let mut m = serde_json::Map::new();
		for (i, x) in a.iter().enumerate() {
			m.insert(format!("p{}", i), x.clone());
		}
		out.push(("params-as-object".into(), with("params", Value::Object(m))));
	}
	out
}

/// Mutations of the request text (as `parse_body` sees it): the survivors that still parse.
fn text_mutations(req: &Value, rng: &mut SimRng, n: usize) -> Vec<(String, Value)> {
	let text = serde_json::to_string(req).unwrap();
	let bytes = text.as_bytes();
	let mut out = vec![];
	for _ in 0..n {
		let mut b = bytes.to_vec();
		let what;
		match rng.below(4) {
			0 => {
				let i = rng.usize_below(b.len());
				b[i] = *rng.pick(&[b'0', b'9', b'"', b',', b'[', b']', b'{', b'}', b'-', b'e', b'.', b'\\', b'f', b' ']);
				what = format!("text-byte@{}", i);
			}
			1 => {
				let i = rng.usize_below(b.len());
				let j = (i + 1 + rng.usize_below(12)).min(b.len());
				b.drain(i..j);
				what = format!("text-cut@{}..{}", i, j);
			}
			2 => {
				let i = rng.usize_below(b.len());
				let j = (i + 1 + rng.usize_below(40)).min(b.len());
				let piece = b[i..j].to_vec();
				let k = rng.usize_below(b.len());
				for (n, x) in piece.into_iter().enumerate() {
					b.insert(k + n, x);
				}
				what = format!("text-copy@{}..{}->{}", i, j, k);
			}
			_ => {
				// a digit run grown
				if let Some(i) = b.iter().position(|c| c.is_ascii_digit()) {
					let k = i + rng.usize_below(b.len() - i);
					if b[k].is_ascii_digit() {
						for _ in 0..rng.range(1, 25) {
							b.insert(k, b'9');
						}
					}
					what = format!("text-digits@{}", k);
				} else {
					continue;
				}
			}
		}
		if let Ok(v) = serde_json::from_slice::<Value>(&b) {
			out.push((what, v));
		}
	}
	out
}

fn viol(key: &str, what: String, replay: Value) -> Violation {
	Violation { key: format!("C11:{}", key), what, replay }
}

fn short(v: &Value) -> String {
	let s = v.to_string();
	if s.len() > 300 {
		format!("{}... ({} chars)", &s[..300], s.len())
	} else {
		s
	}
}

/// Judge one outcome; `len` = length of the input document as text.
fn judge(kind: &str, method: &str, what: &str, input: &Value, out: Option<Outcome>, seed: u64, case: u64) -> Option<Violation> {
	let len = input.to_string().len();
	let replay = json!({"engine": "apisim", "property": "C11", "seed": seed.to_string(), "case": case, "kind": kind, "method": method, "mutation": what, "input": input});
	let out = match out {
		None => {
			return Some(viol(&format!("api-{}-hung:{}", kind, method), format!("{} {} [{}]: no answer within 20 s: {}", kind, method, what, short(input)), replay));
		}
		Some(o) => o,
	};
	if let Some(p) = out.panic {
		return Some(viol(&format!("api-{}-panicked:{}", kind, method), format!("{} {} [{}]: panic: {} -- input {}", kind, method, what, p, short(input)), replay));
	}
	let bound = 64 * len + 2 * out.reply_len + (4 << 20);
	if out.max_req > bound {
		return Some(viol(
			&format!("api-{}-over-allocated:{}", kind, method),
			format!("{} {} [{}]: a single allocation of {} bytes for a {} byte document (reply {} bytes, bound {}): {}", kind, method, what, out.max_req, len, out.reply_len, bound, short(input)),
			replay,
		));
	}
	None
}

pub fn case(tier: &str, seed: u64, case: u64) -> CaseResult {
	let t0 = Instant::now();
	let thorough = tier == "thorough";
	let mut res = CaseResult::new(case, seed);
	let (mut world, head) = match crate::poolsim::build_world(seed) {
		Ok(x) => x,
		Err(e) => {
			res.harness_error = Some(format!("api world: {}", e));
			return res;
		}
	};
	let node = match ApiNode::new(&world, head, "api") {
		Ok(n) => n,
		Err(e) => {
			res.harness_error = Some(format!("api node: {}", e));
			world.cleanup();
			return res;
		}
	};
	let mut rng = SimRng::new(seed).fork("api");
	let mut reqs: Vec<(bool, String, Value, bool)> = corpus(&mut world, head, &node, &mut rng).into_iter().map(|(m, r, k)| (false, m, r, k)).collect();
	reqs.extend(owner_corpus(&world, head).into_iter().map(|(m, r, k)| (true, m, r, k)));
	let cap = if thorough { 3000 } else { 500 };
	let mut found: Option<Violation> = None;
	let mut log = String::new();
	'outer: for (owner, method, req, must_ok) in reqs.iter() {
		let kind_req = if *owner { "owner-request" } else { "request" };
		// the valid request itself
		let out = node.send(*owner, req);
		res.runs += 1;
		res.steps += 1;
		res.probe(&format!("api_valid:{}", method));
		let reply = out.as_ref().and_then(|o| o.reply.clone());
		log.push_str(&format!("{} valid -> ok={}\n", method, reply.as_ref().and_then(|r| r.get("result")).and_then(|r| r.get("Ok")).is_some()));
		if let Some(v) = judge(kind_req, method, "valid", req, out, seed, case) {
			found = Some(v);
			break 'outer;
		}
		let ok = reply.as_ref().and_then(|r| r.get("result")).and_then(|r| r.get("Ok")).cloned();
		if *must_ok && ok.is_none() {
			res.harness_error = Some(format!("valid {} request was not answered with Ok: {} -> {}", method, short(req), short(&reply.unwrap_or(Value::Null))));
			break 'outer;
		}
		// mutated requests
		let mut muts = envelope_mutations(req);
		muts.extend(tree_mutations(req, "/params", &mut rng, cap));
		muts.extend(text_mutations(req, &mut rng, cap / 4));
		for (what, m) in muts {
			let out = node.send(*owner, &m);
			res.runs += 1;
			res.steps += 1;
			let kind = what.rsplit('=').next().unwrap_or("").split(':').next().unwrap_or("").to_string();
			let kind = if what.starts_with("text-") { what.split('@').next().unwrap_or("").to_string() } else { kind };
			res.fault(&format!("api-request:{}", if kind.starts_with("hexlen") { "hexlen" } else { &kind }));
			let rd = fnv64(m.to_string().as_bytes());
			res.run_digests.push((rd, true));
			let accepted = out.as_ref().and_then(|o| o.reply.as_ref()).and_then(|r| r.get("result")).and_then(|r| r.get("Ok")).is_some();
			if accepted {
				res.probe("api_mutant_answered_ok");
			} else {
				res.probe("api_mutant_refused");
			}
			log.push_str(&format!("{} {} -> {}\n", method, what, accepted));
			if let Some(v) = judge(kind_req, method, &what, &m, out, seed, case) {
				found = Some(v);
				break 'outer;
			}
		}
		// the reply, mutated, through the consumers' typed decoders
		if let Some(okv) = ok {
			let target = if method == "push_transaction" { req["params"][0].clone() } else { okv };
			let out = node.decode(method, &target);
			res.runs += 1;
			match &out {
				Some(o) if o.panic.is_none() && !o.decoded_ok && method != "get_pool_size" && method != "get_stempool_size" => {
					res.harness_error = Some(format!("the unmodified {} reply does not decode into its type: {}", method, short(&target)));
					break 'outer;
				}
				_ => {}
			}
			if let Some(v) = judge("response", method, "valid", &target, out, seed, case) {
				found = Some(v);
				break 'outer;
			}
			for (what, m) in tree_mutations(&target, "", &mut rng, cap) {
				let out = node.decode(method, &m);
				res.runs += 1;
				res.steps += 1;
				res.fault("api-response-mutation");
				// (replies carry wall-clock fields - a peer's last_connected, a pool entry's tx_at -: the
				// digest names the mutation, not the bytes)
				res.run_digests.push((fnv64(format!("{}|{}", method, what).as_bytes()), true));
				if out.as_ref().map(|o| o.decoded_ok).unwrap_or(false) {
					res.probe("api_response_mutant_decoded");
				}
				if let Some(v) = judge("response", method, &what, &m, out, seed, case) {
					found = Some(v);
					break 'outer;
				}
			}
		}
	}
	if let Some(v) = found {
		res.violations.push(v);
	}
	res.states.insert(fnv64(log.as_bytes()));
	res.samples.push(json!({"api_requests": reqs.iter().map(|r| r.1.clone()).collect::<Vec<_>>(), "event_log_digest": format!("{:016x}", fnv64(log.as_bytes()))}));
	node.destroy();
	world.cleanup();
	res.wall_s = t0.elapsed().as_secs_f64();
	res
}

/// Replay: the recorded document against a fresh node of the same world (decoder failures do not
/// depend on what was sent before; a hang or over-allocation that does would show as not reproduced).
pub fn replay(rp: &Value) -> Result<Option<Violation>, String> {
	let seed: u64 = rp["seed"].as_str().unwrap_or("1").parse().unwrap_or(1);
	let case = rp["case"].as_u64().unwrap_or(0);
	let (mut world, head) = crate::poolsim::build_world(seed)?;
	let node = ApiNode::new(&world, head, "api-replay")?;
	let kind = rp["kind"].as_str().unwrap_or("request");
	let method = rp["method"].as_str().unwrap_or("");
	let what = rp["mutation"].as_str().unwrap_or("");
	let input = rp["input"].clone();
	let out = match kind {
		"request" => node.request(&input),
		"owner-request" => node.owner_request(&input),
		_ => node.decode(method, &input),
	};
	println!("  {} {} [{}] -> {:?} {}", kind, method, what, out.as_ref().map(|o| (o.panic.clone(), o.max_req, o.reply_len)), out.as_ref().and_then(|o| o.reply.clone()).map(|r| short(&r)).unwrap_or_default());
	let v = judge(kind, method, what, &input, out, seed, case);
	node.destroy();
	world.cleanup();
	Ok(v)
}
