//! E3 txhsim: the real `TxHashSet` / `Extension` / `BitmapAccumulator` driven below the pipeline
//! with synthetic blocks (distinct fake commitments, zero proofs: nothing on this path verifies
//! them), so that the output set spans several 1024-bit bitmap chunks in milliseconds.
//! After every committed unit the committed bitmap root is compared with (a) an accumulator
//! initialised from scratch over the reference unspent set, (b) an independent re-implementation
//! (chunk bytes + MMR bagging) and (c) the root after closing and reopening the TxHashSet.

use crate::node::fresh_dir;
use crate::refmodel;
use crate::rng::{fnv64, SimRng};
use crate::sim::{CaseResult, Violation};
use grin_chain::store::ChainStore;
use grin_chain::txhashset::{self, BitmapAccumulator, PMMRHandle, TxHashSet};
use grin_chain::types::Tip;
use grin_core::core::hash::{Hash, Hashed};
use grin_core::core::{
	Block, BlockHeader, FeeFields, Input, KernelFeatures, Output, OutputFeatures, OutputIdentifier,
	TransactionBody, TxKernel,
};
use grin_core::core::pmmr;
use grin_core::pow::Proof;
use grin_core::ser::ProtocolVersion;
use grin_util::secp::key::SecretKey;
use grin_util::secp::pedersen::{Commitment, RangeProof};
use grin_util::static_secp_instance;
use serde_derive::{Deserialize, Serialize};
use serde_json::{json, Value};
use std::path::PathBuf;
use std::sync::Arc;
use std::time::Instant;

#[derive(Serialize, Deserialize, Clone, Debug, PartialEq)]
pub enum SpendPattern {
	/// k random unspent outputs
	Random(u64),
	/// unspent outputs of one old chunk (chunk index drawn by r)
	OldChunk(u64),
	/// the outputs sitting right at chunk boundaries (idx 1023/1024, 2047/2048, ...)
	ChunkBoundaries,
	/// everything unspent in the last (partial) chunk except the newest few
	LastChunk,
	/// every unspent output of a whole chunk (so that the chunk becomes all-zero)
	WholeChunk(u64),
	None,
}

#[derive(Serialize, Deserialize, Clone, Debug, PartialEq)]
pub enum Op {
	/// one unit of work: optional rewind by `rewind_back` blocks, then `blocks` new blocks each
	/// creating `outs` outputs and spending by pattern
	Unit {
		rewind_back: usize,
		blocks: usize,
		outs: u64,
		spend: SpendPattern,
		r: u64,
	},
	Reopen,
}

#[derive(Clone)]
struct BlockRec {
	header: BlockHeader,
	created: Vec<u64>, // leaf idx
	spent: Vec<u64>,   // leaf idx
}

pub struct TxhSim {
	dir: PathBuf,
	store: Arc<ChainStore>,
	header_pmmr: PMMRHandle<BlockHeader>,
	txhashset: Option<TxHashSet>,
	/// leaf idx -> (commitment, alive)
	outputs: Vec<(Commitment, bool)>,
	blocks: Vec<BlockRec>,
	counter: u64,
	pub log: Vec<String>,
	pub step: u64,
	pub probes: std::collections::BTreeMap<String, u64>,
	real_kernel: TxKernel,
}

fn viol(key: &str, what: String) -> Violation {
	Violation {
		key: format!("C15:{}", key),
		what,
		replay: Value::Null,
	}
}

/// A unique, well-formed (strictly increasing nonces within edge_bits) placeholder proof:
/// the header hash is the hash of the proof.
fn synth_proof(n: u64) -> Proof {
	let size = grin_core::global::proofsize() as u64;
	let bits = grin_core::global::min_edge_bits() as u64;
	let span = (1u64 << bits) / (size + 1);
	let nonces: Vec<u64> = (0..size)
		.map(|k| k * span + (fnv64(&(n * 64 + k).to_le_bytes()) % span))
		.collect();
	Proof::new(nonces)
}

fn fake_commit(n: u64) -> Commitment {
	let mut v = vec![0u8; 33];
	v[0] = 0x08 + (n & 1) as u8;
	v[1..9].copy_from_slice(&n.to_be_bytes());
	let h = fnv64(&n.to_le_bytes());
	v[9..17].copy_from_slice(&h.to_be_bytes());
	Commitment::from_vec(v)
}

impl TxhSim {
	pub fn new(tag: &str) -> Result<TxhSim, String> {
		let dir = fresh_dir(tag);
		let db_root = dir.join("chain_data");
		let db_root_s = db_root.to_str().unwrap().to_string();
		let store = Arc::new(ChainStore::new(&db_root_s, None).map_err(|e| format!("{:?}", e))?);
		let txhashset = TxHashSet::open(db_root_s.clone(), store.clone(), None).map_err(|e| format!("{:?}", e))?;
		let header_pmmr = PMMRHandle::new(db_root.join("header").join("header_head"), false, ProtocolVersion(1), None)
			.map_err(|e| format!("{:?}", e))?;
		// one real, verifiable kernel: TxHashSet::open probes the first kernel to detect the file version
		let real_kernel = {
			let secp = static_secp_instance();
			let secp = secp.lock();
			let skey = SecretKey::from_slice(&secp, &[7u8; 32]).unwrap();
			let nonce = SecretKey::from_slice(&secp, &[9u8; 32]).unwrap();
			let mut k = TxKernel::with_features(KernelFeatures::Plain {
				fee: FeeFields::new(0, 1).unwrap(),
			});
			let msg = k.msg_to_sign().unwrap();
			k.excess = secp.commit(0, skey.clone()).unwrap();
			let pk = k.excess.to_pubkey(&secp).unwrap();
			k.excess_sig = grin_util::secp::aggsig::sign_single(&secp, &msg, &skey, Some(&nonce), None, None, Some(&pk), None).unwrap();
			k
		};
		let mut sim = TxhSim {
			dir,
			store,
			header_pmmr,
			txhashset: Some(txhashset),
			outputs: vec![],
			blocks: vec![],
			counter: 0,
			log: vec![],
			step: 0,
			probes: Default::default(),
			real_kernel,
		};
		// synthetic genesis header
		let mut g = BlockHeader::default();
		g.pow.proof = synth_proof(0);
		{
			let mut batch = sim.store.batch().map_err(|e| format!("{:?}", e))?;
			batch.save_block_header(&g).map_err(|e| format!("{:?}", e))?;
			let b = Block::with_header(g.clone());
			batch.save_block(&b).map_err(|e| format!("{:?}", e))?;
			batch.save_spent_index(&g.hash(), &vec![]).map_err(|e| format!("{:?}", e))?;
			batch.save_body_head(&Tip::from_header(&g)).map_err(|e| format!("{:?}", e))?;
			batch.save_header_head(&Tip::from_header(&g)).map_err(|e| format!("{:?}", e))?;
			batch.commit().map_err(|e| format!("{:?}", e))?;
		}
		sim.blocks.push(BlockRec {
			header: g,
			created: vec![],
			spent: vec![],
		});
		Ok(sim)
	}

	pub fn destroy(&mut self) {
		self.txhashset = None;
		let _ = std::fs::remove_dir_all(&self.dir);
	}

	fn probe(&mut self, k: &str) {
		*self.probes.entry(k.to_string()).or_insert(0) += 1;
	}

	fn alive_idx(&self) -> Vec<u64> {
		self.outputs
			.iter()
			.enumerate()
			.filter(|(_, (_, a))| *a)
			.map(|(i, _)| i as u64)
			.collect()
	}

	fn pick_spends(&mut self, pattern: &SpendPattern, rng: &mut SimRng) -> Vec<u64> {
		let alive = self.alive_idx();
		let n = self.outputs.len() as u64;
		let mut v: Vec<u64> = match pattern {
			SpendPattern::None => vec![],
			SpendPattern::Random(k) => {
				let mut a = alive.clone();
				rng.shuffle(&mut a);
				a.into_iter().take(*k as usize).collect()
			}
			SpendPattern::OldChunk(c) => {
				let chunks = n / 1024;
				if chunks == 0 {
					vec![]
				} else {
					let c = c % chunks;
					let mut a: Vec<u64> = alive.iter().cloned().filter(|i| i / 1024 == c).collect();
					rng.shuffle(&mut a);
					let k = rng.range(1, 40) as usize;
					a.into_iter().take(k).collect()
				}
			}
			SpendPattern::ChunkBoundaries => alive
				.iter()
				.cloned()
				.filter(|i| i % 1024 == 1023 || i % 1024 == 0 || i % 1024 == 1)
				.take(6)
				.collect(),
			SpendPattern::LastChunk => {
				let last = n.saturating_sub(1) / 1024;
				let a: Vec<u64> = alive.iter().cloned().filter(|i| i / 1024 == last).collect();
				let keep = rng.range(0, 3) as usize;
				let l = a.len().saturating_sub(keep);
				a.into_iter().take(l).collect()
			}
			SpendPattern::WholeChunk(c) => {
				let chunks = (n + 1023) / 1024;
				if chunks == 0 {
					vec![]
				} else {
					let c = c % chunks;
					alive.iter().cloned().filter(|i| i / 1024 == c).collect()
				}
			}
		};
		v.sort_unstable();
		v.dedup();
		// keep blocks reasonably small for the db batch
		v.truncate(1100);
		v
	}

	fn make_block(&mut self, outs: u64, spends: &[u64]) -> Block {
		let prev = self.blocks.last().unwrap().header.clone();
		let mut outputs = vec![];
		for _ in 0..outs {
			self.counter += 1;
			let c = fake_commit(self.counter);
			outputs.push(Output::new(OutputFeatures::Plain, c, RangeProof::zero()));
		}
		let inputs: Vec<Input> = spends
			.iter()
			.map(|i| Input::new(OutputFeatures::Plain, self.outputs[*i as usize].0))
			.collect();
		let kernels = vec![self.real_kernel];
		let mut header = BlockHeader::default();
		header.height = prev.height + 1;
		header.version = grin_core::consensus::header_version(header.height);
		header.prev_hash = prev.hash();
		header.timestamp = prev.timestamp + chrono::Duration::seconds(60);
		self.counter += 1;
		let c = self.counter;
		header.pow.proof = synth_proof(c);
		header.pow.nonce = c;
		let n_out = pmmr::n_leaves(prev.output_mmr_size) + outs;
		let n_ker = pmmr::n_leaves(prev.kernel_mmr_size) + 1;
		header.output_mmr_size = pmmr::insertion_to_pmmr_index(n_out);
		header.kernel_mmr_size = pmmr::insertion_to_pmmr_index(n_ker);
		let mut body = TransactionBody {
			inputs: inputs[..].into(),
			outputs,
			kernels,
		};
		// stored blocks are read back through the canonical-form checks: keep the body sorted
		body.sort();
		Block { header, body }
	}

	pub fn exec(&mut self, op: &Op) -> Result<(), Violation> {
		self.step += 1;
		match op {
			Op::Reopen => {
				self.txhashset = None;
				let db_root = self.dir.join("chain_data").to_str().unwrap().to_string();
				let t = TxHashSet::open(db_root, self.store.clone(), None)
					.map_err(|e| viol("reopen-failed", format!("step {}: TxHashSet::open failed: {:?}", self.step, e)))?;
				self.txhashset = Some(t);
				self.probe("reopen");
				self.check("reopen")
			}
			Op::Unit {
				rewind_back,
				blocks,
				outs,
				spend,
				r,
			} => {
				let mut rng = SimRng::new(*r);
				let step = self.step;
				// header-level bookkeeping first: rewind in the model
				let back = (*rewind_back).min(self.blocks.len() - 1);
				let target = self.blocks[self.blocks.len() - 1 - back].header.clone();
				let mut new_blocks: Vec<(Block, Vec<u64>)> = vec![];
				// model rewind
				let snapshot_outputs = self.outputs.clone();
				let snapshot_blocks = self.blocks.clone();
				if back > 0 {
					self.probe("rewind");
					let crossing_before = self.outputs.len() / 1024;
					for _ in 0..back {
						let b = self.blocks.pop().unwrap();
						for i in &b.spent {
							if (*i as usize) < self.outputs.len() {
								self.outputs[*i as usize].1 = true;
							}
						}
						let first_created = b.created.first().cloned().unwrap_or(self.outputs.len() as u64);
						self.outputs.truncate(first_created as usize);
					}
					if self.outputs.len() / 1024 < crossing_before {
						self.probe("rewind_shrinks_across_chunk_boundary");
					}
				}
				for bi in 0..*blocks {
					let spends = if bi == 0 { self.pick_spends(spend, &mut rng) } else { self.pick_spends(&SpendPattern::Random(rng.range(0, 3)), &mut rng) };
					let o = if *outs == 0 { 1 } else { *outs };
					let b = self.make_block(o, &spends);
					let first = self.outputs.len() as u64;
					let mut created = vec![];
					for (k, out) in b.outputs().iter().enumerate() {
						self.outputs.push((out.commitment(), true));
						created.push(first + k as u64);
					}
					for i in &spends {
						self.outputs[*i as usize].1 = false;
					}
					self.blocks.push(BlockRec {
						header: b.header.clone(),
						created,
						spent: spends.clone(),
					});
					new_blocks.push((b, spends));
				}
				// now the real thing, one extension for the whole unit (like a reorg)
				let store = self.store.clone();
				let res: Result<(), grin_chain::Error> = (|| {
					let mut batch = store.batch()?;
					for (b, _) in &new_blocks {
						batch.save_block_header(&b.header)?;
						batch.save_block(b)?;
					}
					let txh = self.txhashset.as_mut().unwrap();
					let hp = &mut self.header_pmmr;
					txhashset::extending(hp, txh, &mut batch, |ext, batch| {
						if back > 0 {
							ext.extension.rewind(&target, batch)?;
						}
						for (b, _) in &new_blocks {
							ext.extension.apply_block(b, ext.header_extension, batch)?;
						}
						Ok(())
					})?;
					let head = new_blocks.last().map(|(b, _)| b.header.clone()).unwrap_or(target.clone());
					batch.save_body_head(&Tip::from_header(&head))?;
					batch.commit()?;
					Ok(())
				})();
				if let Err(e) = res {
					self.outputs = snapshot_outputs;
					self.blocks = snapshot_blocks;
					return Err(viol("unit-failed", format!("step {}: honest unit failed: {:?}", step, e)));
				}
				let chunks = (self.outputs.len() + 1023) / 1024;
				if chunks >= 2 {
					self.probe("multi_chunk_state");
				}
				self.check(&format!("{:?}", op))
			}
		}
	}

	fn check(&mut self, ctx: &str) -> Result<(), Violation> {
		let step = self.step;
		let idx = self.alive_idx();
		let n = self.outputs.len() as u64;
		let roots = self
			.txhashset
			.as_ref()
			.unwrap()
			.roots()
			.map_err(|e| viol("roots-error", format!("step {}: {:?}", step, e)))?;
		let got = roots.output_roots.bitmap_root;
		let mut acc = BitmapAccumulator::new();
		acc.init(idx.clone(), n).map_err(|e| viol("init-error", format!("{:?}", e)))?;
		let scratch = acc.root();
		let indep = refmodel::bitmap_root(&idx, n);
		// trailing all-zero chunks: is the last chunk holding any unspent output?
		let last_set_chunk = idx.last().map(|i| i / 1024);
		let last_chunk = if n == 0 { None } else { Some((n - 1) / 1024) };
		if last_set_chunk != last_chunk {
			self.probe("trailing_empty_chunk_state");
		}
		if got != scratch {
			return Err(viol(
				"bitmap-root-path-dependent",
				format!(
					"step {} ({}): committed bitmap root {} differs from an accumulator built from scratch over the same unspent set {} ({} outputs, {} unspent, last unspent idx {:?})",
					step, ctx, got, scratch, n, idx.len(), idx.last()
				),
			));
		}
		if got != indep {
			return Err(viol(
				"bitmap-root-vs-independent",
				format!("step {} ({}): committed bitmap root {} differs from the independent model {}", step, ctx, got, indep),
			));
		}
		// the leaf set itself
		let txh = self.txhashset.as_ref().unwrap();
		if txh.output_mmr_size() != pmmr::insertion_to_pmmr_index(n) {
			return Err(viol(
				"output-mmr-size",
				format!("step {} ({}): output MMR size {} but {} outputs exist", step, ctx, txh.output_mmr_size(), n),
			));
		}
		self.log.push(format!("{} {} -> outputs {} unspent {} root {}", step, ctx, n, idx.len(), got));
		Ok(())
	}
}

pub fn gen_ops(rng: &mut SimRng, thorough: bool) -> Vec<Op> {
	let mut ops = vec![];
	// grow quickly past one or several chunk boundaries
	let target_chunks = if thorough { rng.range(2, 5) } else { rng.range(2, 3) };
	let per_block = *rng.pick(&[90u64, 170, 260]);
	let grow_blocks = (target_chunks * 1024 / per_block) as usize + 1;
	let mut i = 0;
	while i < grow_blocks {
		let k = rng.range(1, 3) as usize;
		let spend = match rng.below(6) {
			0 => SpendPattern::Random(rng.range(1, 20)),
			1 => SpendPattern::OldChunk(rng.below(8)),
			2 => SpendPattern::ChunkBoundaries,
			_ => SpendPattern::None,
		};
		ops.push(Op::Unit {
			rewind_back: 0,
			blocks: k,
			outs: per_block,
			spend,
			r: rng.next_u64(),
		});
		i += k;
	}
	// then a mixed phase
	let n = rng.range(10, 40);
	for _ in 0..n {
		if rng.chance(1, 8) {
			ops.push(Op::Reopen);
			continue;
		}
		let spend = match rng.below(10) {
			0 | 1 => SpendPattern::Random(rng.range(1, 30)),
			2 | 3 => SpendPattern::OldChunk(rng.below(8)),
			4 => SpendPattern::ChunkBoundaries,
			5 | 6 => SpendPattern::LastChunk,
			7 => SpendPattern::WholeChunk(rng.below(8)),
			_ => SpendPattern::None,
		};
		ops.push(Op::Unit {
			rewind_back: if rng.chance(1, 3) { rng.range(1, 6) as usize } else { 0 },
			blocks: rng.range(0, 2) as usize,
			outs: *rng.pick(&[1u64, 3, 20, per_block]),
			spend,
			r: rng.next_u64(),
		});
	}
	ops
}

pub fn run_ops(ops: &[Op], tag: &str, acc: Option<&mut CaseResult>) -> (Option<Violation>, u64, Vec<String>, u64) {
	let mut sim = match TxhSim::new(tag) {
		Ok(s) => s,
		Err(e) => {
			return (Some(viol("setup-failed", e)), 0, vec![], 0);
		}
	};
	let mut v = None;
	for op in ops {
		if let Err(e) = sim.exec(op) {
			v = Some(e);
			break;
		}
	}
	let digest = fnv64(sim.log.join("\n").as_bytes());
	if let Some(acc) = acc {
		for (k, n) in &sim.probes {
			acc.probe_n(k, *n);
		}
	}
	let (steps, log) = (sim.step, sim.log.clone());
	sim.destroy();
	(v, digest, log, steps)
}

pub fn case(tier: &str, seed: u64, case: u64) -> CaseResult {
	let t0 = Instant::now();
	let thorough = tier == "thorough";
	// synthetic blocks carry hundreds of outputs: use the mainnet weight limits for this engine
	// (the worker process runs nothing else)
	grin_core::global::set_local_chain_type(grin_core::global::ChainTypes::Mainnet);
	let mut res = CaseResult::new(case, seed);
	let runs = if thorough { 40 } else { 5 };
	let rng = SimRng::new(seed);
	for run in 0..runs {
		let mut rr = rng.fork(&format!("txh{}", run));
		let ops = gen_ops(&mut rr, thorough);
		let (v, digest, log, steps) = run_ops(&ops, &format!("txh-c{}r{}", case, run), Some(&mut res));
		res.runs += 1;
		res.steps += steps;
		res.run_digests.push((digest, true));
		res.fault_n("reopen", ops.iter().filter(|o| matches!(o, Op::Reopen)).count() as u64);
		if res.samples.is_empty() {
			res.samples.push(json!({
				"engine": "txhsim",
				"ops": ops.iter().rev().take(8).map(|o| format!("{:?}", o)).collect::<Vec<_>>(),
				"log_tail": log.iter().rev().take(3).cloned().collect::<Vec<_>>(),
			}));
		}
		if let Some(v) = v {
			let key = v.key.clone();
			let mut n = 0;
			let min_ops = crate::sim::ddmin(
				&ops,
				|cand| {
					n += 1;
					let (v2, _, _, _) = run_ops(cand, &format!("txh-min{}", n), None);
					v2.map(|x| x.key == key).unwrap_or(false)
				},
				120,
			);
			let (v3, _, log3, _) = run_ops(&min_ops, "txh-minfinal", None);
			let what = v3.map(|x| x.what).unwrap_or(v.what.clone());
			res.violations.push(Violation {
				key: v.key,
				what: format!("{} [minimised from {} to {} ops]", what, ops.len(), min_ops.len()),
				replay: json!({
					"engine": "txhsim",
					"property": "C15",
					"ops": serde_json::to_value(&min_ops).unwrap(),
					"log": log3,
				}),
			});
			break;
		}
	}
	res.wall_s = t0.elapsed().as_secs_f64();
	res
}

pub fn replay(rp: &Value) -> Result<Option<Violation>, String> {
	let ops: Vec<Op> = serde_json::from_value(rp["ops"].clone()).map_err(|e| format!("{}", e))?;
	grin_core::global::set_local_chain_type(grin_core::global::ChainTypes::Mainnet);
	let (v, _, log, _) = run_ops(&ops, "txh-replay", None);
	for l in log {
		println!("  {}", l);
	}
	Ok(v)
}

#[allow(dead_code)]
fn _unused(_: Hash, _: OutputIdentifier) {}
