//! E1 chainsim: N real chain nodes fed a generated fork tree through a simulated
//! network (reordering, duplication, child-before-parent, restarts, byzantine inputs),
//! checked after every delivery against small reference models.

use crate::node::{Node, StateDigest, StatusKind};
use crate::rng::{fnv64, SimRng};
use crate::sim::{CaseResult, Violation};
use crate::world::{CommitKey, World};
use grin_chain::types::Tip;
use grin_chain::Error;
use grin_core::core::hash::Hashed;
use grin_core::core::BlockHeader;
use serde_derive::{Deserialize, Serialize};
use serde_json::{json, Value};
use std::collections::{BTreeMap, BTreeSet};

#[derive(Serialize, Deserialize, Clone, Debug, PartialEq)]
pub enum Op {
	Header { node: usize, id: usize },
	HeaderBatch { node: usize, ids: Vec<usize> },
	Block { node: usize, id: usize },
	/// byzantine input: delivered to `node` only (never to its twin)
	Bad { node: usize, bad: usize },
	/// header of a bad block through process_block_header
	BadHeader { node: usize, bad: usize },
	/// header batch through sync_block_headers: honest `ids` (a parent-linked chain ending at the
	/// bad block's parent) followed by the bad block's header
	BadBatch { node: usize, ids: Vec<usize>, bad: usize },
	/// the byzantine block in full (refused, its valid header remembered), then the valid headers
	/// that extend it: a header-only fork with more work than the node's own chain
	BadWithGhosts { node: usize, bad: usize },
	Restart { node: usize },
	Compact { node: usize },
	Validate { node: usize, fast: bool },
	/// deliver everything still missing, parents first (what sync would do)
	Sweep { node: usize },
}

impl Op {
	pub fn node(&self) -> usize {
		match self {
			Op::Header { node, .. }
			| Op::HeaderBatch { node, .. }
			| Op::Block { node, .. }
			| Op::Bad { node, .. }
			| Op::BadHeader { node, .. }
			| Op::BadBatch { node, .. }
			| Op::BadWithGhosts { node, .. }
			| Op::Restart { node }
			| Op::Compact { node }
			| Op::Validate { node, .. }
			| Op::Sweep { node } => *node,
		}
	}
}

/// Which oracles are armed. Each property's check arms its own.
#[derive(Clone, Debug, Default)]
pub struct Oracles {
	/// C03: head model, statuses, accept/refuse expectations, convergence
	pub head: bool,
	/// C02: unspent view equals the ledger of the node's head after every step
	pub utxo: bool,
	/// C01: sums / validate after accepted blocks, conservation
	pub sums: bool,
	/// C06: twin comparison
	pub twin: bool,
	/// bad inputs must be refused (C01 C02 C04 C13 C15 and C06)
	pub reject_bad: bool,
	/// C08 chain clause: compaction/restart leave state unchanged
	pub stable_ops: bool,
	/// C15: bitmap root equals from-scratch root
	pub bitmap: bool,
}

/// Reference model of one node, driven by the node's own accept events.
#[derive(Clone, Debug, Default)]
pub struct NodeModel {
	pub headers: BTreeSet<usize>,
	pub accepted: BTreeSet<usize>,
	pub head: usize,
	pub header_head: usize,
	pub orphans: BTreeSet<usize>,
	/// lowest height whose full block is still stored (after compaction)
	pub tail_height: u64,
}

impl NodeModel {
	pub fn new() -> NodeModel {
		let mut m = NodeModel::default();
		m.headers.insert(0);
		m.accepted.insert(0);
		m
	}
}

pub struct RunOutcome {
	pub log_digest: u64,
	pub steps: u64,
	pub nontrivial: bool,
	pub violation: Option<(usize, Violation)>,
	pub log: Vec<String>,
}

pub struct ChainSim<'w> {
	pub world: &'w World,
	pub property: String,
	pub oracles: Oracles,
	pub n_nodes: usize,
	pub twin: bool,
	pub nodes: Vec<Node>,
	pub models: Vec<NodeModel>,
	pub log: Vec<String>,
	pub step: u64,
	pub commits: Vec<CommitKey>,
	pub reorders: u64,
	pub dir_tag: String,
	/// counters gathered for the case result
	pub faults: BTreeMap<String, u64>,
	pub probes: BTreeMap<String, u64>,
	pub states: BTreeSet<u64>,
	/// a valid header attached to an invalid block was delivered: header_head may differ from the twin's
	pub allow_hh_div: Vec<bool>,
	last_sums_head: Vec<Option<grin_core::core::hash::Hash>>,
	last_events: Vec<String>,
}

fn err_class(e: &Error) -> String {
	let s = format!("{:?}", e);
	let end = s.find(|c: char| c == '(' || c == ' ' || c == '{').unwrap_or(s.len());
	s[..end].to_string()
}

impl<'w> ChainSim<'w> {
	pub fn new(
		world: &'w World,
		property: &str,
		oracles: Oracles,
		n_nodes: usize,
		twin: bool,
		dir_tag: &str,
	) -> ChainSim<'w> {
		let total = if twin { n_nodes * 2 } else { n_nodes };
		let mut nodes = vec![];
		let mut models = vec![];
		// compaction keeps the historical blocks on an archive node but compacts the state all the
		// same: one world in three of the compaction properties runs its nodes in archive mode
		let archive = (property == "C08" || property == "C02") && world.seed % 3 == 0;
		for i in 0..total {
			let dir = crate::node::fresh_dir(&format!("{}-n{}", dir_tag, i));
			nodes.push(Node::open_at(dir, world.genesis.clone(), archive).expect("Chain::init on fresh dir"));
			models.push(NodeModel::new());
		}
		let mut cs = ChainSim {
			world,
			property: property.to_string(),
			oracles,
			n_nodes,
			twin,
			nodes,
			models,
			log: vec![],
			step: 0,
			commits: world.all_commits(),
			reorders: 0,
			dir_tag: dir_tag.to_string(),
			faults: BTreeMap::new(),
			probes: BTreeMap::new(),
			states: BTreeSet::new(),
			allow_hh_div: vec![false; total],
			last_sums_head: vec![None; total],
			last_events: vec![],
		};
		if archive {
			cs.probe("archive_mode_nodes");
		}
		cs

	}

	pub fn destroy(&mut self) {
		for n in self.nodes.iter_mut() {
			n.destroy();
		}
	}

	fn fault(&mut self, k: &str) {
		*self.faults.entry(k.to_string()).or_insert(0) += 1;
	}
	fn probe(&mut self, k: &str) {
		*self.probes.entry(k.to_string()).or_insert(0) += 1;
	}

	fn viol(&self, key: &str, what: String) -> Violation {
		Violation {
			key: format!("{}:{}", self.property, key),
			what: format!("step {}: {}", self.step, what),
			replay: Value::Null,
		}
	}

	fn td(&self, id: usize) -> u64 {
		self.world.blocks[id].total_difficulty
	}

	fn tip_of(&self, h: &BlockHeader) -> Tip {
		Tip::from_header(h)
	}

	/// Process the accept events a node emitted during one call; update the model; check statuses.
	fn absorb_events(&mut self, n: usize) -> Result<Vec<usize>, Violation> {
		self.last_events.clear();
		let events = self.nodes[n].take_events();
		let mut ids = vec![];
		for (hash, kind) in events {
			let id = match self.world.id_of_hash(&hash) {
				Some(id) => id,
				None => {
					return Err(self.viol(
						"accepted-unknown-block",
						format!("node {} accepted a block that is not an honest world block: {}", n, hash),
					))
				}
			};
			let parent = self.world.blocks[id].parent.unwrap_or(0);
			let m = &self.models[n];
			if self.oracles.head && !m.accepted.contains(&parent) {
				return Err(self.viol(
					"accepted-without-parent",
					format!("node {} accepted block #{} whose parent #{} was never accepted", n, id, parent),
				));
			}
			let old_head = m.head;
			let more = self.td(id) > self.td(old_head);
			let expect = if more {
				if parent == old_head {
					StatusKind::Next
				} else {
					StatusKind::Reorg
				}
			} else {
				StatusKind::Fork
			};
			let fork_mismatch = (kind == StatusKind::Fork) != (expect == StatusKind::Fork);
			if kind != expect && !fork_mismatch {
				// Next reported for what the model calls a reorg (or vice versa): the node decides this
				// against its header chain, which may be ahead of the body chain. The property does not
				// speak about it; counted, not alarmed.
				self.probe("status_next_vs_reorg_differs");
			}
			if self.oracles.head && fork_mismatch {
				if std::env::var("VERIF_DEBUG").is_ok() {
					let c = self.nodes[n].chain();
					let hh = c.header_head().unwrap();
					for h in 0..=hh.height {
						let hd = c.get_header_by_height(h).unwrap();
						eprintln!("  header chain h{} = #{:?}", h, self.world.id_of_hash(&hd.hash()));
					}
					for b in &self.world.blocks {
						eprintln!("  world #{} parent {:?} h{} td{}", b.id, b.parent, b.height, b.total_difficulty);
					}
				}
				return Err(self.viol(
					"status-mismatch",
					format!(
						"node {} block #{} (td {}) on head #{} (td {}): adapter status {:?}, model {:?} (events so far in this call: {:?})",
						n, id, self.td(id), old_head, self.td(old_head), kind, expect, self.last_events
					),
				));
			}
			match expect {
				StatusKind::Reorg => self.probe("reorg"),
				StatusKind::Fork => self.probe("fork_block"),
				_ => {}
			}
			if self.world.blocks[id].height + 50 < self.world.blocks[old_head].height {
				// accepted although it sits more than 50 blocks below the head (only blocks that are
				// already stored may be refused as "old")
				self.probe("block_accepted_50_below_head");
				if expect == StatusKind::Reorg {
					self.probe("reorg_deeper_than_50");
				}
			}
			let m = &mut self.models[n];
			m.accepted.insert(id);
			m.headers.insert(id);
			m.orphans.remove(&id);
			if more {
				m.head = id;
			}
			if self.td(id) > self.td(self.models[n].header_head) {
				self.models[n].header_head = id;
			}
			ids.push(id);
			self.last_events.push(format!("{}{}", id, match kind { StatusKind::Next => 'N', StatusKind::Fork => 'F', StatusKind::Reorg => 'R' }));
		}
		Ok(ids)
	}

	/// Checks that hold after every step on node n.
	fn check_node(&mut self, n: usize) -> Result<StateDigest, Violation> {
		let d = match self.nodes[n].digest() {
			Ok(d) => d,
			Err(e) => {
				return Err(self.viol("digest-error", format!("node {} digest failed: {:?}", n, e)))
			}
		};
		self.states.insert(d.hash64());
		let m = &self.models[n];
		if self.oracles.head {
			let want = self.world.blocks[m.head].hash;
			if d.head != want {
				return Err(self.viol(
					"head-not-most-work",
					format!(
						"node {} head is {}@{} td {} but model (most work among accepted) is #{} {}@{} td {}",
						n, d.head, d.head_height, d.head_td, m.head, want, self.world.blocks[m.head].height, self.td(m.head)
					),
				));
			}
			// invariant form: no accepted block has more work than head
			let max_td = m.accepted.iter().map(|i| self.td(*i)).max().unwrap_or(0);
			if d.head_td != max_td {
				return Err(self.viol(
					"head-td-not-max",
					format!("node {} head td {} but accepted set has td {}", n, d.head_td, max_td),
				));
			}
			let want_hh = self.world.blocks[m.header_head].hash;
			if d.header_head != want_hh && !self.allow_hh_div[n] {
				return Err(self.viol(
					"header-head-mismatch",
					format!(
						"node {} header_head {}@{} but model #{} {}@{}",
						n, d.header_head, d.header_head_height, m.header_head, want_hh, self.world.blocks[m.header_head].height
					),
				));
			}
		}
		if self.oracles.head {
			// every block waiting in the orphan pool must still be waiting for its parent: once the
			// parent is accepted the orphan has to be adopted in the same call (otherwise the final
			// head depends on the delivery order)
			let m = &self.models[n];
			for o in m.orphans.iter() {
				let p = self.world.blocks[*o].parent.unwrap_or(0);
				if m.accepted.contains(&p) {
					return Err(self.viol(
						"orphan-not-adopted",
						format!(
							"node {}: block #{} (h{}, td {}) was delivered before its parent #{} and is still not accepted although the parent now is; head is #{} (td {})",
							n, o, self.world.blocks[*o].height, self.td(*o), p, m.head, self.td(m.head)
						),
					));
				}
			}
		}
		if self.oracles.utxo {
			self.check_utxo(n, &d)?;
		}
		if self.oracles.sums {
			self.check_sums(n, &d)?;
		}
		if self.oracles.bitmap {
			self.check_bitmap(n, &d)?;
		}
		Ok(d)
	}

	/// C02: the node's unspent view equals the ledger obtained by replaying its head's chain.
	fn check_utxo(&mut self, n: usize, d: &StateDigest) -> Result<(), Violation> {
		let head_id = match self.world.id_of_hash(&d.head) {
			Some(i) => i,
			None => {
				return Err(self.viol("head-unknown", format!("node {} head {} is not a world block", n, d.head)))
			}
		};
		let ledger = &self.world.blocks[head_id].ledger;
		let view = match self.nodes[n].unspent_view(&self.commits) {
			Ok(v) => v,
			Err(e) => return Err(self.viol("get-unspent-error", format!("node {}: {:?}", n, e))),
		};
		for k in &self.commits {
			let in_ledger = ledger.get(k);
			let in_node = view.get(k);
			match (in_ledger, in_node) {
				(Some(_), None) => {
					return Err(self.viol(
						"unspent-vanished",
						format!("node {} at head #{}: output {} is unspent on the replayed chain but the node reports it spent/missing", n, head_id, crate::rng::hex(&k[..8])),
					))
				}
				(None, Some(_)) => {
					return Err(self.viol(
						"spent-reappeared",
						format!("node {} at head #{}: output {} is not in the replayed unspent set but the node reports it unspent", n, head_id, crate::rng::hex(&k[..8])),
					))
				}
				(Some(l), Some((_pos, h))) => {
					if l.height != *h {
						return Err(self.viol(
							"unspent-wrong-height",
							format!("node {} at head #{}: output {} created at height {} on the replayed chain, node says {}", n, head_id, crate::rng::hex(&k[..8]), l.height, h),
						));
					}
				}
				(None, None) => {}
			}
		}
		// enumeration through the public paging API
		match self.nodes[n].enumerate_unspent() {
			Ok(list) => {
				let set: BTreeSet<CommitKey> = list.iter().cloned().collect();
				let want: BTreeSet<CommitKey> = ledger.keys().cloned().collect();
				if set != want || list.len() != want.len() {
					return Err(self.viol(
						"enumeration-mismatch",
						format!("node {} at head #{}: unspent enumeration has {} entries ({} distinct), replayed ledger {}", n, head_id, list.len(), set.len(), want.len()),
					));
				}
			}
			Err(e) => return Err(self.viol("enumerate-error", format!("node {}: {:?}", n, e))),
		}
		Ok(())
	}


	/// C01: stored running sums equal sums recomputed from the full state; amount-level conservation.
	fn check_sums(&mut self, n: usize, d: &StateDigest) -> Result<(), Violation> {
		if Some(d.head) == self.last_sums_head[n] {
			return Ok(());
		}
		self.last_sums_head[n] = Some(d.head);
		let head_id = match self.world.id_of_hash(&d.head) {
			Some(i) => i,
			None => return Err(self.viol("head-unknown", format!("node {} head {} is not a world block", n, d.head))),
		};
		if head_id == 0 {
			return Ok(());
		}
		let c = self.nodes[n].chain();
		let header = self.world.blocks[head_id].block.header.clone();
		let genesis = self.world.genesis.header.clone();
		let stored = match c.get_block_sums(&d.head) {
			Ok(s) => s,
			Err(e) => return Err(self.viol("block-sums-missing", format!("node {} has no block sums for its head #{}: {:?}", n, head_id, e))),
		};
		let recomputed = {
			let hp = c.header_pmmr();
			let th = c.txhashset();
			let mut hp = hp.write();
			let mut th = th.write();
			grin_chain::txhashset::extending_readonly(&mut hp, &mut th, |ext, _batch| {
				ext.extension.validate_kernel_sums(&genesis, &header)
			})
		};
		match recomputed {
			Ok((utxo_sum, kernel_sum)) => {
				if utxo_sum != stored.utxo_sum || kernel_sum != stored.kernel_sum {
					return Err(self.viol(
						"stored-sums-differ",
						format!("node {} head #{}: stored block sums differ from sums recomputed over the full state", n, head_id),
					));
				}
			}
			Err(e) => {
				return Err(self.viol(
					"full-state-equation-fails",
					format!("node {} head #{}: full-state kernel sum equation fails: {:?}", n, head_id, e),
				))
			}
		}
		if let Err(e) = c.validate(true) {
			return Err(self.viol("validate-fast-failed", format!("node {} head #{}: Chain::validate(true) failed: {:?}", n, head_id, e)));
		}
		// amount level: what the wallet knows about the values of the outputs the node reports unspent
		let view = match self.nodes[n].unspent_view(&self.commits) {
			Ok(v) => v,
			Err(e) => return Err(self.viol("get-unspent-error", format!("node {}: {:?}", n, e))),
		};
		let mut total: u128 = 0;
		for k in view.keys() {
			if let Some(i) = self.world.wallet.known.get(k) {
				total += i.value as u128;
			}
		}
		let want = grin_core::consensus::REWARD as u128 * (header.height as u128 + 1);
		if total != want {
			return Err(self.viol(
				"supply-mismatch",
				format!("node {} head #{} (h{}): unspent outputs are worth {} but the height-determined supply is {}", n, head_id, header.height, total, want),
			));
		}
		Ok(())
	}

	/// C15: committed bitmap root equals the root of an accumulator built from scratch over the
	/// unspent set the node reports.
	fn check_bitmap(&mut self, n: usize, d: &StateDigest) -> Result<(), Violation> {
		let view = match self.nodes[n].unspent_view(&self.commits) {
			Ok(v) => v,
			Err(e) => return Err(self.viol("get-unspent-error", format!("node {}: {:?}", n, e))),
		};
		let mut idx: Vec<u64> = view
			.values()
			.map(|(pos, _)| grin_core::core::pmmr::n_leaves(*pos).saturating_sub(1))
			.collect();
		idx.sort_unstable();
		let size = grin_core::core::pmmr::n_leaves(d.sizes.0);
		let mut acc = grin_chain::txhashset::BitmapAccumulator::new();
		if let Err(e) = acc.init(idx.clone(), size) {
			return Err(self.viol("bitmap-init-error", format!("{:?}", e)));
		}
		let want = acc.root();
		if want != d.bitmap_root {
			return Err(self.viol(
				"bitmap-root-path-dependent",
				format!("node {} at head {}@{}: committed bitmap root {} differs from the from-scratch root {} over {} unspent leaves of {}", n, d.head, d.head_height, d.bitmap_root, want, idx.len(), size),
			));
		}
		// independent implementation (no BitmapAccumulator code): chunk bytes + MMR bagging
		let indep = crate::refmodel::bitmap_root(&idx, size);
		if indep != d.bitmap_root {
			return Err(self.viol(
				"bitmap-root-vs-independent",
				format!("node {} at head {}@{}: committed bitmap root {} differs from the independently computed root {}", n, d.head, d.head_height, d.bitmap_root, indep),
			));
		}
		Ok(())
	}


	/// Common post-conditions of a byzantine delivery.
	fn after_bad(&mut self, n: usize, hash: grin_core::core::hash::Hash, header_bad: bool, kind: &str) -> Result<(), Violation> {
		if let Some(twin) = self.world.bad.iter().find(|b| b.hash == hash && b.kind == kind).and_then(|b| b.twin_of) {
			// an altered copy of an honest block: the hash may be known, what is stored under it must be
			// the honest header and (if at all) the honest body
			let honest = &self.world.blocks[twin].block;
			if let Ok(h) = self.nodes[n].chain().get_block_header(&hash) {
				let a = grin_core::ser::ser_vec(&h, grin_core::ser::ProtocolVersion::local()).unwrap_or_default();
				let b = grin_core::ser::ser_vec(&honest.header, grin_core::ser::ProtocolVersion::local()).unwrap_or_default();
				if a != b && (self.oracles.reject_bad || self.oracles.twin) {
					return Err(self.viol(
						&format!("altered-header-stored:{}", kind),
						format!("node {} stores an altered copy of header #{} ({}) under the honest hash", n, twin, kind),
					));
				}
			}
			if let Ok(blk) = self.nodes[n].chain().get_block(&hash) {
				if blk.header.timestamp != honest.header.timestamp || blk.header.prev_root != honest.header.prev_root {
					if self.oracles.reject_bad || self.oracles.twin {
						return Err(self.viol(
							&format!("altered-block-stored:{}", kind),
							format!("node {} stores an altered copy of block #{} ({}) under the honest hash", n, twin, kind),
						));
					}
				}
			}
			return Ok(());
		}
		let stored = self.nodes[n].chain().get_block_header(&hash).is_ok();
		if header_bad {
			if stored && (self.oracles.reject_bad || self.oracles.twin) {
				return Err(self.viol(
					&format!("bad-header-remembered:{}", kind),
					format!("node {} stored a header that is itself invalid ({})", n, kind),
				));
			}
		} else if stored {
			// a valid header of an invalid block may be remembered and may move header_head
			self.allow_hh_div[n] = true;
			self.probe("valid_header_of_bad_block_remembered");
		}
		if self.nodes[n].chain().block_exists(hash).unwrap_or(false) && (self.oracles.reject_bad || self.oracles.twin) {
			return Err(self.viol(
				&format!("bad-block-stored:{}", kind),
				format!("node {} stored the body of an invalid block ({})", n, kind),
			));
		}
		Ok(())
	}

	fn logline(&mut self, op: &Op, res: &str, d: &StateDigest) {
		self.log.push(format!(
			"{} {:?} -> {} | {:016x} h{}",
			self.step,
			op,
			res,
			d.hash64(),
			d.head_height
		));
	}

	/// Execute one op on one concrete node index (no twin handling).
	fn exec_on(&mut self, n: usize, op: &Op) -> Result<String, Violation> {
		let opts = self.world.opts;
		match op {
			Op::Header { id, .. } => {
				let h = self.world.blocks[*id].block.header.clone();
				let parent = self.world.blocks[*id].parent.unwrap_or(0);
				let expect_ok = self.models[n].headers.contains(&parent) || self.models[n].accepted.contains(id);
				let res = self.nodes[n].chain().process_block_header(&h, opts);
				let cls = match &res {
					Ok(_) => "ok".to_string(),
					Err(e) => err_class(e),
				};
				if self.oracles.head && res.is_ok() != expect_ok {
					return Err(self.viol(
						"header-result",
						format!("node {} header #{}: result {} but model expects ok={}", n, id, cls, expect_ok),
					));
				}
				if res.is_ok() {
					let m = &mut self.models[n];
					if !m.accepted.contains(id) {
						m.headers.insert(*id);
					}
					if m.headers.contains(id) && self.world.blocks[*id].total_difficulty > self.world.blocks[m.header_head].total_difficulty {
						m.header_head = *id;
					}
				}
				Ok(cls)
			}
			Op::HeaderBatch { ids, .. } => {
				let hs: Vec<BlockHeader> = ids.iter().map(|i| self.world.blocks[*i].block.header.clone()).collect();
				let first_parent = self.world.blocks[ids[0]].parent.unwrap_or(0);
				let expect_ok = self.models[n].headers.contains(&first_parent);
				let sync_head = match self.nodes[n].chain().header_head() {
					Ok(t) => t,
					Err(e) => return Err(self.viol("header-head-error", format!("{:?}", e))),
				};
				let res = self.nodes[n].chain().sync_block_headers(&hs, sync_head, opts);
				let cls = match &res {
					Ok(_) => "ok".to_string(),
					Err(e) => err_class(e),
				};
				if self.oracles.head && res.is_ok() != expect_ok {
					return Err(self.viol(
						"header-batch-result",
						format!("node {} header batch {:?}: result {} but model expects ok={}", n, ids, cls, expect_ok),
					));
				}
				if res.is_ok() {
					let last = *ids.last().unwrap();
					let m = &mut self.models[n];
					for i in ids {
						m.headers.insert(*i);
					}
					if self.world.blocks[last].total_difficulty > self.world.blocks[m.header_head].total_difficulty {
						m.header_head = last;
					}
				}
				Ok(cls)
			}
			Op::Block { id, .. } => {
				let b = self.world.blocks[*id].block.clone();
				let parent = self.world.blocks[*id].parent.unwrap_or(0);
				let m = &self.models[n];
				let below_tail = self.world.blocks[*id].height <= m.tail_height && m.tail_height > 0;
				let expect: &str = if !m.headers.contains(&parent) {
					"refuse-unknown-parent"
				} else if m.accepted.contains(id) {
					"refuse-duplicate"
				} else if !m.accepted.contains(&parent) {
					"orphan"
				} else {
					"accept"
				};
				let res = self.nodes[n].chain().process_block(b, opts);
				let cls = match &res {
					Ok(Some(_)) => "ok-head".to_string(),
					Ok(None) => "ok-fork".to_string(),
					Err(e) => err_class(e),
				};
				if expect != "refuse-unknown-parent" {
					// the header was processed (and committed) ahead of the body
					let m = &mut self.models[n];
					if !m.accepted.contains(id) {
						m.headers.insert(*id);
						if self.world.blocks[*id].total_difficulty > self.world.blocks[m.header_head].total_difficulty {
							m.header_head = *id;
						}
					}
				}
				if expect == "orphan" {
					self.models[n].orphans.insert(*id);
					self.probe("orphaned");
				}
				if expect == "refuse-duplicate" {
					self.probe("duplicate_refused");
				}
				let accepted_ids = self.absorb_events(n)?;
				if self.oracles.head && !below_tail {
					let ok = res.is_ok();
					if (expect == "accept") != ok {
						return Err(self.viol(
							if ok { "unexpected-accept" } else { "valid-block-refused" },
							format!("node {} block #{} (h{}): result {} but model expects {}", n, id, self.world.blocks[*id].height, cls, expect),
						));
					}
					if ok && accepted_ids.first() != Some(id) {
						return Err(self.viol(
							"accept-without-event",
							format!("node {} block #{} returned {} but the adapter saw {:?}", n, id, cls, accepted_ids),
						));
					}
					if expect == "orphan" && cls != "Orphan" {
						return Err(self.viol(
							"orphan-result",
							format!("node {} block #{}: expected Orphan, got {}", n, id, cls),
						));
					}
				}
				if accepted_ids.len() > 1 {
					self.probe("orphans_adopted");
				}
				Ok(format!("{}[{}]", cls, self.last_events.join(",")))
			}
			Op::Bad { bad, .. } => {
				let bb = &self.world.bad[*bad];
				let res = self.nodes[n].chain().process_block(bb.block.clone(), opts);
				let cls = match &res {
					Ok(_) => "ACCEPTED".to_string(),
					Err(e) => err_class(e),
				};
				let evs = self.nodes[n].take_events();
				if self.oracles.reject_bad && (res.is_ok() || !evs.is_empty()) {
					return Err(self.viol(
						&format!("bad-accepted:{}", bb.kind),
						format!("node {} accepted an invalid block ({}) on parent #{}", n, bb.kind, bb.parent),
					));
				}
				*self.faults.entry(format!("bad:{}", bb.kind)).or_insert(0) += 1;
				let kind = bb.kind.clone();
				let (hash, header_bad) = (bb.hash, bb.header_bad);
				self.after_bad(n, hash, header_bad, &kind)?;
				Ok(format!("bad[{}]:{}", kind, cls))
			}
			Op::BadWithGhosts { bad, .. } => {
				let bb = &self.world.bad[*bad];
				let res = self.nodes[n].chain().process_block(bb.block.clone(), opts);
				let cls = match &res {
					Ok(_) => "ACCEPTED".to_string(),
					Err(e) => err_class(e),
				};
				let evs = self.nodes[n].take_events();
				if self.oracles.reject_bad && (res.is_ok() || !evs.is_empty()) {
					return Err(self.viol(
						&format!("bad-accepted:{}", bb.kind),
						format!("node {} accepted an invalid block ({}) on parent #{}", n, bb.kind, bb.parent),
					));
				}
				let kind = bb.kind.clone();
				let (hash, header_bad) = (bb.hash, bb.header_bad);
				let ghosts = bb.ghosts.clone();
				let mut taken = 0;
				for g in &ghosts {
					if self.nodes[n].chain().process_block_header(g, opts).is_ok() {
						taken += 1;
					}
				}
				if taken > 0 {
					self.allow_hh_div[n] = true;
					self.probe("ghost_headers_accepted");
				}
				*self.faults.entry(format!("bad+ghosts:{}", kind)).or_insert(0) += 1;
				self.after_bad(n, hash, header_bad, &kind)?;
				Ok(format!("bad+ghosts[{}]:{}+{}", kind, cls, taken))
			}
			Op::BadHeader { bad, .. } => {
				let bb = &self.world.bad[*bad];
				let res = self.nodes[n].chain().process_block_header(&bb.block.header, opts);
				let cls = match &res {
					Ok(_) => "ACCEPTED".to_string(),
					Err(e) => err_class(e),
				};
				let kind = bb.kind.clone();
				let (hash, header_bad) = (bb.hash, bb.header_bad);
				if std::env::var("VERIF_DEBUG").is_ok() {
					let h = &bb.block.header;
					eprintln!(
						"  bad header kind {} h{} edge_bits {} nonces {} verify_size {:?} parent #{} result {}",
						kind,
						h.height,
						h.pow.edge_bits(),
						h.pow.proof.nonces.len(),
						grin_core::pow::verify_size(h).map_err(|e| format!("{:?}", e)),
						bb.parent,
						cls
					);
				}
				let twin_known = self.world.bad[*bad].twin_of.map(|t| self.models[n].headers.contains(&t) || self.models[n].accepted.contains(&t)).unwrap_or(false);
				if self.oracles.reject_bad && header_bad && res.is_ok() && !twin_known {
					return Err(self.viol(
						&format!("bad-header-accepted:{}", kind),
						format!("node {} accepted an invalid header ({}) on parent #{} through process_block_header", n, kind, self.world.bad[*bad].parent),
					));
				}
				*self.faults.entry(format!("badhdr:{}", kind)).or_insert(0) += 1;
				self.after_bad(n, hash, header_bad, &kind)?;
				Ok(format!("badhdr[{}]:{}", kind, cls))
			}
			Op::BadBatch { ids, bad, .. } => {
				let bb = &self.world.bad[*bad];
				let mut hs: Vec<BlockHeader> = ids.iter().map(|i| self.world.blocks[*i].block.header.clone()).collect();
				hs.push(bb.block.header.clone());
				let sync_head = match self.nodes[n].chain().header_head() {
					Ok(t) => t,
					Err(e) => return Err(self.viol("header-head-error", format!("{:?}", e))),
				};
				let res = self.nodes[n].chain().sync_block_headers(&hs, sync_head, opts);
				let cls = match &res {
					Ok(_) => "ACCEPTED".to_string(),
					Err(e) => err_class(e),
				};
				let kind = bb.kind.clone();
				let (hash, header_bad) = (bb.hash, bb.header_bad);
				if std::env::var("VERIF_DEBUG").is_ok() {
					let h = &bb.block.header;
					eprintln!(
						"  bad batch: last header kind {} h{} edge_bits {} verify_size {:?} parent #{} known-before {} result {}",
						kind,
						h.height,
						h.pow.edge_bits(),
						grin_core::pow::verify_size(h).map_err(|e| format!("{:?}", e)),
						bb.parent,
						self.models[n].headers.contains(&bb.parent),
						cls
					);
				}
				let twin_known = self.world.bad[*bad].twin_of.map(|t| self.models[n].headers.contains(&t) || self.models[n].accepted.contains(&t)).unwrap_or(false);
				if self.oracles.reject_bad && header_bad && res.is_ok() && !twin_known {
					return Err(self.viol(
						&format!("bad-header-batch-accepted:{}", kind),
						format!("node {} accepted a header batch whose last header is invalid ({})", n, kind),
					));
				}
				if res.is_ok() {
					// (only reachable for valid headers of invalid blocks, or for a batch that ends in a
					// header the node already has and is waved through unread) what is stored is known
					for i in ids {
						if self.nodes[n].chain().get_block_header(&self.world.blocks[*i].hash).is_ok() {
							self.models[n].headers.insert(*i);
						}
					}
				} else if self.oracles.reject_bad || self.oracles.twin {
					// the whole batch must have been rolled back: no new header of it is stored
					for i in ids {
						if !self.models[n].headers.contains(i) {
							let h = self.world.blocks[*i].hash;
							if self.nodes[n].chain().get_block_header(&h).is_ok() {
								return Err(self.viol(
									&format!("failed-batch-left-headers:{}", kind),
									format!("node {} kept header #{} of a header batch that failed ({})", n, i, kind),
								));
							}
						}
					}
				}
				*self.faults.entry(format!("badbatch:{}", kind)).or_insert(0) += 1;
				self.after_bad(n, hash, header_bad, &kind)?;
				Ok(format!("badbatch[{}]:{}", kind, cls))
			}
			Op::Restart { .. } => {
				let before = self.nodes[n].digest().ok();
				if let Err(e) = self.nodes[n].restart() {
					return Err(self.viol("restart-failed", format!("node {} Chain::init after clean stop failed: {:?}", n, e)));
				}
				self.models[n].orphans.clear();
				let after = self.nodes[n].digest().ok();
				self.fault("clean_restart");
				if (self.oracles.stable_ops || self.oracles.head || self.oracles.utxo || self.oracles.bitmap) && before != after {
					return Err(self.viol(
						"restart-changed-state",
						format!("node {} state changed across a clean restart: {:?} -> {:?}", n, before.map(|d| d.short()), after.map(|d| d.short())),
					));
				}
				Ok("restarted".into())
			}
			Op::Compact { .. } => {
				let before = self.nodes[n].digest().ok();
				let res = self.nodes[n].chain().compact();
				if let Err(e) = res {
					return Err(self.viol("compact-failed", format!("node {} compact failed: {:?}", n, e)));
				}
				let after = self.nodes[n].digest().ok();
				self.fault("compact");
				if let Ok(t) = self.nodes[n].chain().tail() {
					if t.height > self.models[n].tail_height {
						self.probe("compaction_moved_tail");
						// did the head block at compaction time complete a spent sibling pair below the horizon?
						let h = self.models[n].head;
						if let Some(p) = self.world.blocks[h].parent {
							let before = &self.world.blocks[p].ledger;
							let after = &self.world.blocks[h].ledger;
							let live: BTreeSet<u64> = after.values().map(|o| o.leaf).collect();
							let hh = self.world.blocks[h].height;
							let hit = before.values().any(|o| !after.contains_key(&crate::world::ckey(&o.commit)) && !live.contains(&(o.leaf ^ 1)) && o.height + 20 < hh);
							if hit {
								self.probe("compaction_head_completes_spent_pair");
							}
						}
					}
					self.models[n].tail_height = t.height;
				}
				if before != after {
					return Err(self.viol(
						"compact-changed-state",
						format!("node {} state changed across compact(): {:?} -> {:?}", n, before.map(|d| d.short()), after.map(|d| d.short())),
					));
				}
				Ok("compacted".into())
			}
			Op::Validate { fast, .. } => {
				let res = self.nodes[n].chain().validate(*fast);
				match res {
					Ok(_) => Ok("valid".into()),
					Err(e) => Err(self.viol(
						"validate-failed",
						format!("node {} Chain::validate(fast={}) failed: {:?}", n, fast, e),
					)),
				}
			}
			Op::Sweep { .. } => {
				// deliver, parents first, everything the node has not accepted
				let mut delivered = 0;
				for id in 1..self.world.blocks.len() {
					if self.models[n].accepted.contains(&id) {
						continue;
					}
					if self.world.blocks[id].height <= self.models[n].tail_height && self.models[n].tail_height > 0 {
						continue;
					}
					let sub = Op::Block { node: n, id };
					self.exec_on(n, &sub)?;
					delivered += 1;
				}
				Ok(format!("swept {}", delivered))
			}
		}
	}

	/// Execute an op (and mirror it to the twin unless it is a byzantine input).
	pub fn exec(&mut self, op: &Op) -> Result<(), Violation> {
		self.step += 1;
		let n = op.node();
		if n >= self.n_nodes {
			return Ok(());
		}
		let pre = if self.oracles.twin { self.nodes[n].digest().ok() } else { None };
		let is_bad = matches!(op, Op::Bad { .. } | Op::BadHeader { .. } | Op::BadBatch { .. } | Op::BadWithGhosts { .. });
		let pre_view = if self.oracles.twin && is_bad {
			self.nodes[n].unspent_view(&self.commits).ok()
		} else {
			None
		};
		let r = self.exec_on(n, op)?;
		let d = self.check_node(n)?;
		self.logline(op, &r, &d);
		if self.twin {
			let t = n + self.n_nodes;
			if is_bad {
				let bad = match op {
					Op::Bad { bad, .. } | Op::BadHeader { bad, .. } | Op::BadBatch { bad, .. } | Op::BadWithGhosts { bad, .. } => bad,
					_ => unreachable!(),
				};
				// C06: the failed call left the best-chain state untouched
				if self.oracles.twin {
					let bb = &self.world.bad[*bad];
					let pre = pre.unwrap();
					let mut same = pre.same_body(&d);
					// a header that is itself valid may be remembered
					if bb.header_bad && pre.header_head != d.header_head {
						same = false;
					}
					if !same {
						return Err(self.viol(
							&format!("rejected-input-changed-state:{}", bb.kind),
							format!("node {} state changed by a rejected input ({}): {} -> {}", n, bb.kind, pre.short(), d.short()),
						));
					}
					if r.contains("ACCEPTED") {
						if let Op::BadBatch { ids, .. } = op {
							// the batch carried a valid header of an invalid block and was accepted as
							// headers: let the twin learn the honest prefix too
							if !ids.is_empty() {
								let sub = Op::HeaderBatch { node: t, ids: ids.clone() };
								self.exec_on(t, &sub)?;
							}
						}
					}
					let post_view = self.nodes[n].unspent_view(&self.commits).ok();
					if pre_view != post_view {
						return Err(self.viol(
							&format!("rejected-input-changed-utxo:{}", bb.kind),
							format!("node {} unspent view changed by a rejected input ({})", n, bb.kind),
						));
					}
				}
			} else {
				// mirror to the twin, then compare result class and digests
				let r2 = self.exec_on(t, op)?;
				let d2 = self.check_node(t)?;
				if self.oracles.twin {
					let hh_ok = d.header_head == d2.header_head || self.allow_hh_div[n];
					if r.replace('R', "N") != r2.replace('R', "N") || !d.same_body(&d2) || !hh_ok {
						return Err(self.viol(
							"twin-divergence",
							format!(
								"node {} and its twin (which never saw the rejected inputs) diverge on {:?}: {} / {} vs {} / {}",
								n, op, r, d.short(), r2, d2.short()
							),
						));
					}
				}
			}
		}
		Ok(())
	}

}

/// Execute a whole op list on fresh nodes; returns the outcome (first violation stops the run).
pub fn run_ops(
	world: &World,
	property: &str,
	oracles: &Oracles,
	n_nodes: usize,
	twin: bool,
	ops: &[Op],
	final_checks: bool,
	dir_tag: &str,
	reorders: u64,
	acc: Option<&mut CaseResult>,
) -> RunOutcome {
	let mut sim = ChainSim::new(world, property, oracles.clone(), n_nodes, twin, dir_tag);
	sim.reorders = reorders;
	let mut violation = None;
	for (i, op) in ops.iter().enumerate() {
		if let Err(v) = sim.exec(op) {
			violation = Some((i, v));
			break;
		}
	}
	if violation.is_none() && final_checks {
		if let Err(v) = final_state_checks(&mut sim) {
			violation = Some((ops.len(), v));
		}
	}
	let digest = fnv64(sim.log.join("\n").as_bytes());
	let out = RunOutcome {
		log_digest: digest,
		steps: sim.step,
		nontrivial: sim.reorders > 0 || !sim.faults.is_empty() || sim.probes.get("orphaned").is_some() || sim.probes.get("reorg").is_some(),
		violation,
		log: sim.log.clone(),
	};
	if let Some(acc) = acc {
		for (k, v) in &sim.faults {
			acc.fault_n(k, *v);
		}
		for (k, v) in &sim.probes {
			acc.probe_n(k, *v);
		}
		for s in &sim.states {
			acc.states.insert(*s);
		}
	}
	sim.destroy();
	out
}

/// Quiescence checks: every replica swept, same head/roots as the reference node fed the
/// winning chain alone, full validation.
fn final_state_checks(sim: &mut ChainSim) -> Result<(), Violation> {
	let world = sim.world;
	let total = sim.nodes.len();
	for n in 0..total {
		sim.step += 1;
		sim.exec_on(n, &Op::Sweep { node: n })?;
		sim.check_node(n)?;
	}
	let winner = world.winner();
	// reference node: winning chain only, in order
	let mut reference = Node::create(&format!("{}-ref", sim.dir_tag), world.genesis.clone());
	for id in world.path_to(winner) {
		if let Err(e) = reference.chain().process_block(world.blocks[id].block.clone(), world.opts) {
			reference.destroy();
			return Err(sim.viol(
				"reference-refused",
				format!("reference node refused winning-chain block #{}: {:?}", id, e),
			));
		}
	}
	let rd = reference.digest();
	reference.destroy();
	let rd = match rd {
		Ok(d) => d,
		Err(e) => return Err(sim.viol("reference-digest", format!("{:?}", e))),
	};
	for n in 0..total {
		let d = sim.check_node(n)?;
		let compacted = sim.models[n].tail_height > 0;
		if sim.oracles.head || sim.oracles.utxo || sim.oracles.stable_ops || sim.oracles.bitmap {
			let all_in = (1..world.blocks.len()).all(|i| sim.models[n].accepted.contains(&i));
			if d.head != world.blocks[winner].hash && (!compacted || all_in) {
				return Err(sim.viol(
					"final-head-not-winner",
					format!("node {} finished on {}@{} but the unique most-work block is #{} {}@{}", n, d.head, d.head_height, winner, world.blocks[winner].hash, world.blocks[winner].height),
				));
			}
			if d.head == rd.head && !d.same_body(&rd) {
				return Err(sim.viol(
					"final-roots-differ",
					format!("node {} has the winning head but state differs from a node that applied the winning chain alone: {} vs {}", n, d.short(), rd.short()),
				));
			}
		}
		if sim.oracles.head || sim.oracles.sums || sim.oracles.utxo || sim.oracles.stable_ops {
			if let Err(e) = sim.nodes[n].chain().validate(false) {
				return Err(sim.viol(
					"final-validate-failed",
					format!("node {} Chain::validate(false) failed at quiescence: {:?}", n, e),
				));
			}
		}
	}
	Ok(())
}

// ---------------------------------------------------------------------------------------------
// schedule generation

#[derive(Clone, Debug)]
pub struct SchedCfg {
	pub n_nodes: usize,
	pub headers_first: bool,
	pub header_batches: bool,
	pub dup_pct: u64,
	pub restart_pct: u64,
	pub validate_pct: u64,
	pub bad_pct: u64,
	pub compact_pct: u64,
	/// place exactly one compaction right after a trunk block delivered within the last 8 heights
	pub compact_once_near_tip: bool,
	/// window (in blocks) within which body deliveries are shuffled; 0 = full permutation
	pub shuffle_window: usize,
	/// deliver the trunk's bodies first and the side branches afterwards (a fork that shows up
	/// when the head is already far ahead of its fork point)
	pub side_branches_last: bool,
	/// rejected blocks that carry a header-only fork are delivered (with that fork) right after
	/// their parent, before the honest chain has grown past them
	pub ghosts_early: bool,
}

impl SchedCfg {
	pub fn draw(rng: &mut SimRng) -> SchedCfg {
		SchedCfg {
			n_nodes: rng.range(1, 3) as usize,
			headers_first: rng.chance(7, 10),
			header_batches: rng.chance(1, 2),
			dup_pct: *rng.pick(&[0, 5, 15, 30]),
			restart_pct: *rng.pick(&[0, 0, 3, 8]),
			validate_pct: *rng.pick(&[0, 5, 10]),
			bad_pct: 0,
			compact_pct: 0,
			compact_once_near_tip: false,
			shuffle_window: *rng.pick(&[0, 0, 4, 8]),
			side_branches_last: false,
			ghosts_early: false,
		}
	}
}

/// A random topological order of the honest blocks (parents before children), branches interleaved.
pub fn topo_order(world: &World, rng: &mut SimRng) -> Vec<usize> {
	let n = world.blocks.len();
	let mut done = vec![false; n];
	done[0] = true;
	let mut order = vec![];
	let mut ready: Vec<usize> = (1..n).filter(|i| world.blocks[*i].parent == Some(0)).collect();
	while !ready.is_empty() {
		let k = rng.usize_below(ready.len());
		let id = ready.swap_remove(k);
		done[id] = true;
		order.push(id);
		for c in 1..n {
			if world.blocks[c].parent == Some(id) {
				ready.push(c);
			}
		}
		ready.sort();
	}
	order
}

/// Generate the op list of one run.
pub fn gen_schedule(world: &World, cfg: &SchedCfg, rng: &mut SimRng) -> (Vec<Op>, u64) {
	let mut ops = vec![];
	let mut reorders = 0u64;
	for node in 0..cfg.n_nodes {
		let topo = topo_order(world, rng);
		if cfg.headers_first {
			if cfg.header_batches {
				// batches along parent links, as header sync would send them
				let mut sent = BTreeSet::new();
				sent.insert(0usize);
				for id in &topo {
					if sent.contains(id) {
						continue;
					}
					// extend a chain starting at id while children follow
					let mut chain = vec![*id];
					sent.insert(*id);
					let max_len = rng.range(1, 6) as usize;
					loop {
						if chain.len() >= max_len {
							break;
						}
						let last = *chain.last().unwrap();
						let kids: Vec<usize> = (1..world.blocks.len())
							.filter(|c| world.blocks[*c].parent == Some(last) && !sent.contains(c))
							.collect();
						if kids.is_empty() {
							break;
						}
						let k = *rng.pick(&kids);
						// only continue if k's turn in topo is not before something unsent it needs (always true: parent = last)
						chain.push(k);
						sent.insert(k);
					}
					if chain.len() == 1 && rng.chance(1, 2) {
						ops.push(Op::Header { node, id: chain[0] });
					} else {
						// peers answer from their own locator match: a batch often starts with one or two
						// headers the node already has
						if rng.chance(1, 3) {
							for _ in 0..rng.range(1, 2) {
								match world.blocks[chain[0]].parent {
									Some(p) if p != 0 => chain.insert(0, p),
									_ => break,
								}
							}
						}
						ops.push(Op::HeaderBatch { node, ids: chain });
					}
				}
			} else {
				for id in &topo {
					ops.push(Op::Header { node, id: *id });
				}
			}
		}
		// bodies
		let mut bodies: Vec<usize> = topo.clone();
		if cfg.headers_first {
			if cfg.shuffle_window == 0 {
				rng.shuffle(&mut bodies);
			} else {
				let w = cfg.shuffle_window;
				let mut i = 0;
				while i < bodies.len() {
					let e = (i + w).min(bodies.len());
					rng.shuffle(&mut bodies[i..e]);
					i = e;
				}
			}
		} else {
			// no headers first: mostly parents first, a few swapped neighbours
			for i in 1..bodies.len() {
				if rng.chance(1, 6) {
					bodies.swap(i - 1, i);
				}
			}
		}
		if cfg.side_branches_last {
			let (trunk, side): (Vec<usize>, Vec<usize>) = bodies.iter().partition(|id| world.blocks[**id].branch == 0);
			bodies = trunk;
			bodies.extend(side);
		}
		for (i, id) in bodies.iter().enumerate() {
			if i > 0 && *id < bodies[i - 1] {
				reorders += 1;
			}
		}
		let mut seq: Vec<Op> = vec![];
		let mut bad_done: BTreeSet<usize> = BTreeSet::new();
		let compact_after: Option<usize> = if cfg.compact_once_near_tip {
			let tip_h = world.blocks.iter().filter(|b| b.branch == 0).map(|b| b.height).max().unwrap_or(0);
			let zone: Vec<usize> = world.blocks.iter().filter(|b| b.branch == 0 && b.height + 8 >= tip_h && b.height >= 81).map(|b| b.id).collect();
			if zone.is_empty() { None } else { Some(*rng.pick(&zone)) }
		} else {
			None
		};
		for id in &bodies {
			seq.push(Op::Block { node, id: *id });
			if compact_after == Some(*id) {
				seq.push(Op::Compact { node });
			}
			if rng.chance(cfg.dup_pct, 100) {
				// duplicate of a random already-scheduled body
				let k = rng.usize_below(seq.len());
				if let Op::Block { id: did, .. } = seq[k].clone() {
					seq.push(Op::Block { node, id: did });
				}
			}
			if cfg.bad_pct > 0 {
				for (bi, bb) in world.bad.iter().enumerate() {
					if bb.parent == *id && cfg.ghosts_early && !bb.ghosts.is_empty() {
						seq.push(Op::BadWithGhosts { node, bad: bi });
						bad_done.insert(bi);
					} else if bb.parent == *id && rng.chance(cfg.bad_pct, 100) {
						seq.push(bad_op(world, node, bi, rng));
						bad_done.insert(bi);
					}
				}
			}
			if rng.chance(cfg.restart_pct, 100) {
				seq.push(Op::Restart { node });
			}
			if rng.chance(cfg.validate_pct, 100) {
				seq.push(Op::Validate { node, fast: rng.chance(2, 3) });
			}
			if rng.chance(cfg.compact_pct, 100) {
				seq.push(Op::Compact { node });
			}
		}
		if cfg.bad_pct > 0 && !world.bad.is_empty() {
			// everything is in place after a sweep: deliver every byzantine input (again)
			seq.push(Op::Sweep { node });
			let mut order: Vec<usize> = (0..world.bad.len()).collect();
			rng.shuffle(&mut order);
			for bi in order {
				if bad_done.contains(&bi) && rng.chance(1, 2) {
					continue;
				}
				seq.push(bad_op(world, node, bi, rng));
				if rng.chance(cfg.restart_pct, 100) {
					seq.push(Op::Restart { node });
				}
			}
			// and some honest traffic afterwards, so that residue of a failed call would show
			for _ in 0..3 {
				let id = 1 + rng.usize_below(world.blocks.len() - 1);
				seq.push(Op::Block { node, id });
			}
		}
		ops.extend(seq);
	}
	(ops, reorders)
}

/// One way of delivering byzantine block `bi`: full block, header alone, or at the end of a header batch.
fn bad_op(world: &World, node: usize, bi: usize, rng: &mut SimRng) -> Op {
	let bb = &world.bad[bi];
	if !bb.ghosts.is_empty() && rng.chance(2, 3) {
		return Op::BadWithGhosts { node, bad: bi };
	}
	match rng.below(if bb.header_bad { 4 } else { 6 }) {
		0 | 4 | 5 => Op::Bad { node, bad: bi },
		1 => Op::BadHeader { node, bad: bi },
		2 => {
			let mut ids = vec![];
			let mut cur = bb.parent;
			// sometimes the headers in front of the bad one do not lead to it: the chunk ends in a
			// sibling of its real parent (every header must be judged against the header it extends,
			// not against its neighbour in the chunk)
			if rng.chance(1, 3) {
				let pp = world.blocks[bb.parent].parent;
				let sibs: Vec<usize> = world.blocks.iter().filter(|b| b.id != bb.parent && b.id != 0 && b.parent == pp).map(|b| b.id).collect();
				if !sibs.is_empty() {
					cur = *rng.pick(&sibs);
				}
			}
			let n = if cur != bb.parent { rng.range(1, 3) } else { rng.range(0, 3) };
			for _ in 0..n {
				if cur == 0 {
					break;
				}
				ids.push(cur);
				cur = world.blocks[cur].parent.unwrap_or(0);
			}
			ids.reverse();
			Op::BadBatch { node, ids, bad: bi }
		}
		_ => Op::Bad { node, bad: bi },
	}
}

pub fn ops_to_json(ops: &[Op]) -> Value {
	serde_json::to_value(ops).unwrap_or(Value::Null)
}

pub fn ops_from_json(v: &Value) -> Vec<Op> {
	serde_json::from_value(v.clone()).unwrap_or_default()
}

#[allow(dead_code)]
pub fn sample_of(ops: &[Op], max: usize) -> Value {
	let v: Vec<String> = ops.iter().take(max).map(|o| format!("{:?}", o)).collect();
	json!(v)
}
