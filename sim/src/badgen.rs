//! Byzantine inputs: blocks that are invalid for exactly one reason. Each is built on an honest
//! parent, re-rooted on the builder node where the block can be applied at all, and re-mined, so
//! that it is refused for the targeted reason and not for PoW or roots.

use crate::rng::SimRng;
use crate::world::{ckey, BadBlock, OutInfo, World};
use grin_core::consensus;
use grin_core::core::hash::{Hash, Hashed};
use grin_core::core::{
	Block, FeeFields, HeaderVersion, KernelFeatures, NRDRelativeHeight, OutputFeatures, Transaction,
};
use grin_core::global;
use grin_core::libtx;
use grin_core::pow::Difficulty;
use grin_keychain::{ExtKeychainPath, Keychain};

pub const C02_KINDS: &[&str] = &[
	"double-spend",
	"never-created",
	"fork-foreign",
	"dup-unspent-commit",
	"spend-own-output-twice",
];
pub const C01_KINDS: &[&str] = &[
	"coinbase-inflated",
	"tx-creates-value",
	"fee-changed-unsigned",
	"fee-changed-resigned",
	"offset-changed",
	"kernel-dropped",
	"kernel-foreign",
	"coinbase-flag-output",
	"coinbase-flag-kernel",
	"proof-swapped",
	"sig-swapped",
	"amount-changed-reproved",
	"coinbase-kernel-bad-signature",
	"coinbase-inflated-excess-adjusted",
	"hdr-offset-zero",
	"hdr-offset-random",
	"coinbase-foreign-proof",
	"coinbase-garbage-proof",
];
pub const C13_KINDS: &[&str] = &["immature-coinbase", "immature-with-mature-coinbase", "lock-height-future", "nrd-too-recent"];
pub const C04_KINDS: &[&str] = &[
	"hdr-height+1",
	"hdr-height-1",
	"hdr-time-equal",
	"hdr-time-before",
	"hdr-version",
	"hdr-prev-root",
	"hdr-total-difficulty+1",
	"hdr-total-difficulty-1",
	"hdr-secondary-scaling",
	"hdr-nonce-unmined",
	"hdr-edge-bits",
	"hdr-proof-nonce",
	"hdr-proof-unsorted",
	"hdr-output-mmr-zero-growth",
	"hdr-kernel-mmr-zero-growth",
	"hdr-output-mmr-overweight",
	"known-alt-timestamp",
	"known-alt-prev-root",
];
pub const C15_KINDS: &[&str] = &["bitmap-bit-flipped"];
pub const LATE_KINDS: &[&str] = &[
	"late-output-root",
	"late-rproof-root",
	"late-kernel-root",
	"late-output-mmr-size",
	"late-kernel-mmr-size",
];

fn fee_of(n_in: usize, n_out: usize) -> u64 {
	libtx::tx_fee(n_in, n_out, 1)
}

impl World {
	fn push_bad(&mut self, parent: usize, block: Block, kind: &str, header_bad: bool) -> usize {
		let hash = block.hash();
		self.bad.push(BadBlock {
			parent,
			block,
			hash,
			kind: kind.to_string(),
			header_bad,
			twin_of: None,
			ghosts: vec![],
		});
		self.bad.len() - 1
	}

	/// Candidate parents: any honest block (prefer recent heights so that outputs exist).
	fn pick_parent(&mut self, min_height: u64) -> Option<usize> {
		let c: Vec<usize> = self
			.blocks
			.iter()
			.filter(|b| b.height >= min_height)
			.map(|b| b.id)
			.collect();
		if c.is_empty() {
			None
		} else {
			Some(*self.rng.pick(&c))
		}
	}

	/// Build a block on `parent` from explicit txs with an honest coinbase for their fees.
	fn block_from_txs(&mut self, parent: usize, txs: &[Transaction], must_root: bool) -> Option<Block> {
		let height = self.blocks[parent].height + 1;
		let fees: u64 = txs.iter().map(|t| t.fee()).sum();
		let (out, kern, _) = self.wallet.coinbase(fees, height);
		let dt = self.draw_dt();
		let fd = self.draw_free_diff();
		let (mut b, diff) = self.pre_block(parent, txs, dt, fd, out, kern).ok()?;
		self.root_and_mine(&mut b, diff, must_root).ok()?;
		Some(b)
	}

	/// Simple 1-in/1-out plain transaction spending `input`.
	fn simple_spend(&mut self, input: &OutInfo, features: Option<KernelFeatures>) -> Option<Transaction> {
		let fee = fee_of(1, 1);
		if input.value <= fee {
			return None;
		}
		let f = features.unwrap_or(KernelFeatures::Plain {
			fee: FeeFields::new(0, fee).ok()?,
		});
		let (tx, _) = self.wallet.build_tx(&[input.clone()], &[input.value - fee], None, f);
		Some(tx)
	}

	/// A mature, currently unspent output on `parent`'s chain.
	fn some_spendable(&mut self, parent: usize) -> Option<OutInfo> {
		let height = self.blocks[parent].height + 1;
		let pool = World::spendable(&self.blocks[parent].ledger, height);
		if pool.is_empty() {
			None
		} else {
			Some(self.rng.pick(&pool).clone())
		}
	}

	pub fn gen_bad_kind(&mut self, kind: &str) -> Option<usize> {
		match kind {
			// ---------------------------------------------------------------- C02
			"double-spend" => {
				// an output spent by an ancestor of the parent
				let parent = self.pick_parent(4)?;
				let ledger = self.blocks[parent].ledger.clone();
				let path = self.path_to(parent);
				let mut created_on_path: Vec<OutInfo> = vec![];
				for id in &path {
					for o in self.blocks[*id].block.outputs() {
						let k = ckey(&o.commitment());
						if !ledger.contains_key(&k) {
							if let Some(i) = self.wallet.known.get(&k) {
								let mut i = i.clone();
								i.coinbase = o.is_coinbase();
								created_on_path.push(i);
							}
						}
					}
				}
				// genesis output may have been spent too
				if created_on_path.is_empty() {
					return None;
				}
				let x = self.rng.pick(&created_on_path).clone();
				let tx = self.simple_spend(&x, None)?;
				let b = self.block_from_txs(parent, &[tx], false)?;
				Some(self.push_bad(parent, b, kind, false))
			}
			"never-created" => {
				let parent = self.pick_parent(1)?;
				let key_id = self.wallet.fresh_key();
				let value = self.rng.range(1_000_000_000, 50_000_000_000);
				let fake = OutInfo {
					commit: self.wallet.commit(value, &key_id),
					value,
					key_id,
					coinbase: false,
					height: 0,
					leaf: 0,
				};
				self.wallet.known.insert(ckey(&fake.commit), fake.clone());
				let tx = self.simple_spend(&fake, None)?;
				let b = self.block_from_txs(parent, &[tx], false)?;
				Some(self.push_bad(parent, b, kind, false))
			}
			"fork-foreign" => {
				// an output that exists (unspent) on another branch only
				let parent = self.pick_parent(3)?;
				let path: std::collections::BTreeSet<usize> = self.path_to(parent).into_iter().collect();
				let mut cands: Vec<OutInfo> = vec![];
				for b in &self.blocks {
					if path.contains(&b.id) || b.id == 0 || self.is_ancestor(parent, b.id) {
						continue;
					}
					for o in b.block.outputs() {
						let k = ckey(&o.commitment());
						// never created on the parent's own chain
						let on_path = path.iter().any(|id| {
							self.blocks[*id].block.outputs().iter().any(|x| ckey(&x.commitment()) == k)
						});
						if !on_path && !o.is_coinbase() {
							if let Some(i) = self.wallet.known.get(&k) {
								cands.push(i.clone());
							}
						}
					}
				}
				if cands.is_empty() {
					return None;
				}
				let x = self.rng.pick(&cands).clone();
				let tx = self.simple_spend(&x, None)?;
				let b = self.block_from_txs(parent, &[tx], false)?;
				Some(self.push_bad(parent, b, kind, false))
			}
			"dup-unspent-commit" => {
				// create an output whose commitment equals one that is currently unspent
				let parent = self.pick_parent(4)?;
				let height = self.blocks[parent].height + 1;
				let ledger = self.blocks[parent].ledger.clone();
				let plain: Vec<OutInfo> = ledger.values().filter(|o| !o.coinbase).cloned().collect();
				if plain.is_empty() {
					return None;
				}
				let target = self.rng.pick(&plain).clone();
				// find inputs worth at least target.value + fee
				let mut pool = World::spendable(&ledger, height);
				pool.retain(|o| o.commit != target.commit);
				self.rng.shuffle(&mut pool);
				let mut ins = vec![];
				let mut total = 0u64;
				while total < target.value + fee_of(2, 2) + 1 {
					let o = pool.pop()?;
					total += o.value;
					ins.push(o);
					if ins.len() > 3 {
						return None;
					}
				}
				let fee = fee_of(ins.len(), 2);
				let change = total - target.value - fee;
				let k2 = self.wallet.fresh_key();
				let (tx, _) = self.wallet.build_tx(
					&ins,
					&[target.value, change],
					Some(vec![target.key_id.clone(), k2]),
					KernelFeatures::Plain {
						fee: FeeFields::new(0, fee).ok()?,
					},
				);
				let b = self.block_from_txs(parent, &[tx], false)?;
				Some(self.push_bad(parent, b, kind, false))
			}
			"spend-own-output-twice" => {
				// two blocks in a row spending the same output: the second one is bad. Built as one
				// bad block on top of an honest world block that already spent the output.
				let parent = self.pick_parent(4)?;
				let pp = self.blocks[parent].parent?;
				let before = self.blocks[pp].ledger.clone();
				let after = self.blocks[parent].ledger.clone();
				let spent: Vec<OutInfo> = before
					.values()
					.filter(|o| !after.contains_key(&ckey(&o.commit)))
					.cloned()
					.collect();
				if spent.is_empty() {
					return None;
				}
				let x = self.rng.pick(&spent).clone();
				let tx = self.simple_spend(&x, None)?;
				let b = self.block_from_txs(parent, &[tx], false)?;
				Some(self.push_bad(parent, b, kind, false))
			}
			// ---------------------------------------------------------------- C13
			"immature-coinbase" => {
				// spend a coinbase one block before it matures (and sometimes two)
				let maturity = global::coinbase_maturity();
				let parent = self.pick_parent(1)?;
				let height = self.blocks[parent].height + 1;
				let ledger = self.blocks[parent].ledger.clone();
				let early = if self.rng.chance(3, 4) { 1 } else { 2 };
				let cands: Vec<OutInfo> = ledger
					.values()
					.filter(|o| o.coinbase && o.height + maturity == height + early)
					.cloned()
					.collect();
				if cands.is_empty() {
					return None;
				}
				let x = self.rng.pick(&cands).clone();
				let tx = self.simple_spend(&x, None)?;
				let b = self.block_from_txs(parent, &[tx], true)?;
				Some(self.push_bad(parent, b, kind, false))
			}
			"immature-with-mature-coinbase" => {
				// one transaction spending an immature coinbase together with a mature one: the decision
				// must not depend on which of the two comes last in the (commitment-sorted) input list
				let maturity = global::coinbase_maturity();
				let parent = self.pick_parent(maturity + 2)?;
				let height = self.blocks[parent].height + 1;
				let ledger = self.blocks[parent].ledger.clone();
				let young: Vec<OutInfo> = ledger.values().filter(|o| o.coinbase && o.height + maturity == height + 1).cloned().collect();
				let old: Vec<OutInfo> = ledger.values().filter(|o| o.coinbase && o.height + maturity <= height).cloned().collect();
				if young.is_empty() || old.is_empty() {
					return None;
				}
				let x = self.rng.pick(&young).clone();
				let y = self.rng.pick(&old).clone();
				let fee = fee_of(2, 1);
				let f = KernelFeatures::Plain { fee: FeeFields::new(0, fee).ok()? };
				let (tx, _) = self.wallet.build_tx(&[x.clone(), y.clone()], &[x.value + y.value - fee], None, f);
				let b = self.block_from_txs(parent, &[tx], true)?;
				Some(self.push_bad(parent, b, kind, false))
			}
			"lock-height-future" => {
				let parent = self.pick_parent(3)?;
				let height = self.blocks[parent].height + 1;
				let x = self.some_spendable(parent)?;
				let fee = fee_of(1, 1);
				let lh = height + if self.rng.chance(3, 4) { 1 } else { self.rng.range(2, 10) };
				let f = KernelFeatures::HeightLocked {
					fee: FeeFields::new(0, fee).ok()?,
					lock_height: lh,
				};
				let tx = self.simple_spend(&x, Some(f))?;
				let b = self.block_from_txs(parent, &[tx], true)?;
				Some(self.push_bad(parent, b, kind, false))
			}
			"nrd-too-recent" => {
				if !self.cfg.nrd {
					return None;
				}
				// a parent whose branch has an NRD excess at height p; new block at h with rh = h-p+1
				let cands: Vec<usize> = self
					.blocks
					.iter()
					.filter(|b| !b.nrd_last.is_empty() && consensus::header_version(b.height + 1) >= HeaderVersion(4))
					.map(|b| b.id)
					.collect();
				if cands.is_empty() {
					return None;
				}
				let parent = *self.rng.pick(&cands);
				let height = self.blocks[parent].height + 1;
				let nrd_last = self.blocks[parent].nrd_last.clone();
				let keys = self.nrd_keys.clone();
				let mut choice = None;
				for k in keys {
					let ex = ckey(&self.wallet.keychain.secp().commit(0, k.clone()).ok()?);
					if let Some(p) = nrd_last.get(&ex) {
						let dist = height - *p;
						if dist + 1 <= 1440 {
							choice = Some((k, dist + 1));
							if self.rng.chance(1, 2) {
								break;
							}
						}
					}
				}
				let (key, rh) = choice?;
				let x = self.some_spendable(parent)?;
				let fee = fee_of(1, 1);
				if x.value <= fee {
					return None;
				}
				let f = KernelFeatures::NoRecentDuplicate {
					fee: FeeFields::new(0, fee).ok()?,
					relative_height: NRDRelativeHeight::new(rh).ok()?,
				};
				let (tx, _, _) = self.wallet.build_tx_ex(&[x.clone()], &[x.value - fee], None, f, Some(key));
				let b = self.block_from_txs(parent, &[tx], false)?;
				Some(self.push_bad(parent, b, kind, false))
			}
			// ---------------------------------------------------------------- C01
			"hdr-offset-zero" | "hdr-offset-random" => self.gen_bad_offset(kind),
			"known-alt-timestamp" | "known-alt-prev-root" => self.gen_bad_known_altered(kind),
			k if C01_KINDS.contains(&k) => self.gen_bad_value(k),
			// ---------------------------------------------------------------- C04
			k if C04_KINDS.contains(&k) => self.gen_bad_header(k),
			k if LATE_KINDS.contains(&k) => self.gen_bad_late(k),
			"bitmap-bit-flipped" => self.gen_bad_bitmap(),
			_ => None,
		}
	}

	/// C01: single-field corruptions of the value equation.
	fn gen_bad_value(&mut self, kind: &str) -> Option<usize> {
		let parent = self.pick_parent(4)?;
		let height = self.blocks[parent].height + 1;
		let dt = self.draw_dt();
		let fd = self.draw_free_diff();
		// two independent simple spends to corrupt
		let ledger = self.blocks[parent].ledger.clone();
		let mut pool = World::spendable(&ledger, height);
		self.rng.shuffle(&mut pool);
		let a = pool.pop()?;
		let fee = fee_of(1, 2);
		if a.value < fee + 10 {
			return None;
		}
		let split = self.rng.range(1, a.value - fee - 1);
		let feat = KernelFeatures::Plain {
			fee: FeeFields::new(0, fee).ok()?,
		};
		let (mut tx1, _outs1, skey1) =
			self.wallet
				.build_tx_ex(&[a.clone()], &[split, a.value - fee - split], None, feat, None);
		let tx2 = match pool.pop() {
			Some(b2) => self.simple_spend(&b2, None),
			None => None,
		};
		let delta = self.rng.range(1, 1_000_000_000);
		let mut cb_fee_override: Option<u64> = None;
		match kind {
			"coinbase-inflated" | "coinbase-inflated-excess-adjusted" => {
				let fees: u64 = tx1.fee() + tx2.as_ref().map(|t| t.fee()).unwrap_or(0);
				cb_fee_override = Some(fees + delta);
			}
			"tx-creates-value" => {
				// same inputs, outputs worth delta more than inputs - fee
				let (t, _, _) = self.wallet.build_tx_ex(
					&[a.clone()],
					&[split + delta, a.value - fee - split],
					None,
					feat,
					None,
				);
				tx1 = t;
			}
			"amount-changed-reproved" => {
				// one output re-created for a different amount under the same key (valid proof)
				let (t, _, _) = self.wallet.build_tx_ex(
					&[a.clone()],
					&[split, a.value - fee - split],
					None,
					feat,
					None,
				);
				let mut t = t;
				let victim = t.body.outputs[0];
				let info = self.wallet.known.get(&ckey(&victim.commitment()))?.clone();
				let (t2, outs2, _) = self.wallet.build_tx_ex(&[], &[info.value + delta], Some(vec![info.key_id.clone()]), feat, None);
				let _ = outs2;
				t.body.outputs[0] = t2.body.outputs[0];
				t.body.sort();
				tx1 = t;
			}
			"fee-changed-unsigned" => {
				let nf = KernelFeatures::Plain {
					fee: FeeFields::new(0, fee + delta).ok()?,
				};
				tx1.body.kernels[0].features = nf;
			}
			"fee-changed-resigned" => {
				let nf = KernelFeatures::Plain {
					fee: FeeFields::new(0, fee + delta).ok()?,
				};
				let nonce = self.wallet.secret();
				let k = self.wallet.sign_kernel(nf, &skey1, &nonce);
				tx1.body.kernels[0] = k;
			}
			"offset-changed" => {
				let s = self.wallet.secret();
				tx1.offset = grin_keychain::BlindingFactor::from_secret_key(s);
			}
			"kernel-foreign" => {
				// replace the kernel by a valid kernel of some earlier honest transaction
				let mut found = None;
				for b in self.blocks.iter().rev() {
					for k in b.block.kernels() {
						if k.is_plain() {
							found = Some(*k);
							break;
						}
					}
					if found.is_some() {
						break;
					}
				}
				tx1.body.kernels[0] = found?;
			}
			_ => {}
		}
		let mut txs = vec![tx1.clone()];
		if let Some(t) = &tx2 {
			txs.push(t.clone());
		}
		let fees: u64 = txs.iter().map(|t| t.fee()).sum();
		let (out, kern, _) = self.wallet.coinbase(cb_fee_override.unwrap_or(fees), height);
		let (mut b, diff) = self.pre_block(parent, &txs, dt, fd, out, kern).ok()?;
		match kind {
			"kernel-dropped" => {
				let idx = b.body.kernels.iter().position(|k| !k.is_coinbase())?;
				b.body.kernels.remove(idx);
			}
			"coinbase-flag-output" => {
				// a plain output flagged as coinbase
				let idx = b.body.outputs.iter().position(|o| !o.is_coinbase())?;
				b.body.outputs[idx].identifier.features = OutputFeatures::Coinbase;
				b.body.sort();
			}
			"coinbase-flag-kernel" => {
				// the coinbase kernel flagged as a plain kernel (re-signed is impossible without
				// the key; the flag alone must already be refused)
				let idx = b.body.kernels.iter().position(|k| k.is_coinbase())?;
				b.body.kernels[idx].features = KernelFeatures::Plain {
					fee: FeeFields::new(0, 1).ok()?,
				};
				b.body.sort();
			}
			"proof-swapped" => {
				let n = b.body.outputs.len();
				if n < 2 {
					return None;
				}
				let p0 = b.body.outputs[0].proof;
				b.body.outputs[0].proof = b.body.outputs[1].proof;
				b.body.outputs[1].proof = p0;
			}
			"coinbase-foreign-proof" | "coinbase-garbage-proof" => {
				// every sum still holds and the coinbase amount equation is satisfied; the coinbase
				// output alone carries a range proof that does not belong to its commitment (the valid
				// proof of the parent block's coinbase output, or noise). A coinbase output is an output:
				// without a valid proof its commitment may hide any amount, negative ones included.
				let idx = b.body.outputs.iter().position(|o| o.is_coinbase())?;
				if kind == "coinbase-foreign-proof" {
					let donor = self.blocks[parent].block.outputs().iter().find(|o| o.is_coinbase())?.proof;
					b.body.outputs[idx].proof = donor;
				} else {
					let mut p = b.body.outputs[idx].proof;
					let n = p.plen.min(p.proof.len());
					let junk = self.rng.bytes(n);
					p.proof[..n].copy_from_slice(&junk);
					b.body.outputs[idx].proof = p;
				}
			}
			"coinbase-kernel-bad-signature" => {
				// every sum still holds; only the signature ties the coinbase excess to a key
				let idx = b.body.kernels.iter().position(|k| k.is_coinbase())?;
				let mut raw = [0u8; 64];
				raw.copy_from_slice(&self.rng.bytes(64));
				b.body.kernels[idx].excess_sig = grin_util::secp::Signature::from_raw_data(&raw).ok()?;
			}
			"coinbase-inflated-excess-adjusted" => {
				// the coinbase output claims more than reward + fees and the coinbase kernel's excess
				// is set to output - (reward + fees)*H, so that the coinbase equation and the kernel
				// sums balance; the excess then hides value and cannot be signed
				let real_fees: u64 = txs.iter().map(|t| t.fee()).sum();
				let idx = b.body.kernels.iter().position(|k| k.is_coinbase())?;
				let cb_out = b.body.outputs.iter().find(|o| o.is_coinbase())?.commitment();
				let excess = {
					let secp = grin_util::static_secp_instance();
					let secp = secp.lock();
					let over = secp.commit_value(grin_core::consensus::reward(real_fees)).ok()?;
					secp.commit_sum(vec![cb_out], vec![over]).ok()?
				};
				b.body.kernels[idx].excess = excess;
				let mut raw = [0u8; 64];
				raw.copy_from_slice(&self.rng.bytes(64));
				b.body.kernels[idx].excess_sig = grin_util::secp::Signature::from_raw_data(&raw).ok()?;
				b.body.sort();
			}
			"sig-swapped" => {
				let n = b.body.kernels.len();
				if n < 2 {
					return None;
				}
				let s0 = b.body.kernels[0].excess_sig;
				b.body.kernels[0].excess_sig = b.body.kernels[1].excess_sig;
				b.body.kernels[1].excess_sig = s0;
			}
			_ => {}
		}
		self.root_and_mine(&mut b, diff, false).ok()?;
		Some(self.push_bad(parent, b, kind, false))
	}

	/// C04: one header field mutated on an otherwise honest, freshly mined block.
	fn gen_bad_header(&mut self, kind: &str) -> Option<usize> {
		if self.cfg.free_difficulty {
			return None;
		}
		let parent = self.pick_parent(0)?;
		let prev = self.blocks[parent].block.header.clone();
		let height = prev.height + 1;
		let (out, kern, _) = self.wallet.coinbase(0, height);
		let dt = self.draw_dt();
		let (mut b, diff) = self.pre_block(parent, &[], dt, None, out, kern).ok()?;
		// honest roots first
		self.builder.chain().set_txhashset_roots(&mut b).ok()?;
		let mut remine = true;
		let mut mine_diff = diff;
		match kind {
			"hdr-height+1" => b.header.height += 1,
			"hdr-height-1" => b.header.height = b.header.height.checked_sub(1)?,
			"hdr-time-equal" => b.header.timestamp = prev.timestamp,
			"hdr-time-before" => b.header.timestamp = prev.timestamp - chrono::Duration::seconds(self.rng.range(1, 600) as i64),
			"hdr-version" => {
				let v = b.header.version.0;
				b.header.version = HeaderVersion(if v >= 5 || self.rng.chance(1, 2) { v.saturating_sub(1).max(1) } else { v + 1 });
				if b.header.version.0 == v {
					b.header.version = HeaderVersion(v + 1);
				}
			}
			"hdr-prev-root" => {
				b.header.prev_root = Hash::from_vec(&self.rng.bytes(32));
			}
			"hdr-total-difficulty+1" => {
				b.header.pow.total_difficulty = b.header.pow.total_difficulty + Difficulty::from_num(1);
				mine_diff = diff + Difficulty::from_num(1);
			}
			"hdr-total-difficulty-1" => {
				if diff.to_num() < 2 {
					return None;
				}
				b.header.pow.total_difficulty = b.header.pow.total_difficulty - Difficulty::from_num(1);
				// still mine to the honest target so that only the claimed total is wrong
			}
			"hdr-secondary-scaling" => {
				if b.header.version >= HeaderVersion(5) {
					return None;
				}
				b.header.pow.secondary_scaling = b.header.pow.secondary_scaling.wrapping_add(1 + self.rng.below(50) as u32);
			}
			"hdr-nonce-unmined" => {
				self.mine(&mut b, mine_diff);
				b.header.pow.nonce = b.header.pow.nonce.wrapping_add(1 + self.rng.below(1000));
				remine = false;
			}
			"hdr-edge-bits" => {
				self.mine(&mut b, mine_diff);
				b.header.pow.proof.edge_bits = b.header.pow.proof.edge_bits + 1;
				remine = false;
			}
			"hdr-proof-nonce" => {
				self.mine(&mut b, mine_diff);
				let i = self.rng.usize_below(b.header.pow.proof.nonces.len());
				b.header.pow.proof.nonces[i] ^= 1 << self.rng.below(9);
				b.header.pow.proof.nonces.sort_unstable();
				remine = false;
			}
			"hdr-proof-unsorted" => {
				// the mined cycle with two neighbouring nonces swapped (positions 2k+1 and 2k+2, so that
				// every (2k, 2k+1) pair is still ascending): the same edges, hence the same cycle, but not
				// the canonical ascending form - and another header hash and proof difficulty. A proof is
				// only valid in canonical form (otherwise one solution yields many hashes to pick the
				// heaviest from). Never "still valid": no guard through the node's own verifier here.
				if self.cfg.free_difficulty {
					return None;
				}
				self.mine(&mut b, mine_diff);
				let n = b.header.pow.proof.nonces.len();
				if n < 4 {
					return None;
				}
				let honest = b.header.pow.proof.nonces.clone();
				let mut ks: Vec<usize> = (0..(n - 2) / 2).map(|i| 1 + 2 * i).collect();
				self.rng.shuffle(&mut ks);
				// prefer a swap whose hash still reaches the difficulty the header has to reach
				let mut chosen = false;
				for k in ks {
					b.header.pow.proof.nonces = honest.clone();
					b.header.pow.proof.nonces.swap(k, k + 1);
					if b.header.pow.to_difficulty(b.header.height) >= mine_diff {
						chosen = true;
						break;
					}
				}
				*self.stats.entry(if chosen { "unsorted_proof_reaches_difficulty" } else { "unsorted_proof_below_difficulty" }.into()).or_insert(0) += 1;
				remine = false;
			}
			"hdr-output-mmr-zero-growth" => b.header.output_mmr_size = prev.output_mmr_size,
			"hdr-kernel-mmr-zero-growth" => b.header.kernel_mmr_size = prev.kernel_mmr_size,
			"hdr-output-mmr-overweight" => {
				// claims more outputs than a block may weigh
				let n = prev.output_mmr_count() + global::max_block_weight() / 21 + 5;
				b.header.output_mmr_size = grin_core::core::pmmr::insertion_to_pmmr_index(n);
			}
			_ => return None,
		}
		if remine {
			self.mine(&mut b, mine_diff);
		}
		// with AutomatedTesting's short cycles a proof mutated in place can, now and then, still be a
		// valid proof (e.g. the same nonces at edge_bits + 1): then the header is not invalid at all
		if matches!(kind, "hdr-edge-bits" | "hdr-proof-nonce" | "hdr-nonce-unmined") && grin_core::pow::verify_size(&b.header).is_ok() {
			*self.stats.entry("pow_mutation_still_valid_skipped".into()).or_insert(0) += 1;
			return None;
		}
		Some(self.push_bad(parent, b, kind, true))
	}

	/// C06 late failures: valid header, valid body, valid PoW, but a root or size that only the
	/// final check after applying the block to the working MMRs can catch.
	fn gen_bad_late(&mut self, kind: &str) -> Option<usize> {
		let parent = self.pick_parent(2)?;
		let height = self.blocks[parent].height + 1;
		let (txs, _) = self.draw_txs(parent, height);
		let fees: u64 = txs.iter().map(|t| t.fee()).sum();
		let (out, kern, _) = self.wallet.coinbase(fees, height);
		let dt = self.draw_dt();
		let fd = self.draw_free_diff();
		let (mut b, diff) = self.pre_block(parent, &txs, dt, fd, out, kern).ok()?;
		self.builder.chain().set_txhashset_roots(&mut b).ok()?;
		let prev = self.blocks[parent].block.header.clone();
		match kind {
			"late-output-root" => b.header.output_root = Hash::from_vec(&self.rng.bytes(32)),
			"late-rproof-root" => b.header.range_proof_root = Hash::from_vec(&self.rng.bytes(32)),
			"late-kernel-root" => b.header.kernel_root = Hash::from_vec(&self.rng.bytes(32)),
			"late-output-mmr-size" => {
				// one more output than the body has (still within weight)
				let n = b.header.output_mmr_count() + 1;
				b.header.output_mmr_size = grin_core::core::pmmr::insertion_to_pmmr_index(n);
			}
			"late-kernel-mmr-size" => {
				let n = b.header.kernel_mmr_count() + 1;
				b.header.kernel_mmr_size = grin_core::core::pmmr::insertion_to_pmmr_index(n);
			}
			_ => return None,
		}
		let _ = prev;
		self.mine(&mut b, diff);
		Some(self.push_bad(parent, b, kind, false))
	}

	/// C04: an altered copy of an honest block. The header hash covers only the proof of work, so the
	/// copy keeps the honest block's hash while its proof no longer belongs to its contents. It must be
	/// refused on every path also - especially - when the node already knows that hash.
	fn gen_bad_known_altered(&mut self, kind: &str) -> Option<usize> {
		if self.cfg.free_difficulty {
			return None;
		}
		let id = self.pick_parent(1)?;
		let parent = self.blocks[id].parent?;
		let prev = self.blocks[parent].block.header.clone();
		let mut b = self.blocks[id].block.clone();
		match kind {
			"known-alt-timestamp" => b.header.timestamp = prev.timestamp - chrono::Duration::seconds(self.rng.range(60, 3600) as i64),
			_ => b.header.prev_root = Hash::from_vec(&self.rng.bytes(32)),
		}
		if b.hash() != self.blocks[id].hash || grin_core::pow::verify_size(&b.header).is_ok() {
			return None;
		}
		let i = self.push_bad(parent, b, kind, true);
		self.bad[i].twin_of = Some(id);
		*self.stats.entry(format!("bad_{}", kind)).or_insert(0) += 1;
		Some(i)
	}

	/// C01: the header's accumulated kernel offset is the block's only statement about the offset
	/// side of the balance equation. A coinbase-only block on a chain whose accumulated offset is
	/// non-zero, with the header's total reset to zero (the block then balances on its own with a zero
	/// block offset) or replaced by a random scalar; honest roots, mined.
	fn gen_bad_offset(&mut self, kind: &str) -> Option<usize> {
		let zero = grin_keychain::BlindingFactor::zero();
		let c: Vec<usize> = self.blocks.iter().filter(|b| b.block.header.total_kernel_offset != zero).map(|b| b.id).collect();
		if c.is_empty() {
			return None;
		}
		let parent = *self.rng.pick(&c);
		let height = self.blocks[parent].height + 1;
		let (out, kern, _) = self.wallet.coinbase(0, height);
		let dt = self.draw_dt();
		let fd = self.draw_free_diff();
		let (mut b, diff) = self.pre_block(parent, &[], dt, fd, out, kern).ok()?;
		self.builder.chain().set_txhashset_roots(&mut b).ok()?;
		b.header.total_kernel_offset = if kind == "hdr-offset-zero" {
			zero
		} else {
			grin_keychain::BlindingFactor::from_secret_key(self.wallet.secret())
		};
		self.mine(&mut b, diff);
		*self.stats.entry(format!("bad_{}", kind)).or_insert(0) += 1;
		Some(self.push_bad(parent, b, kind, false))
	}

	/// C15: an otherwise honest block whose output root commits to a bitmap with one bit flipped.
	fn gen_bad_bitmap(&mut self) -> Option<usize> {
		use grin_core::ser::PMMRIndexHashable;
		// merged root is only checked from header version 3 (height >= 6 here)
		let parent = self.pick_parent(5)?;
		let height = self.blocks[parent].height + 1;
		if consensus::header_version(height) < HeaderVersion(3) {
			return None;
		}
		let (txs, _) = self.draw_txs(parent, height);
		let fees: u64 = txs.iter().map(|t| t.fee()).sum();
		let (out, kern, _) = self.wallet.coinbase(fees, height);
		let dt = self.draw_dt();
		let fd = self.draw_free_diff();
		let (mut b, diff) = self.pre_block(parent, &txs, dt, fd, out, kern).ok()?;
		self.builder.chain().set_txhashset_roots(&mut b).ok()?;
		// state after the block, through a read-only extension on the builder
		let (pmmr_root, bitmap) = {
			let c = self.builder.chain();
			let hp = c.header_pmmr();
			let th = c.txhashset();
			let mut hp = hp.write();
			let mut th = th.write();
			let bb = b.clone();
			grin_chain::txhashset::extending_readonly(&mut hp, &mut th, |ext, batch| {
				let prev = batch.get_previous_header(&bb.header)?;
				grin_chain::pipe::rewind_and_apply_fork(&prev, ext, batch, &|_| Ok(()))?;
				ext.extension.apply_block(&bb, ext.header_extension, batch)?;
				let roots = ext.extension.roots()?;
				let bm = ext.extension.bitmap_accumulator().as_bitmap()?;
				Ok((roots.output_roots.pmmr_root, bm))
			})
			.ok()?
		};
		let n_leaves = b.header.output_mmr_count();
		let mut idx: Vec<u64> = bitmap.iter().map(|x| x as u64).collect();
		idx.sort_unstable();
		// sanity: honest merged root reproduces
		let honest = (pmmr_root, crate::refmodel::bitmap_root(&idx, n_leaves)).hash_with_index(b.header.output_mmr_size);
		if honest != b.header.output_root {
			return None;
		}
		// flip one bit below the leaf count
		let flip = self.rng.below(n_leaves);
		if let Some(p) = idx.iter().position(|x| *x == flip) {
			idx.remove(p);
		} else {
			idx.push(flip);
			idx.sort_unstable();
		}
		let fake = crate::refmodel::bitmap_root(&idx, n_leaves);
		b.header.output_root = (pmmr_root, fake).hash_with_index(b.header.output_mmr_size);
		self.mine(&mut b, diff);
		Some(self.push_bad(parent, b, "bitmap-bit-flipped", false))
	}

	/// For a rejected block whose header is valid: 3-5 valid headers on top of that header (mined,
	/// linked, with the scheduled versions and difficulties, prev_root taken from the builder's header
	/// MMR), so that the header-only fork has more work than the honest chain around it.
	pub fn gen_ghost_headers(&mut self, bad: usize) -> bool {
		if self.cfg.free_difficulty || self.bad[bad].header_bad || self.bad[bad].twin_of.is_some() {
			return false;
		}
		let base = self.bad[bad].block.header.clone();
		if self.builder.chain().process_block_header(&base, self.opts).is_err() {
			return false;
		}
		let n = self.rng.range(3, 5);
		let mut prev = base;
		let mut out = vec![];
		for _ in 0..n {
			let info = self.next_difficulty(&prev);
			let mut h = grin_core::core::BlockHeader::default();
			h.height = prev.height + 1;
			h.version = consensus::header_version(h.height);
			h.prev_hash = prev.hash();
			h.timestamp = crate::world::header_time_plus(&prev, self.draw_dt());
			h.output_mmr_size = grin_core::core::pmmr::insertion_to_pmmr_index(prev.output_mmr_count() + 1);
			h.kernel_mmr_size = grin_core::core::pmmr::insertion_to_pmmr_index(prev.kernel_mmr_count() + 1);
			h.output_root = Hash::from_vec(&self.rng.bytes(32));
			h.range_proof_root = Hash::from_vec(&self.rng.bytes(32));
			h.kernel_root = Hash::from_vec(&self.rng.bytes(32));
			h.total_kernel_offset = prev.total_kernel_offset.clone();
			h.pow.secondary_scaling = info.secondary_scaling;
			h.pow.total_difficulty = prev.total_difficulty() + info.difficulty;
			if self.builder.chain().set_prev_root_only(&mut h).is_err() {
				break;
			}
			h.pow.proof.edge_bits = global::min_edge_bits();
			h.pow.nonce = 0;
			if grin_core::pow::pow_size(&mut h, info.difficulty, global::proofsize(), global::min_edge_bits()).is_err() {
				break;
			}
			if self.builder.chain().process_block_header(&h, self.opts).is_err() {
				break;
			}
			prev = h.clone();
			out.push(h);
		}
		if out.len() >= 3 {
			self.bad[bad].ghosts = out;
			*self.stats.entry("ghost_header_forks".into()).or_insert(0) += 1;
			true
		} else {
			false
		}
	}

	/// Generate up to `per_kind` bad blocks of each listed kind (kinds that find no suitable
	/// parent in this world are skipped).
	pub fn gen_bad(&mut self, kinds: &[&str], per_kind: usize) {
		for k in kinds {
			for _ in 0..per_kind {
				let mut done = false;
				for _attempt in 0..4 {
					if self.gen_bad_kind(k).is_some() {
						done = true;
						break;
					}
				}
				if !done {
					break;
				}
			}
		}
	}
}

#[allow(dead_code)]
pub fn unused(_: &SimRng, _: ExtKeychainPath) {}
