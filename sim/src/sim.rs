//! Framework shared by all engines: case results, the process-parallel driver,
//! evidence files, replay files and the known-findings list.
//!
//! A *check* of a property = N *cases*; each case runs in its own worker process
//! (`verif-sim worker ...`) with a case seed derived from VERIF_SEED, the property id and
//! the case index. A case runs one or more simulated *runs* and reports counters plus any
//! violations (each with a minimised replay). The driver merges case results in case-index
//! order, so evidence and reported violations do not depend on the number of workers.

use crate::rng::{fnv64, SimRng};
use serde_json::{json, Map, Value};
use std::collections::{BTreeMap, BTreeSet};
use std::path::{Path, PathBuf};
use std::process::{Child, Command, Stdio};
use std::time::{Duration, Instant};

pub const VERIF_DIR: &str = "/verif";

#[derive(Clone, Debug)]
pub struct Violation {
	/// stable class of the failing history (used to match known findings)
	pub key: String,
	/// human description
	pub what: String,
	/// replay payload: everything needed to re-run (engine specific)
	pub replay: Value,
}

#[derive(Default, Clone, Debug)]
pub struct CaseResult {
	pub case: u64,
	pub seed: u64,
	pub runs: u64,
	pub steps: u64,
	pub sim_time_s: f64,
	/// (event log digest, nontrivial?) per run
	pub run_digests: Vec<(u64, bool)>,
	pub faults: BTreeMap<String, u64>,
	pub probes: BTreeMap<String, u64>,
	pub states: BTreeSet<u64>,
	pub violations: Vec<Violation>,
	pub samples: Vec<Value>,
	pub harness_error: Option<String>,
	pub wall_s: f64,
	pub extra: BTreeMap<String, Value>,
}

impl CaseResult {
	pub fn new(case: u64, seed: u64) -> CaseResult {
		CaseResult {
			case,
			seed,
			..Default::default()
		}
	}
	pub fn fault(&mut self, kind: &str) {
		*self.faults.entry(kind.to_string()).or_insert(0) += 1;
	}
	pub fn fault_n(&mut self, kind: &str, n: u64) {
		*self.faults.entry(kind.to_string()).or_insert(0) += n;
	}
	pub fn probe(&mut self, name: &str) {
		*self.probes.entry(name.to_string()).or_insert(0) += 1;
	}
	pub fn probe_n(&mut self, name: &str, n: u64) {
		*self.probes.entry(name.to_string()).or_insert(0) += n;
	}
	pub fn to_json(&self) -> Value {
		json!({
			"case": self.case,
			"seed": self.seed,
			"runs": self.runs,
			"steps": self.steps,
			"sim_time_s": self.sim_time_s,
			"run_digests": self.run_digests.iter().map(|(d, n)| json!([format!("{:016x}", d), n])).collect::<Vec<_>>(),
			"faults": self.faults,
			"probes": self.probes,
			"states": self.states.iter().map(|s| format!("{:016x}", s)).collect::<Vec<_>>(),
			"violations": self.violations.iter().map(|v| json!({"key": v.key, "what": v.what, "replay": v.replay})).collect::<Vec<_>>(),
			"samples": self.samples,
			"harness_error": self.harness_error,
			"wall_s": self.wall_s,
			"extra": self.extra,
		})
	}
	pub fn from_json(v: &Value) -> CaseResult {
		let mut r = CaseResult::default();
		r.case = v["case"].as_u64().unwrap_or(0);
		r.seed = v["seed"].as_u64().unwrap_or(0);
		r.runs = v["runs"].as_u64().unwrap_or(0);
		r.steps = v["steps"].as_u64().unwrap_or(0);
		r.sim_time_s = v["sim_time_s"].as_f64().unwrap_or(0.0);
		if let Some(a) = v["run_digests"].as_array() {
			for e in a {
				let d = u64::from_str_radix(e[0].as_str().unwrap_or("0"), 16).unwrap_or(0);
				r.run_digests.push((d, e[1].as_bool().unwrap_or(false)));
			}
		}
		if let Some(m) = v["faults"].as_object() {
			for (k, x) in m {
				r.faults.insert(k.clone(), x.as_u64().unwrap_or(0));
			}
		}
		if let Some(m) = v["probes"].as_object() {
			for (k, x) in m {
				r.probes.insert(k.clone(), x.as_u64().unwrap_or(0));
			}
		}
		if let Some(a) = v["states"].as_array() {
			for e in a {
				r.states
					.insert(u64::from_str_radix(e.as_str().unwrap_or("0"), 16).unwrap_or(0));
			}
		}
		if let Some(a) = v["violations"].as_array() {
			for e in a {
				r.violations.push(Violation {
					key: e["key"].as_str().unwrap_or("").to_string(),
					what: e["what"].as_str().unwrap_or("").to_string(),
					replay: e["replay"].clone(),
				});
			}
		}
		if let Some(a) = v["samples"].as_array() {
			r.samples = a.clone();
		}
		r.harness_error = v["harness_error"].as_str().map(|s| s.to_string());
		r.wall_s = v["wall_s"].as_f64().unwrap_or(0.0);
		if let Some(m) = v["extra"].as_object() {
			for (k, x) in m {
				r.extra.insert(k.clone(), x.clone());
			}
		}
		r
	}
}

/// Static description of a check (one property, one tier).
#[derive(Clone, Debug)]
pub struct CheckSpec {
	pub property: String,
	pub engine: String,
	pub level: String,
	pub cases: u64,
	pub rule: String,
	pub assumptions: Vec<String>,
	pub real_components: Vec<String>,
	pub stub_components: Vec<String>,
	/// per-worker watchdog
	pub case_timeout_s: u64,
	/// probes that must be non-zero over the whole check (harness self-test)
	pub required_probes: Vec<String>,
}

pub fn env_seed() -> u64 {
	std::env::var("VERIF_SEED")
		.ok()
		.and_then(|s| s.trim().parse::<u64>().ok())
		.unwrap_or(1)
}

pub fn env_jobs() -> usize {
	std::env::var("VERIF_JOBS")
		.ok()
		.and_then(|s| s.parse::<usize>().ok())
		.unwrap_or_else(|| {
			std::thread::available_parallelism()
				.map(|n| n.get())
				.unwrap_or(8)
				.min(16)
		})
}

pub fn case_seed(base: u64, property: &str, case: u64) -> u64 {
	let mut r = SimRng::new(base ^ fnv64(property.as_bytes()).rotate_left(13) ^ case.wrapping_mul(0x9E37_79B9_7F4A_7C15));
	r.next_u64() >> 1
}

#[derive(Clone, Debug)]
pub struct KnownFinding {
	pub property: String,
	pub key: String,
	pub what: String,
	pub status: String,
	/// optional structured match for keys of the form `P|class|kind|label|age`:
	/// every listed field must contain the corresponding part
	pub classes: Vec<String>,
	pub kinds: Vec<String>,
	pub labels: Vec<String>,
	pub ages: Vec<String>,
	pub id: String,
}

impl KnownFinding {
	pub fn matches(&self, property: &str, key: &str) -> bool {
		if self.status != "known" || self.property != property {
			return false;
		}
		if !self.key.is_empty() && self.key == key {
			return true;
		}
		if self.classes.is_empty() {
			return false;
		}
		let parts: Vec<&str> = key.split('|').collect();
		if parts.len() != 5 {
			return false;
		}
		// entries are literal, or globs with '*' (used for label pairs "first+init:second" of the
		// crash-during-recovery pass, where the first-level window is what identifies the finding)
		let has = |v: &Vec<String>, x: &str| v.iter().any(|y| if y.contains('*') { glob_match(y, x) } else { y == x });
		has(&self.classes, parts[1]) && has(&self.kinds, parts[2]) && has(&self.labels, parts[3]) && has(&self.ages, parts[4])
	}
}

/// Minimal glob: '*' matches any (possibly empty) substring; everything else is literal.
pub fn glob_match(pattern: &str, text: &str) -> bool {
	let parts: Vec<&str> = pattern.split('*').collect();
	if parts.len() == 1 {
		return pattern == text;
	}
	let mut rest = text;
	for (i, part) in parts.iter().enumerate() {
		if i == 0 {
			if !rest.starts_with(part) {
				return false;
			}
			rest = &rest[part.len()..];
		} else if i == parts.len() - 1 {
			return rest.ends_with(part);
		} else {
			match rest.find(part) {
				Some(k) => rest = &rest[k + part.len()..],
				None => return false,
			}
		}
	}
	true
}

pub fn load_known_findings() -> Vec<KnownFinding> {
	let p = Path::new(VERIF_DIR).join("known_findings.json");
	let mut out = vec![];
	// debugging aid: show listed findings as ordinary violations
	if std::env::var("VERIF_IGNORE_KNOWN").is_ok() {
		return out;
	}
	if let Ok(s) = std::fs::read_to_string(&p) {
		if let Ok(v) = serde_json::from_str::<Value>(&s) {
			if let Some(a) = v["findings"].as_array() {
				for e in a {
					let list = |k: &str| -> Vec<String> {
						e[k].as_array()
							.map(|a| a.iter().filter_map(|x| x.as_str().map(|s| s.to_string())).collect())
							.unwrap_or_default()
					};
					out.push(KnownFinding {
						property: e["property"].as_str().unwrap_or("").to_string(),
						key: e["key"].as_str().unwrap_or("").to_string(),
						what: e["what"].as_str().unwrap_or("").to_string(),
						status: e["status"].as_str().unwrap_or("known").to_string(),
						classes: list("classes"),
						kinds: list("kinds"),
						labels: list("labels"),
						ages: list("ages"),
						id: e["id"].as_str().unwrap_or("").to_string(),
					});
				}
			}
		}
	}
	out
}

struct Running {
	case: u64,
	child: Child,
	out: PathBuf,
	started: Instant,
}

/// Run all cases of a check in worker processes, merge, write evidence, print verdict.
/// Returns the process exit code.
pub fn drive(spec: &CheckSpec, tier: &str) -> i32 {
	crate::node::gc_stale_scratch();
	let t0 = Instant::now();
	let base_seed = env_seed();
	let jobs = env_jobs();
	let exe = std::env::current_exe().expect("current_exe");
	let out_dir = crate::node::scratch_root().join("results");
	let _ = std::fs::create_dir_all(&out_dir);
	let budget_s: Option<u64> = std::env::var("VERIF_BUDGET_S").ok().and_then(|s| s.parse().ok());

	println!(
		"verif-sim check property={} engine={} tier={} seed={} cases={} jobs={}",
		spec.property, spec.engine, tier, base_seed, spec.cases, jobs
	);

	let mut results: BTreeMap<u64, CaseResult> = BTreeMap::new();
	let mut running: Vec<Running> = vec![];
	let mut next_case = 0u64;
	let mut harness_errors: Vec<String> = vec![];
	let mut launched = 0u64;
	loop {
		let budget_left = budget_s
			.map(|b| t0.elapsed().as_secs() < b)
			.unwrap_or(true);
		while running.len() < jobs && next_case < spec.cases && budget_left {
			let case = next_case;
			next_case += 1;
			launched += 1;
			let out = out_dir.join(format!("{}-{}-{}.json", spec.property, tier, case));
			let _ = std::fs::remove_file(&out);
			let child = Command::new(&exe)
				.arg("worker")
				.arg(&spec.property)
				.arg(tier)
				.arg(format!("{}", case_seed(base_seed, &spec.property, case)))
				.arg(format!("{}", case))
				.arg(&out)
				.stdin(Stdio::null())
				.stdout(Stdio::null())
				.stderr(Stdio::inherit())
				.spawn()
				.expect("spawn worker");
			running.push(Running {
				case,
				child,
				out,
				started: Instant::now(),
			});
		}
		if running.is_empty() {
			break;
		}
		let mut i = 0;
		let mut progressed = false;
		while i < running.len() {
			let done = match running[i].child.try_wait() {
				Ok(Some(st)) => Some(st),
				Ok(None) => None,
				Err(_) => None,
			};
			if let Some(st) = done {
				let r = running.remove(i);
				progressed = true;
				match std::fs::read_to_string(&r.out)
					.ok()
					.and_then(|s| serde_json::from_str::<Value>(&s).ok())
				{
					Some(v) => {
						let cr = CaseResult::from_json(&v);
						if let Some(e) = &cr.harness_error {
							harness_errors.push(format!("case {}: {}", r.case, e));
						}
						results.insert(r.case, cr);
					}
					None => {
						harness_errors.push(format!(
							"case {} (seed {}): worker exited with {:?} and wrote no result",
							r.case,
							case_seed(base_seed, &spec.property, r.case),
							st.code()
						));
					}
				}
				let _ = std::fs::remove_file(&r.out);
			} else if running[i].started.elapsed() > Duration::from_secs(spec.case_timeout_s) {
				let mut r = running.remove(i);
				let _ = r.child.kill();
				let _ = r.child.wait();
				harness_errors.push(format!("case {}: watchdog timeout after {}s", r.case, spec.case_timeout_s));
				progressed = true;
			} else {
				i += 1;
			}
		}
		if !progressed {
			std::thread::sleep(Duration::from_millis(20));
		}
	}
	crate::node::cleanup_scratch_root();

	// merge in case order
	let mut runs = 0u64;
	let mut steps = 0u64;
	let mut sim_time = 0.0f64;
	let mut faults: BTreeMap<String, u64> = BTreeMap::new();
	let mut probes: BTreeMap<String, u64> = BTreeMap::new();
	let mut distinct: BTreeSet<u64> = BTreeSet::new();
	let mut all_digests: BTreeSet<u64> = BTreeSet::new();
	let mut states: BTreeSet<u64> = BTreeSet::new();
	let mut samples: Vec<Value> = vec![];
	let mut violations: Vec<(u64, u64, Violation)> = vec![];
	let mut extra: BTreeMap<String, Value> = BTreeMap::new();
	let mut worker_wall = 0.0;
	let mut log_bytes: Vec<u8> = vec![];
	for (case, r) in &results {
		runs += r.runs;
		steps += r.steps;
		sim_time += r.sim_time_s;
		worker_wall += r.wall_s;
		for (k, v) in &r.faults {
			*faults.entry(k.clone()).or_insert(0) += v;
		}
		for (k, v) in &r.probes {
			*probes.entry(k.clone()).or_insert(0) += v;
		}
		log_bytes.extend_from_slice(&case.to_le_bytes());
		for (d, nt) in &r.run_digests {
			log_bytes.extend_from_slice(&d.to_le_bytes());
			all_digests.insert(*d);
			if *nt {
				distinct.insert(*d);
			}
		}
		for s in &r.states {
			states.insert(*s);
		}
		if samples.len() < 3 {
			for s in r.samples.iter().take(1) {
				samples.push(s.clone());
			}
		}
		for v in &r.violations {
			violations.push((*case, r.seed, v.clone()));
		}
		for (k, v) in &r.extra {
			// numeric extras are summed, others keep the first
			match (extra.get(k).and_then(|x| x.as_u64()), v.as_u64()) {
				(Some(a), Some(b)) => {
					extra.insert(k.clone(), json!(a + b));
				}
				(None, _) if !extra.contains_key(k) => {
					extra.insert(k.clone(), v.clone());
				}
				_ => {}
			}
		}
	}

	// verdict
	let known = load_known_findings();
	let replay_dir = Path::new(VERIF_DIR).join("replays");
	let _ = std::fs::create_dir_all(&replay_dir);
	let mut new_violations = 0;
	let mut known_hits: BTreeSet<String> = BTreeSet::new();
	let mut known_counts: BTreeMap<String, u64> = BTreeMap::new();
	let mut lines: Vec<String> = vec![];
	let mut seen_keys: BTreeSet<String> = BTreeSet::new();
	for (n, (case, seed, v)) in violations.iter().enumerate() {
		if let Some(k) = known.iter().find(|k| k.matches(&spec.property, &v.key)) {
			let kid = if k.id.is_empty() { k.key.clone() } else { k.id.clone() };
			*known_counts.entry(kid.clone()).or_insert(0u64) += 1;
			if known_hits.insert(kid.clone()) {
				lines.push(format!(
					"KNOWN-FINDING: property={} {} [{}]",
					spec.property, k.what, kid
				));
			}
			continue;
		}
		new_violations += 1;
		// one replay file per distinct key (first occurrence), to keep the directory small
		if !seen_keys.insert(v.key.clone()) && new_violations > 5 {
			continue;
		}
		let path = replay_dir.join(format!("{}-{}-{}.json", spec.property, seed, n));
		let body = json!({
			"property": spec.property,
			"engine": spec.engine,
			"tier": tier,
			"base_seed": base_seed,
			"case": case,
			"case_seed": seed,
			"key": v.key,
			"violation": v.what,
			"replay": v.replay,
		});
		let _ = std::fs::write(&path, serde_json::to_string_pretty(&body).unwrap());
		lines.push(format!("  what: {}", v.what));
		lines.push(format!(
			"VIOLATION property={} replay={}",
			spec.property,
			path.display()
		));
	}

	// harness self-test: required probes
	for p in &spec.required_probes {
		if results.len() as u64 == spec.cases && probes.get(p).cloned().unwrap_or(0) == 0 && new_violations == 0 {
			harness_errors.push(format!("required probe '{}' stayed at zero", p));
		}
	}

	let wall = t0.elapsed().as_secs_f64();
	let mut coverage = Map::new();
	coverage.insert("evaluations".into(), json!(runs.max(1)));
	coverage.insert("distinct_nontrivial".into(), json!(distinct.len()));
	coverage.insert("rule".into(), json!(spec.rule));
	if samples.is_empty() {
		samples.push(json!("no run completed"));
	}
	coverage.insert("samples".into(), Value::Array(samples));
	coverage.insert("cases".into(), json!(results.len()));
	coverage.insert("cases_planned".into(), json!(spec.cases));
	coverage.insert("cases_launched".into(), json!(launched));
	coverage.insert("steps".into(), json!(steps));
	coverage.insert("sim_time_s".into(), json!(sim_time));
	coverage.insert("distinct_event_logs".into(), json!(all_digests.len()));
	// one digest over the event-log digests of all runs in case order: equal across repeated
	// passes and worker counts iff every run was reproduced exactly
	coverage.insert("event_log_digest".into(), json!(format!("{:016x}", crate::rng::fnv64(&log_bytes))));
	coverage.insert("distinct_states".into(), json!(states.len()));
	coverage.insert("faults_fired".into(), json!(faults));
	coverage.insert("probes".into(), json!(probes));
	coverage.insert(
		"runs_per_hour".into(),
		json!(if wall > 0.0 { (runs as f64) * 3600.0 / wall } else { 0.0 }),
	);
	coverage.insert(
		"seeds_per_hour".into(),
		json!(if wall > 0.0 { (results.len() as f64) * 3600.0 / wall } else { 0.0 }),
	);
	coverage.insert("worker_cpu_s".into(), json!(worker_wall));
	coverage.insert("real_components".into(), json!(spec.real_components));
	coverage.insert("stub_components".into(), json!(spec.stub_components));
	coverage.insert("known_findings_hit".into(), json!(known_counts));
	coverage.insert("harness_errors".into(), json!(harness_errors));
	for (k, v) in extra {
		coverage.insert(k, v);
	}
	let evidence = json!({
		"property_id": spec.property,
		"tier": if tier == "thorough" { "thorough" } else { "quick" },
		"seed": base_seed,
		"level": spec.level,
		"coverage": Value::Object(coverage),
		"assumptions": spec.assumptions,
		"wall_s": wall,
		"violations": new_violations,
	});
	// campaign tools (determinism, other seeds, thorough passes) keep their evidence apart from the
	// committed default-seed evidence
	let ev_dir = match std::env::var("VERIF_EVIDENCE_DIR") {
		Ok(d) if !d.is_empty() => std::path::PathBuf::from(d),
		_ => Path::new(VERIF_DIR).join("evidence"),
	};
	let _ = std::fs::create_dir_all(&ev_dir);
	let ev_path = ev_dir.join(format!("{}.json", spec.property));
	std::fs::write(&ev_path, serde_json::to_string_pretty(&evidence).unwrap()).expect("write evidence");

	for l in &lines {
		println!("{}", l);
	}
	println!(
		"summary property={} runs={} steps={} distinct_nontrivial={} violations={} known={} harness_errors={} wall={:.1}s",
		spec.property,
		runs,
		steps,
		distinct.len(),
		new_violations,
		known_hits.len(),
		harness_errors.len(),
		wall
	);
	if new_violations > 0 {
		return 1;
	}
	if !harness_errors.is_empty() {
		for e in &harness_errors {
			eprintln!("HARNESS-ERROR: {}", e);
		}
		return 2;
	}
	0
}

/// Write a worker's result file.
/// Minimise a recorded schedule (list of scheduler choices; choice 0 = "first runnable thread"):
/// first the shortest prefix after which every choice may be 0, then blocks inside that prefix are
/// zeroed while the same violation persists. The result replays to the same violation with fewer
/// arbitrary decisions. `fails` re-runs a candidate and says whether the violation is still there.
pub fn minimise_choices(choices: &[u32], mut fails: impl FnMut(&[u32]) -> bool, max_trials: usize) -> Vec<u32> {
	let mut trials = 0;
	let mut best: Vec<u32> = choices.to_vec();
	// 1. shortest failing prefix (binary search; not monotone in general, so the result is re-checked)
	let (mut lo, mut hi) = (0usize, best.len());
	while lo < hi && trials < max_trials / 2 {
		let mid = (lo + hi) / 2;
		trials += 1;
		if fails(&best[..mid]) {
			hi = mid;
		} else {
			lo = mid + 1;
		}
	}
	if hi < best.len() {
		trials += 1;
		if fails(&best[..hi]) {
			best.truncate(hi);
		}
	}
	// 2. zero blocks of decreasing size
	let mut block = (best.len() / 4).max(1);
	while block >= 1 && trials < max_trials {
		let mut start = 0;
		while start < best.len() && trials < max_trials {
			let end = (start + block).min(best.len());
			if best[start..end].iter().any(|c| *c != 0) {
				let mut cand = best.clone();
				for c in cand[start..end].iter_mut() {
					*c = 0;
				}
				trials += 1;
				if fails(&cand) {
					best = cand;
				}
			}
			start = end;
		}
		if block == 1 {
			break;
		}
		block /= 2;
	}
	while best.last() == Some(&0) {
		best.pop();
	}
	best
}

pub fn write_case_result(out: &str, r: &CaseResult) {
	let tmp = format!("{}.tmp", out);
	std::fs::write(&tmp, serde_json::to_string(&r.to_json()).unwrap()).expect("write result");
	std::fs::rename(&tmp, out).expect("rename result");
}

/// Generic delta-debugging over a list of steps: returns a (locally) minimal sublist for
/// which `fails` still returns true. `fails` must be deterministic.
pub fn ddmin<T: Clone>(ops: &[T], mut fails: impl FnMut(&[T]) -> bool, max_tests: usize) -> Vec<T> {
	let mut cur: Vec<T> = ops.to_vec();
	let mut n = 2usize;
	let mut tests = 0usize;
	while cur.len() >= 2 && tests < max_tests {
		let chunk = (cur.len() + n - 1) / n;
		let mut reduced = false;
		let mut start = 0;
		while start < cur.len() && tests < max_tests {
			let end = (start + chunk).min(cur.len());
			let mut cand: Vec<T> = Vec::with_capacity(cur.len());
			cand.extend_from_slice(&cur[..start]);
			cand.extend_from_slice(&cur[end..]);
			tests += 1;
			if !cand.is_empty() && fails(&cand) {
				cur = cand;
				n = (n - 1).max(2);
				reduced = true;
				break;
			}
			start = end;
		}
		if !reduced {
			if chunk <= 1 {
				break;
			}
			n = (n * 2).min(cur.len());
		}
	}
	cur
}
