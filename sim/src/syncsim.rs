//! E12 syncsim: the node's own sync loop - `servers::grin::sync::run_sync`, i.e. the real
//! `SyncRunner` with its `HeaderSync`, `BodySync` and `StateSync` stages (hook H10 re-exports it) -
//! running on its own thread inside a complete real node (E11 assembly), in lock step with the
//! simulator:
//!
//! * every `thread::sleep` of the sync thread is a *gate* (simclock.rs): the thread parks, the
//!   simulator advances the simulated wall clock by what the thread wanted to sleep (plus seeded
//!   jumps), lets the network act, and grants the next iteration. The loop is thereby a step function.
//! * `Utc::now()` everywhere in the process reads the simulated clock (frozen base + offset), so the
//!   loop's deadlines (2 s / 10 s header timeouts, 120 s stall ban, 1 s / 6 s block timeouts, 20 s
//!   segment timeout, 660 s PIBD -> archive fallback, 10 min download timeout) are functions of the
//!   simulator's `advance` calls only.
//! * the receiving node R dials a serving real node S; the simulator is the wire between the two
//!   sockets and carries R's requests (GetHeaders, GetBlock, Get*Segment, TxHashSetRequest) into S
//!   and S's answers back, with seeded loss, delay, duplication, corruption, stalls, hang-ups and
//!   redials, clock jumps and clean restarts of R in the middle of a sync.
//!
//! Oracles: no node thread panics; the sync thread always reaches its next sleep (no deadlock /
//! endless loop); R's head is always a block of the serving chain and whenever it moved the state
//! roots and sizes equal those of a node that processed every block up to that height (C16: it never
//! finalises another state; C03: head = validated chain); once faults stop the sync completes within
//! a bounded number of iterations: status NoSync, head, roots, sizes and unspent set equal to S's,
//! `validate(false)` passes.

use crate::netsim::{barrier, connect_inbound, connect_outbound, describe, frame_of, install_panic_recorder, take_panics, NetNode, SimPeer};
use crate::node::{fresh_dir, StateDigest};
use crate::rng::SimRng;
use crate::sim::Violation;
use crate::simclock;
use crate::world::World;
use grin_chain::SyncStatus;
use grin_core::core::hash::Hashed;
use grin_core::core::SegmentIdentifier;
use grin_p2p::msg::{Message, SegmentRequest, Type};
use grin_p2p::Capabilities;
use grin_pool::PoolConfig;
use grin_util::StopState;
use serde_json::Value;
use std::collections::{BTreeMap, BTreeSet};
use std::sync::Arc;
use std::time::Duration;

#[derive(Clone, Debug)]
pub struct SyncCfg {
	/// property the violations are reported for ("C16" / "C03")
	pub prop: String,
	/// blocks (world ids, parents first) the receiver already has when it starts: a prefix of the
	/// serving chain, or a branch the serving chain outweighs
	pub pre: Vec<usize>,
	/// the serving peer advertises PIBD; otherwise the loop has to fall back to the state archive
	pub pibd_peer: bool,
	pub faulty: bool,
	/// clean restarts of the receiving node while it syncs (0-2)
	pub restarts: u32,
	pub compact_server: bool,
	/// iterations during which faults are injected
	pub fault_ticks: u64,
	/// one answer of the faulty phase is a byzantine output segment with a redundant hash (see below);
	/// such a run is judged for safety only
	pub byz_redundant: bool,
	/// the serving node holds the winning branch up to this height (0: all of it). State-sync runs
	/// need a multiple of 10: AutomatedTesting's state sync threshold equals its horizon (20), so the
	/// archive header (tip - 20 rounded down to a multiple of 10) is inside the horizon - as it always is
	/// with mainnet's parameters - only for such tips; otherwise body sync asks for the state again
	/// as soon as it has it
	pub serve_height: u64,
	/// world id of the tip the serving node holds at first (None: the winner, cut at `serve_height`)
	pub serve_tip: Option<usize>,
	/// the serving node reorganises onto this tip - a heavier branch that leaves the first one *below
	/// the archive header* - while the receiver is in the middle of its PIBD (segments of the first
	/// archive state already applied). The receiver's header chain follows (after a restart its header
	/// sync asks the peer again; or the peer announces the new branch header by header), the archive
	/// header changes under the half assembled state, and the PIBD round has to fail and start over.
	pub alt_tip: Option<usize>,
	/// 0: the receiver is restarted right after the reorganisation; 1: the peer announces the headers
	/// of the new branch one by one (`Header` messages, as it would while that branch grows)
	pub alt_mode: u32,
	/// the serving peer answers `GetHeaders` with a few headers at a time (1-4 instead of up to 512:
	/// a peer may send as few as it likes). A receiver that starts on a lighter branch then sees
	/// batches of the heavier branch that carry less work than its own header head for a while.
	pub short_batches: bool,
}

pub struct SyncOutcome {
	pub violation: Option<Violation>,
	pub log: Vec<String>,
	pub ticks: u64,
	pub sim_time_s: f64,
	pub probes: BTreeMap<String, u64>,
	pub faults: BTreeMap<String, u64>,
	pub states: BTreeSet<u64>,
}

fn status_name(s: &SyncStatus) -> &'static str {
	match s {
		SyncStatus::Initial => "Initial",
		SyncStatus::NoSync => "NoSync",
		SyncStatus::AwaitingPeers(_) => "AwaitingPeers",
		SyncStatus::HeaderSync { .. } => "HeaderSync",
		SyncStatus::TxHashsetPibd { errored: true, .. } => "TxHashsetPibd(errored)",
		SyncStatus::TxHashsetPibd { aborted: true, .. } => "TxHashsetPibd(aborted)",
		SyncStatus::TxHashsetPibd { .. } => "TxHashsetPibd",
		SyncStatus::TxHashsetDownload(_) => "TxHashsetDownload",
		SyncStatus::TxHashsetSetup { .. } => "TxHashsetSetup",
		SyncStatus::TxHashsetRangeProofsValidation { .. } => "TxHashsetRangeProofsValidation",
		SyncStatus::TxHashsetKernelsValidation { .. } => "TxHashsetKernelsValidation",
		SyncStatus::TxHashsetSave => "TxHashsetSave",
		SyncStatus::TxHashsetDone => "TxHashsetDone",
		SyncStatus::BodySync { .. } => "BodySync",
		SyncStatus::Shutdown => "Shutdown",
	}
}

struct SyncThread {
	stop: Arc<StopState>,
	handle: Option<std::thread::JoinHandle<()>>,
}

impl SyncThread {
	fn start(node: &NetNode) -> Result<SyncThread, String> {
		let stop = Arc::new(StopState::new());
		simclock::gate_install("sync");
		let handle = grin_servers::verif_export::run_sync(node.sync.clone(), node.peers.clone(), node.chain.clone(), stop.clone()).map_err(|e| format!("run_sync: {:?}", e))?;
		Ok(SyncThread { stop, handle: Some(handle) })
	}

	fn finished(&self) -> bool {
		self.handle.as_ref().map(|h| h.is_finished()).unwrap_or(true)
	}

	/// Stop flag, gate open, join. The loop looks at the flag once per iteration.
	fn stop(&mut self) -> bool {
		self.stop.stop();
		simclock::gate_remove();
		if let Some(h) = self.handle.take() {
			let t0 = std::time::Instant::now();
			while !h.is_finished() && t0.elapsed() < Duration::from_secs(60) {
				std::thread::sleep(Duration::from_millis(5));
			}
			if !h.is_finished() {
				return false;
			}
			let _ = h.join();
		}
		true
	}
}

/// One run. `world`: a chain (its winning branch is served by S).
pub fn sync_loop_run(world: &World, seed: u64, tag: &str, cfg: &SyncCfg) -> SyncOutcome {
	install_panic_recorder();
	grin_util::verif::set_pacing_off(true);
	grin_chain::pibd_params::verif::set_segment_heights(255, 255, 255, 255);
	let mut rng = SimRng::new(seed).fork("sync-loop");
	let mut out = SyncOutcome {
		violation: None,
		log: vec![format!("seed {} cfg {:?}", seed, cfg)],
		ticks: 0,
		sim_time_s: 0.0,
		probes: BTreeMap::new(),
		faults: BTreeMap::new(),
		states: BTreeSet::new(),
	};
	macro_rules! bump {
		($m:expr, $k:expr) => {
			*$m.entry($k.to_string()).or_insert(0) += 1
		};
	}
	let prop = cfg.prop.clone();
	let v = |key: &str, what: String| Violation {
		key: format!("{}:syncloop-{}", prop, key),
		what,
		replay: Value::Null,
	};
	let debug = std::env::var("VERIF_DEBUG").is_ok();
	let winner = cfg.serve_tip.unwrap_or_else(|| world.winner());
	let mut path: Vec<usize> = world.path_to(winner);
	if cfg.serve_height > 0 {
		path.retain(|i| world.blocks[*i].height <= cfg.serve_height);
	}
	let mut winner = *path.last().unwrap_or(&winner);
	let (mut wtd, mut wh) = (world.blocks[winner].total_difficulty, world.blocks[winner].height);
	// the branch the serving node reorganises onto in the middle of the receiver's PIBD
	let alt_path: Vec<usize> = cfg.alt_tip.map(|t| world.path_to(t)).unwrap_or_default();

	// reference digests per block (a node that processed every block up to there)
	let mut ref_digest: BTreeMap<grin_core::core::hash::Hash, StateDigest> = BTreeMap::new();
	for (n, pth) in [&path, &alt_path].iter().enumerate() {
		if pth.is_empty() {
			continue;
		}
		let mut reference = crate::node::Node::create(&format!("{}-ref{}", tag, n), world.genesis.clone());
		if let Ok(d) = reference.digest() {
			ref_digest.insert(world.genesis.hash(), d);
		}
		for id in pth.iter() {
			if *id == 0 {
				continue;
			}
			if let Err(e) = reference.chain().process_block(world.blocks[*id].block.clone(), world.opts) {
				out.violation = Some(v("harness-reference", format!("{:?}", e)));
				reference.destroy();
				return out;
			}
			if let Ok(d) = reference.digest() {
				ref_digest.insert(world.blocks[*id].hash, d);
			}
		}
		reference.destroy();
	}
	let mut on_path: BTreeMap<grin_core::core::hash::Hash, u64> = path.iter().chain(alt_path.iter()).map(|i| (world.blocks[*i].hash, world.blocks[*i].height)).collect();
	on_path.insert(world.genesis.hash(), 0);
	// blocks the receiver starts with on a branch the serving chain outweighs: no reference digest
	let mut pre_only: BTreeSet<grin_core::core::hash::Hash> = BTreeSet::new();
	for id in &cfg.pre {
		if !on_path.contains_key(&world.blocks[*id].hash) {
			pre_only.insert(world.blocks[*id].hash);
		}
	}

	let dir_s = fresh_dir(&format!("{}-srv", tag));
	let dir_r = fresh_dir(&format!("{}-rcv", tag));
	let server = match NetNode::assemble(&dir_s, world.genesis.clone(), PoolConfig::default(), false) {
		Ok(n) => n,
		Err(e) => {
			out.violation = Some(v("harness-assemble", e));
			return out;
		}
	};
	let mut receiver = match NetNode::assemble(&dir_r, world.genesis.clone(), PoolConfig::default(), false) {
		Ok(n) => Some(n),
		Err(e) => {
			out.violation = Some(v("harness-assemble", e));
			return out;
		}
	};
	let mut result: Option<Violation> = None;
	let mut sp_s: Vec<SimPeer> = vec![]; // connection into S
	let mut sp_r: Vec<SimPeer> = vec![]; // R's outbound connection
	let mut thread: Option<SyncThread> = None;
	let caps = if cfg.pibd_peer { Capabilities::default() } else { Capabilities::HEADER_HIST | Capabilities::TXHASHSET_HIST | Capabilities::PEER_LIST | Capabilities::TX_KERNEL_HASH };
	simclock::freeze();
	let mut redials = 0usize;
	'run: loop {
		for id in &path {
			if *id == 0 {
				continue;
			}
			if let Err(e) = server.chain.process_block(world.blocks[*id].block.clone(), world.opts) {
				result = Some(v("harness-server-block", format!("serving node refused honest block #{}: {:?}", id, e)));
				break 'run;
			}
			if cfg.compact_server && world.blocks[*id].height + 15 == wh {
				if let Err(e) = server.chain.compact() {
					result = Some(v("harness-server-compact", format!("{:?}", e)));
					break 'run;
				}
				bump!(out.probes, "sync_server_compacted");
			}
		}
		server.take_events();
		{
			let r = receiver.as_ref().unwrap();
			for id in cfg.pre.iter().filter(|i| **i != 0) {
				if let Err(e) = r.chain.process_block(world.blocks[*id].block.clone(), world.opts) {
					result = Some(v("harness-receiver-block", format!("{:?}", e)));
					break 'run;
				}
			}
			r.take_events();
			r.sync.update(SyncStatus::AwaitingPeers(false));
		}
		match connect_inbound(&server, 0, 1, 0, Capabilities::default()) {
			Ok(p) => sp_s.push(p),
			Err(e) => {
				result = Some(v("harness-connect", e));
				break 'run;
			}
		}
		match connect_outbound(receiver.as_ref().unwrap(), 1, wtd, wh, caps) {
			Ok(p) => sp_r.push(p),
			Err(e) => {
				result = Some(v("harness-connect", e));
				break 'run;
			}
		}
		thread = match SyncThread::start(receiver.as_ref().unwrap()) {
			Ok(t) => Some(t),
			Err(e) => {
				result = Some(v("harness-thread", e));
				break 'run;
			}
		};

		// frames on their way S -> R: (due tick, description, frame, attachment, corrupted)
		let mut wire: Vec<(u64, String, Vec<u8>, Vec<u8>, bool)> = vec![];
		let mut corrupt_delivered = 0u64;
		let mut max_ticks = cfg.fault_ticks + 700;
		let mut tick = 0u64;
		// the served chain reorganises below the archive header once this many segment answers reached R
		let switch_after = rng.fork("alt").range(1, 3);
		let mut segments_delivered = 0u64;
		let mut switched = false;
		let mut force_restart = false;
		let mut announce_next: Option<usize> = None;
		let mut idle = 0u64;
		let mut restarts_left = cfg.restarts;
		let mut stall_until = 0u64;
		let mut last_head = receiver.as_ref().unwrap().chain.head().map(|h| h.last_block_h).ok();
		let mut pibd_seen = false;
		let mut pibd_quiet = 0u64;
		let mut done = false;
		let mut last_status = String::new();
		let mut nosync_behind = 0u64;
		let mut redundant_injected = false;
		let mut after_redundant = 0u64;
		let mut after_switch = 0u64;
		while tick < max_ticks {
			tick += 1;
			let faults_on = cfg.faulty && tick <= cfg.fault_ticks;
			// 1. the sync thread is parked in a sleep (or has died)
			let asked = match simclock::gate_wait_parked(Duration::from_secs(90)) {
				Some(d) => d,
				None => {
					if let Some(p) = take_panics().first() {
						result = Some(v("node-thread-panicked", p.clone()));
					} else if thread.as_ref().map(|t| t.finished()).unwrap_or(true) {
						result = Some(v("sync-thread-ended", format!("tick {}: the sync loop ended on its own (status {})", tick, last_status)));
					} else {
						result = Some(v("sync-thread-stuck", format!("tick {}: the sync loop did not reach its next sleep within 90 s (status {})", tick, last_status)));
					}
					break 'run;
				}
			};
			// 2. simulated time passes: the sleep, idle skips (nothing moved for a while: jump towards the
			// next deadline), seeded jumps
			let mut dt = asked;
			if idle >= 3 {
				let mut skip = *rng.pick(&[500u64, 1_000, 2_500, 7_000, 21_000, 61_000]);
				// (a peer that needs more than 120 s for its headers is banned as a fraud by HeaderSync's
				// stall rule, progress or not: short-batch runs do not let the idle skips add up to that)
				if cfg.short_batches && last_status == "HeaderSync" {
					skip = skip.min(2_500);
				}
				dt += Duration::from_millis(skip);
				bump!(out.probes, "idle_clock_skip");
			}
			if faults_on && rng.chance(4, 100) {
				let j = *rng.pick(&[1_100u64, 2_100, 6_500, 11_000, 25_000, 130_000, 700_000]);
				dt += Duration::from_millis(j);
				bump!(out.faults, "clock_jump");
			}
			simclock::advance(dt);
			// 3. clean restart of R (stop the loop, close everything, open the same directory again)
			if force_restart || (faults_on && restarts_left > 0 && rng.chance(3, 100)) {
				restarts_left = restarts_left.saturating_sub(1);
				force_restart = false;
				bump!(out.faults, "receiver_restart");
				out.log.push(format!("t{} restart of the receiver", tick));
				if let Some(t) = thread.as_mut() {
					if !t.stop() {
						result = Some(v("sync-thread-stuck", "the sync loop did not stop within 60 s".into()));
						break 'run;
					}
				}
				for p in sp_r.iter_mut() {
					p.close();
				}
				sp_r.clear();
				if let Some(r) = receiver.take() {
					r.shutdown();
					drop(r);
				}
				wire.clear();
				receiver = match NetNode::assemble(&dir_r, world.genesis.clone(), PoolConfig::default(), false) {
					Ok(n) => Some(n),
					Err(e) => {
						result = Some(v("restart-failed", format!("the receiving node does not start after a clean shutdown in the middle of a sync (tick {}, status {}): {}", tick, last_status, e)));
						break 'run;
					}
				};
				receiver.as_ref().unwrap().sync.update(SyncStatus::AwaitingPeers(false));
				redials += 1;
				match connect_outbound(receiver.as_ref().unwrap(), 100 + redials, wtd, wh, caps) {
					Ok(p) => sp_r.push(p),
					Err(e) => {
						result = Some(v("harness-connect", e));
						break 'run;
					}
				}
				thread = match SyncThread::start(receiver.as_ref().unwrap()) {
					Ok(t) => Some(t),
					Err(e) => {
						result = Some(v("harness-thread", e));
						break 'run;
					}
				};
				pibd_seen = false;
				continue;
			}
			let r = receiver.as_ref().unwrap();
			// 4. one iteration of the loop
			simclock::gate_grant();
			if simclock::gate_wait_parked(Duration::from_secs(120)).is_none() {
				if let Some(p) = take_panics().first() {
					result = Some(v("node-thread-panicked", p.clone()));
				} else if thread.as_ref().map(|t| t.finished()).unwrap_or(true) {
					result = Some(v("sync-thread-ended", format!("tick {}: the sync loop ended on its own (status {})", tick, last_status)));
				} else {
					result = Some(v("sync-thread-stuck", format!("tick {}: one iteration of the sync loop did not finish within 120 s (status {})", tick, last_status)));
				}
				break 'run;
			}
			if let Some(p) = take_panics().first() {
				result = Some(v("node-thread-panicked", p.clone()));
				break 'run;
			}
			// 5. the connection: redial when R hung up (a new address two times in three)
			// (a hang-up decided by the sync thread itself - a ban, a disconnect of a timed-out peer - is
			// read off the node's Peer object, which changed state before the thread parked; noticing it
			// on the socket instead would depend on whether the reader thread still answers one more ping)
			if let Some(p) = sp_r.get_mut(0) {
				if p.alive && p.node_peer.as_ref().map(|np| !np.is_connected()).unwrap_or(false) {
					p.close();
					bump!(out.probes, "hangup_by_sync_thread_seen_on_peer_object");
				}
			}
			if sp_r.is_empty() || !sp_r[0].alive {
				if faults_on && rng.chance(1, 3) {
					// stays away for a while
					bump!(out.faults, "peer_away");
				} else {
					redials += 1;
					let id = if rng.chance(1, 3) && !sp_r.is_empty() { sp_r[0].id } else { 100 + redials };
					match connect_outbound(r, id, wtd, wh, caps) {
						Ok(p) => {
							sp_r.clear();
							sp_r.push(p);
							bump!(out.probes, "receiver_connection_reopened");
						}
						Err(e) => {
							// a banned / still registered address is refused by add_connected: try a fresh one next tick
							out.log.push(format!("t{} redial refused: {}", tick, e));
							bump!(out.probes, "redial_refused");
						}
					}
				}
			}
			// 6. what R asked for
			let mut asked_msgs: Vec<Message> = vec![];
			if !sp_r.is_empty() && sp_r[0].alive {
				if let Err(e) = barrier(&mut sp_r[0..1], Some(0)) {
					result = Some(v("connection-stuck", format!("receiver, tick {}: {}", tick, e)));
					break 'run;
				}
				asked_msgs = std::mem::take(&mut sp_r[0].inbox);
				// the node hung up in this very iteration (a ban, a frame it could not decode): what it wrote
				// just before closing reaches the other end or not - a close with unread input resets the
				// connection and discards what was in flight - and no answer could come back anyway. Never seen.
				if !sp_r[0].alive && !asked_msgs.is_empty() {
					asked_msgs.clear();
					bump!(out.probes, "requests_before_hangup_discarded");
				}
			}
			let mut moved = !asked_msgs.is_empty();
			let mut asked_names: Vec<String> = vec![];
			if faults_on && stall_until < tick && rng.chance(3, 100) {
				stall_until = tick + rng.range(3, 30);
				bump!(out.faults, "peer_stalls");
			}
			for m in asked_msgs {
				let name = describe(&m);
				asked_names.push(name.clone());
				if tick <= stall_until {
					bump!(out.faults, "request_ignored_by_stalled_peer");
					continue;
				}
				if faults_on && rng.chance(12, 100) {
					bump!(out.faults, "request_lost");
					continue;
				}
				// the wire carries the request into S
				sp_s[0].attachment.clear();
				let sent = match m {
					Message::GetHeaders(l) => {
						bump!(out.probes, "sync_get_headers");
						sp_s[0].send(Type::GetHeaders, l)
					}
					Message::GetBlock(h) => {
						bump!(out.probes, "sync_get_block");
						sp_s[0].send(Type::GetBlock, h)
					}
					// (after the served chain reorganised the peer announces 30 headers of the new branch one
					// by one; the compact blocks the receiver asks for in return stay unanswered: delivered,
					// they would sit in its orphan pool, the one right above the new archive header for good -
					// nothing ever calls check_orphans for the height after a state sync's last block, and body
					// sync does not ask for blocks that are orphans. Observation in DESIGN 9.4; needs blocks
					// gossiped right above the archive header, two days below the tip on mainnet.)
					Message::GetCompactBlock(_) if switched => {
						bump!(out.faults, "compact_block_request_unanswered");
						continue;
					}
					Message::GetCompactBlock(h) => sp_s[0].send(Type::GetCompactBlock, h),
					Message::GetOutputBitmapSegment(q) => {
						bump!(out.probes, "sync_segment_request");
						sp_s[0].send(Type::GetOutputBitmapSegment, q)
					}
					Message::GetOutputSegment(q) => {
						bump!(out.probes, "sync_segment_request");
						sp_s[0].send(Type::GetOutputSegment, q)
					}
					Message::GetRangeProofSegment(q) => {
						bump!(out.probes, "sync_segment_request");
						sp_s[0].send(Type::GetRangeProofSegment, q)
					}
					Message::GetKernelSegment(q) => {
						bump!(out.probes, "sync_segment_request");
						sp_s[0].send(Type::GetKernelSegment, q)
					}
					Message::TxHashSetRequest(q) => {
						bump!(out.probes, "sync_archive_request");
						sp_s[0].send(Type::TxHashSetRequest, grin_p2p::msg::TxHashSetRequest { hash: q.hash, height: q.height })
					}
					_ => continue,
				};
				if !sent {
					result = Some(v("harness-server-connection", "the serving node closed the simulator's connection".into()));
					break 'run;
				}
				if let Err(e) = barrier(&mut sp_s[0..1], Some(0)) {
					result = Some(v("connection-stuck", format!("serving node, after {}: {}", name, e)));
					break 'run;
				}
				let answers = std::mem::take(&mut sp_s[0].inbox);
				if sp_s[0].refused_frame {
					bump!(out.probes, "segment_frame_above_test_limit_run_abandoned");
					break 'run;
				}
				let mut headers_chunks = 0u32;
				for a in answers {
					let an = describe(&a);
					let ver = sp_r.get(0).map(|p| p.version).unwrap_or_else(grin_core::ser::ProtocolVersion::local);
					let mut att: Vec<u8> = vec![];
					let a = match a {
						// a byzantine answer that segment validation does not bind (C16's quantifier names it:
						// "redundant extra hashes are not rejected by validation and are covered by the
						// final-state clause instead"): the honest output segment plus one hash at the position
						// right behind it. It validates - the root reconstruction never reads that hash - and is
						// applied as a pruned subtree that is not there. Whatever the loop makes of it, it must
						// never finalise a state other than the reference state. (What it does make of it: it
						// asks for the same two segments for ever, see DESIGN 9.4 - completion is therefore not
						// demanded of these runs.)
						Message::Headers(mut hs) if cfg.short_batches => {
							// (the simulated side's Codec hands a long answer over in chunks of 32: only the
							// beginning of the first chunk travels on)
							headers_chunks += 1;
							if headers_chunks > 1 {
								continue;
							}
							if hs.headers.len() > 1 {
								let keep = rng.range(1, 4) as usize;
								hs.headers.truncate(keep);
								bump!(out.faults, "headers_answer_cut_short");
							}
							hs.remaining = 0;
							Message::Headers(hs)
						}
						Message::OutputSegment(x) if cfg.byz_redundant && faults_on && !redundant_injected => {
							redundant_injected = true;
							bump!(out.faults, "answer_with_redundant_hash");
							let grin_p2p::msg::OutputSegmentResponse { response, output_bitmap_root } = x;
							let grin_p2p::msg::SegmentResponse { block_hash, segment } = response;
							let (id, mut hp, mut hs, lp, ld, proof) = segment.parts();
							let next = hp.iter().chain(lp.iter()).cloned().max().unwrap_or(0) + 1;
							hp.push(next);
							hs.push(grin_core::core::hash::Hash::from_vec(&rng.bytes(32)));
							let segment = grin_core::core::Segment::from_parts(id, hp, hs, lp, ld, proof);
							Message::OutputSegment(grin_p2p::msg::OutputSegmentResponse { response: grin_p2p::msg::SegmentResponse { block_hash, segment }, output_bitmap_root })
						}
						other => other,
					};
					let frame = match a {
						Message::TxHashSetArchive(x) => {
							att = std::mem::take(&mut sp_s[0].attachment);
							bump!(out.probes, "sync_archive_served");
							frame_of(Type::TxHashSetArchive, grin_p2p::msg::TxHashSetArchive { hash: x.hash, height: x.height, bytes: x.bytes }, ver)
						}
						other => match crate::netsim::reencode(other, ver) {
							Some((_, f)) => f,
							None => continue,
						},
					};
					let mut when = tick;
					let mut corrupted = false;
					let mut frame = frame;
					if faults_on {
						let k = rng.below(100);
						if k < 12 {
							bump!(out.faults, "answer_lost");
							continue;
						} else if k < 22 && att.is_empty() {
							bump!(out.faults, "answer_duplicated");
							wire.push((tick + rng.range(0, 4), an.clone(), frame.clone(), vec![], false));
						} else if k < 37 {
							when = tick + rng.range(1, 25);
							bump!(out.faults, "answer_delayed");
						} else if k < 45 && frame.len() > 12 {
							if att.is_empty() {
								let i = 11 + rng.usize_below(frame.len() - 11);
								frame[i] ^= 1 << rng.below(8);
							} else {
								let i = rng.usize_below(att.len());
								att[i] ^= 1 << rng.below(8);
							}
							corrupted = true;
							bump!(out.faults, "answer_corrupted");
						}
					}
					wire.push((when, an, frame, att, corrupted));
				}
			}
			// the planner never asks for the bitmap segment of a single-leaf bitmap MMR (recorded
			// observation, DESIGN 9.4): the serving side volunteers it when PIBD sits there with nothing
			// requested
			let status = r.sync.status();
			let sname = status_name(&status);
			if matches!(status, SyncStatus::TxHashsetPibd { errored: true, .. }) {
				bump!(out.probes, "pibd_round_errored_restart");
			}
			if matches!(status, SyncStatus::TxHashsetPibd { .. }) {
				pibd_seen = true;
				bump!(out.probes, "sync_ticks_in_pibd");
				if asked_names.iter().any(|n| n.contains("Segment")) {
					pibd_quiet = 0;
				} else {
					pibd_quiet += 1;
				}
				if pibd_quiet == 3 || (pibd_quiet > 3 && pibd_quiet % 40 == 0) {
					if let Ok(ah) = r.chain.txhashset_archive_header_header_only() {
						let q = SegmentRequest { block_hash: ah.hash(), identifier: SegmentIdentifier { height: grin_chain::pibd_params::BITMAP_SEGMENT_HEIGHT, idx: 0 } };
						sp_s[0].send(Type::GetOutputBitmapSegment, q);
						if barrier(&mut sp_s[0..1], Some(0)).is_ok() {
							for a in std::mem::take(&mut sp_s[0].inbox) {
								if let Message::OutputBitmapSegment(x) = a {
									let ver = sp_r.get(0).map(|p| p.version).unwrap_or_else(grin_core::ser::ProtocolVersion::local);
									wire.push((tick, "OutputBitmapSegment(volunteered)".into(), frame_of(Type::OutputBitmapSegment, x, ver), vec![], false));
									bump!(out.probes, "bitmap_segment_volunteered");
								}
							}
						}
					}
				}
			} else {
				pibd_quiet = 0;
			}
			// 7. what is due arrives at R
			let (mut due, later): (Vec<_>, Vec<_>) = wire.drain(..).partition(|x| x.0 <= tick);
			wire = later;
			if faults_on {
				rng.shuffle(&mut due);
			}
			for (_, name, frame, att, corrupted) in due {
				if sp_r.is_empty() || !sp_r[0].alive {
					bump!(out.faults, "answer_lost_connection_gone");
					continue;
				}
				moved = true;
				if corrupted {
					corrupt_delivered += 1;
				} else if name.contains("Segment") {
					segments_delivered += 1;
				}
				if debug {
					eprintln!("   t{} -> R {}{} ({} bytes{})", tick, name, if corrupted { " corrupted" } else { "" }, frame.len(), if att.is_empty() { String::new() } else { format!(" + {} attachment", att.len()) });
				}
				sp_r[0].send_bytes(&frame);
				if !att.is_empty() {
					let cut = if faults_on && rng.chance(1, 5) { rng.usize_below(att.len()) } else { att.len() };
					let mut off = 0;
					while off < cut {
						let n = (*rng.pick(&[1usize, 4096, 8000, 47_999, 48_000, 48_001, 100_000])).min(cut - off);
						sp_r[0].send_bytes(&att[off..off + n]);
						off += n;
					}
					if cut < att.len() {
						bump!(out.faults, "archive_cut_short_by_hangup");
						sp_r[0].close();
						std::thread::sleep(Duration::from_millis(30));
						continue;
					}
				}
				if let Err(e) = barrier(&mut sp_r[0..1], Some(0)) {
					result = Some(v("connection-stuck", format!("receiver, after {} at tick {}: {}", name, tick, e)));
					break 'run;
				}
				sp_r[0].inbox.clear();
				// a frame that decodes but carries bad data makes the handler ban the sender: the Peer
				// object changes state inside the handler, while the reader thread may or may not answer
				// the barrier's ping before it notices
				if sp_r[0].alive && sp_r[0].node_peer.as_ref().map(|np| !np.is_connected()).unwrap_or(false) {
					sp_r[0].close();
					bump!(out.probes, "hangup_by_handler_seen_on_peer_object");
				}
				if let Some(p) = take_panics().first() {
					result = Some(v("node-thread-panicked", p.clone()));
					break 'run;
				}
			}
			idle = if moved { 0 } else { idle + 1 };
			// 8. invariants on R
			let d = match r.digest() {
				Ok(d) => d,
				Err(e) => {
					result = Some(v("digest", e));
					break 'run;
				}
			};
			let line = format!("t{} {} head h{} hdr h{} asked [{}]", tick, sname, d.head_height, d.header_head_height, asked_names.join(","));
			if debug {
				eprintln!("{} (+{:?})", line, dt);
			}
			out.log.push(line);
			out.states.insert(crate::rng::fnv64(format!("{}{}{}", sname, d.head_height, d.header_head_height).as_bytes()));
			last_status = sname.to_string();
			match on_path.get(&d.head) {
				None if pre_only.contains(&d.head) => {
					if Some(d.head) != last_head {
						result = Some(v("head-moved-along-lighter-branch", format!("tick {}: the receiver's head moved to {} (h{}) on the branch it started on, which the chain it syncs from outweighs", tick, d.head, d.head_height)));
						break 'run;
					}
				}
				None => {
					result = Some(v("head-not-on-served-chain", format!("tick {}: the receiver's head {} (h{}) is not a block of the chain it syncs from", tick, d.head, d.head_height)));
					break 'run;
				}
				Some(h) => {
					if Some(d.head) != last_head {
						last_head = Some(d.head);
						if *h > 0 {
							bump!(out.probes, "sync_head_moved");
						}
						// whenever the head moved the state is the one a block-by-block node has there; while
						// segments are being assembled the head does not move
						if let Some(rd) = ref_digest.get(&d.head) {
							if !d.same_body(rd) {
								result = Some(v("state-differs-at-head", format!("tick {} ({}): receiver at {} but a node that processed every block to that height is at {}", tick, sname, d.short(), rd.short())));
								break 'run;
							}
						}
						if pibd_seen && *h > 0 && *h < wh {
							bump!(out.probes, "head_moved_after_state_sync_started");
						}
					}
				}
			}
			// the serving node reorganises onto a heavier branch that leaves its chain below the archive
			// header; what R has assembled so far belongs to a state its header chain is about to abandon
			if cfg.alt_tip.is_some() && !switched && matches!(status, SyncStatus::TxHashsetPibd { .. }) && segments_delivered >= switch_after {
				switched = true;
				bump!(out.faults, "served_chain_reorganised_below_archive_header");
				let first_new = alt_path.iter().position(|i| *i != 0 && !path.contains(i)).unwrap_or(alt_path.len());
				for id in alt_path[first_new..].iter() {
					if let Err(e) = server.chain.process_block(world.blocks[*id].block.clone(), world.opts) {
						result = Some(v("harness-server-block", format!("serving node refused honest block #{} of the heavier branch: {:?}", id, e)));
						break 'run;
					}
				}
				server.take_events();
				let new_tip = *alt_path.last().unwrap();
				if server.chain.head().map(|h| h.last_block_h).ok() != Some(world.blocks[new_tip].hash) {
					result = Some(v("harness-server-reorg", "the serving node did not reorganise onto the heavier branch".into()));
					break 'run;
				}
				// what S broadcast to its peer while it reorganised is not an answer to anything
				let _ = barrier(&mut sp_s[0..1], Some(0));
				sp_s[0].inbox.clear();
				winner = new_tip;
				wtd = world.blocks[new_tip].total_difficulty;
				wh = world.blocks[new_tip].height;
				path = alt_path.clone();
				if let Some(p) = sp_r.get_mut(0) {
					p.claimed_td = wtd;
					p.claimed_height = wh;
				}
				max_ticks = tick + cfg.fault_ticks + 900;
				out.log.push(format!("t{} the serving node reorganised onto the heavier branch (fork below h{}, new tip h{}); {} segments had reached the receiver", tick, world.blocks[alt_path[first_new]].height, wh, segments_delivered));
				if cfg.alt_mode == 0 {
					force_restart = true;
				} else {
					announce_next = Some(first_new);
				}
			}
			// ... and announces the new branch header by header, as a peer does while a branch grows
			if let Some(n) = announce_next {
				if !sp_r.is_empty() && sp_r[0].alive {
					let upto = (n + 3).min(alt_path.len());
					for id in alt_path[n..upto].iter() {
						sp_r[0].send(Type::Header, world.blocks[*id].block.header.clone());
						if let Err(e) = barrier(&mut sp_r[0..1], Some(0)) {
							result = Some(v("connection-stuck", format!("receiver, after an announced header at tick {}: {}", tick, e)));
							break 'run;
						}
						bump!(out.probes, "headers_of_heavier_branch_announced");
					}
					if let Some(p) = take_panics().first() {
						result = Some(v("node-thread-panicked", p.clone()));
						break 'run;
					}
					announce_next = if upto < alt_path.len() { Some(upto) } else { None };
				}
			}
			// a node that fell out of sync mode close to the tip (its peer went away for a moment, or the
			// difference is below the loop's threshold of five blocks' work) catches up through gossip:
			// the peer relays the blocks it is missing
			// (only close to the tip and only after the loop had the time to look at its peers again - ten
			// one-second sleeps: a peer does not push blocks from the bottom of the chain at a node whose
			// interrupted state sync left it at genesis; the loop has to resume that sync itself)
			if matches!(status, SyncStatus::NoSync) && d.head_height < wh && !faults_on && tick > 6 {
				nosync_behind += 1;
				if nosync_behind >= 12 && wh - d.head_height <= 5 && !sp_r.is_empty() && sp_r[0].alive {
					// (the lowest block of the served chain the node does not have: a node that fell out of
					// sync mode on a lighter branch may hold the upper blocks of the served branch as orphans
					// and lack two at its bottom - it asks nobody for them until the difference in work
					// exceeds the loop's threshold again)
					if let Some(id) = path.iter().find(|i| **i != 0 && !r.chain.block_exists(world.blocks[**i].hash).unwrap_or(true)) {
						sp_r[0].send(Type::Block, world.blocks[*id].block.clone());
						if let Err(e) = barrier(&mut sp_r[0..1], Some(0)) {
							result = Some(v("connection-stuck", format!("receiver, after a gossiped block at tick {}: {}", tick, e)));
							break 'run;
						}
						sp_r[0].inbox.clear();
						bump!(out.probes, "gossip_tail_blocks");
					}
				}
			} else {
				nosync_behind = 0;
			}
			if redundant_injected {
				after_redundant += 1;
				if after_redundant > 150 {
					break;
				}
			}
			if switched {
				after_switch += 1;
				if after_switch > 260 + cfg.fault_ticks {
					break;
				}
			}
			// 9. done?
			if matches!(status, SyncStatus::NoSync) && d.head == world.blocks[winner].hash && tick > 6 {
				done = cfg.alt_tip.is_none() || switched;
				break;
			}
		}
		out.ticks = tick;
		if cfg.alt_tip.is_some() && !switched {
			// the sync finished before the reorganisation could happen (too few segments in this world)
			bump!(out.probes, "reorg_run_finished_before_switch");
			break 'run;
		}
		if switched && done {
			bump!(out.probes, "sync_completed_after_archive_header_moved");
		}
		if switched && !done {
			// On the unchanged tree the loop never gets over a half assembled state that belongs to another
			// archive header: the new desegmenter asks for the segment its local MMR sizes point at, gets
			// it, cannot apply it, and asks again - no `errored` round, no reset (DESIGN 9.4). Nothing is
			// finalised, which is all C16 states; these runs are judged for safety only.
			bump!(out.probes, "sync_stalled_after_archive_header_moved");
			break 'run;
		}
		if !done && redundant_injected {
			bump!(out.probes, "sync_never_completed_after_redundant_hash_segment");
			break 'run;
		}
		if !done {
			result = Some(v("no-progress", format!("the sync loop did not finish within {} iterations ({} of them fault free, {:.0} simulated seconds): status {}, corrupted frames delivered {}", max_ticks, max_ticks - cfg.fault_ticks, simclock::elapsed().as_secs_f64(), last_status, corrupt_delivered)));
			break 'run;
		}
		let r = receiver.as_ref().unwrap();
		// final state = the serving node's
		match (r.digest(), server.digest()) {
			(Ok(a), Ok(b)) if a.same_body(&b) => {}
			(a, b) => {
				result = Some(v("tip-state-differs", format!("after the sync loop reported NoSync the receiver is at {:?}, the serving node at {:?}", a.map(|x| x.short()), b.map(|x| x.short()))));
				break 'run;
			}
		}
		let want: BTreeSet<_> = world.blocks[winner].ledger.keys().cloned().collect();
		let mut got = BTreeSet::new();
		for k in world.all_commits() {
			let c = grin_util::secp::pedersen::Commitment::from_vec(k.to_vec());
			if let Ok(Some(_)) = r.chain.get_unspent(c) {
				got.insert(k);
			}
		}
		if got != want {
			result = Some(v("final-utxo-differs", format!("receiver's unspent set has {} entries, the ledger at the tip {}", got.len(), want.len())));
			break 'run;
		}
		if let Err(e) = r.chain.validate(false) {
			result = Some(v("final-validate-failed", format!("{:?}", e)));
			break 'run;
		}
		bump!(out.probes, "sync_loop_completed");
		if pibd_seen {
			bump!(out.probes, "sync_loop_completed_with_state_sync");
		}
		break 'run;
	}
	out.sim_time_s = simclock::elapsed().as_secs_f64();
	if let Some(t) = thread.as_mut() {
		if !t.stop() && result.is_none() {
			result = Some(v("sync-thread-stuck", "the sync loop did not stop within 60 s of the stop signal".into()));
		}
	}
	simclock::gate_remove();
	simclock::unfreeze();
	let panics = take_panics();
	if let Some(p) = panics.first() {
		if result.as_ref().map(|r| r.key.contains("stuck") || r.key.contains("ended")).unwrap_or(true) {
			result = Some(v("node-thread-panicked", p.clone()));
		}
	}
	for p in sp_s.iter_mut().chain(sp_r.iter_mut()) {
		p.close();
	}
	server.shutdown();
	if let Some(r) = receiver.as_ref() {
		r.shutdown();
	}
	drop(sp_s);
	drop(sp_r);
	drop(server);
	drop(receiver);
	let _ = std::fs::remove_dir_all(&dir_s);
	let _ = std::fs::remove_dir_all(&dir_r);
	out.violation = result;
	out
}

/// The served chain simply grows past the next archive interval while the receiver is in the middle
/// of its PIBD: (tip served first = `serve_height - 10`, tip served later = `serve_height`), both on
/// the trunk. After a restart the receiver's header sync moves its header head, and with it the
/// archive header, ten blocks up - over a half assembled state of the *same* chain. (On mainnet: a
/// node restarted the day after it began its state sync.)
pub fn grow_tips(world: &World, serve_height: u64) -> Option<(usize, usize)> {
	if serve_height < 40 {
		return None;
	}
	let trunk = world.path_to(world.winner());
	let at = |h: u64| trunk.iter().cloned().find(|i| world.blocks[*i].height == h);
	Some((at(serve_height - 10)?, at(serve_height)?))
}

/// Grow a second branch on a single-chain world: it leaves the trunk a few blocks *below* the archive
/// header of a node that serves the trunk up to `serve_height`, and reaches that height (or ten blocks
/// more) with more work - its miner's clock runs fast, 1-3 s per block, so its difficulty climbs.
/// Returns (tip of the trunk at `serve_height`, tip of the heavier branch).
pub fn add_reorg_branch(world: &mut World, serve_height: u64, rng: &mut SimRng) -> Result<Option<(usize, usize)>, String> {
	if serve_height < 40 {
		return Ok(None);
	}
	let trunk = world.path_to(world.winner());
	let at = |w: &World, h: u64| trunk.iter().cloned().find(|i| w.blocks[*i].height == h);
	let tip_a = match at(world, serve_height) {
		Some(t) => t,
		None => return Ok(None),
	};
	let fork_h = serve_height - 20 - rng.range(1, 5);
	let mut tip = match at(world, fork_h) {
		Some(t) => t,
		None => return Ok(None),
	};
	let mut target = serve_height;
	for _ in 0..2 {
		while world.blocks[tip].height < target {
			let height = world.blocks[tip].height + 1;
			let (txs, note) = if world.blocks[tip].ledger.len() < 60 && rng.chance(1, 2) { world.draw_txs(tip, height) } else { (vec![], "empty".to_string()) };
			let dt = rng.range(1, 3) as i64;
			let b = world.assemble(tip, &txs, dt, None)?;
			tip = world.add_block(tip, b, 1, txs, format!("reorg-branch {}", note))?;
		}
		if world.blocks[tip].total_difficulty > world.blocks[tip_a].total_difficulty {
			break;
		}
		target += 10;
	}
	if world.blocks[tip].total_difficulty <= world.blocks[tip_a].total_difficulty {
		return Ok(None);
	}
	// the archive state of the heavier branch has to fit AutomatedTesting's frame limit as well
	let ah = world.blocks[tip].height - 20;
	let unspent = world.path_to(tip).iter().find(|i| world.blocks[**i].height == ah).map(|i| world.blocks[*i].ledger.len()).unwrap_or(0);
	if unspent * 700 + 2_000 > 60_000 {
		return Ok(None);
	}
	Ok(Some((tip_a, tip)))
}

/// The tip the serving node stops at in a state-sync run: a multiple of 10 (see `SyncCfg::serve_height`),
/// and for PIBD runs low enough that the range proof segment of the archive state fits
/// AutomatedTesting's frame limit (62 KB; a limit of the test parameters, mainnet's is 10.8 MB).
pub fn state_sync_height(world: &World, pibd: bool) -> u64 {
	let winner = world.winner();
	let path = world.path_to(winner);
	let mut h = (world.blocks[winner].height / 10) * 10;
	if pibd {
		while h > 30 {
			let ah = h - 20;
			let unspent = path.iter().find(|i| world.blocks[**i].height == ah).map(|i| world.blocks[*i].ledger.len()).unwrap_or(0);
			if unspent * 700 + 2_000 <= 60_000 {
				break;
			}
			h -= 10;
		}
	}
	h
}

pub fn debug_run(seed: u64, mode: &str) {
	let long = mode.contains("long");
	let t0 = std::time::Instant::now();
	let mut world = match crate::pibdsim::build_world(seed, long, false, false) {
		Ok(w) => w,
		Err(e) => {
			eprintln!("world: {}", e);
			return;
		}
	};
	eprintln!("world built in {:?}: {} blocks", t0.elapsed(), world.blocks.len());
	let wh = world.blocks[world.winner()].height as usize;
	let cfg = SyncCfg {
		prop: "C16".into(),
		pre: if mode.contains("body") { world.path_to(world.winner()).into_iter().filter(|i| *i != 0).take(wh.saturating_sub(12)).collect() } else { vec![] },
		pibd_peer: !mode.contains("zip"),
		faulty: mode.contains("faulty"),
		restarts: if mode.contains("restart") { 2 } else { 0 },
		compact_server: long,
		fault_ticks: if mode.contains("faulty") { 150 } else { 0 },
		serve_height: if mode.contains("body") { 0 } else { state_sync_height(&world, !mode.contains("zip")) },
		byz_redundant: mode.contains("byz"),
		serve_tip: None,
		alt_tip: None,
		alt_mode: if mode.contains("announce") { 1 } else { 0 },
		short_batches: mode.contains("short"),
	};
	let mut cfg = cfg;
	if mode.contains("grow") {
		if let Some((a, b)) = grow_tips(&world, cfg.serve_height) {
			eprintln!("growing chain: first tip h{}, later tip h{}", world.blocks[a].height, world.blocks[b].height);
			cfg.serve_tip = Some(a);
			cfg.serve_height = 0;
			cfg.alt_tip = Some(b);
		}
	}
	if mode.contains("reorg") {
		let mut rr = SimRng::new(seed).fork("reorg-branch");
		match add_reorg_branch(&mut world, cfg.serve_height, &mut rr) {
			Ok(Some((a, b))) => {
				eprintln!("reorg branch: first tip #{} h{} td {}, heavier tip #{} h{} td {}", a, world.blocks[a].height, world.blocks[a].total_difficulty, b, world.blocks[b].height, world.blocks[b].total_difficulty);
				cfg.serve_tip = Some(a);
				cfg.serve_height = 0;
				cfg.alt_tip = Some(b);
			}
			other => eprintln!("no reorg branch: {:?}", other),
		}
	}
	let t1 = std::time::Instant::now();
	let out = sync_loop_run(&world, seed ^ 0x55, "syncdbg", &cfg);
	eprintln!("run took {:?}, ticks {}, simulated {:.1} s", t1.elapsed(), out.ticks, out.sim_time_s);
	for l in out.log.iter().rev().take(15).rev() {
		println!("{}", l);
	}
	println!("probes {:?}", out.probes);
	println!("faults {:?}", out.faults);
	match out.violation {
		Some(v) => println!("VIOLATION {}: {}", v.key, v.what),
		None => println!("no violation"),
	}
	world.cleanup();
}

// ------------------------------------------------------------------------------------------
// cases

fn cfg_json(cfg: &SyncCfg) -> Value {
	serde_json::json!({"prop": cfg.prop, "pre": cfg.pre, "pibd_peer": cfg.pibd_peer, "faulty": cfg.faulty, "restarts": cfg.restarts,
		"compact_server": cfg.compact_server, "fault_ticks": cfg.fault_ticks, "serve_height": cfg.serve_height, "byz_redundant": cfg.byz_redundant,
		"serve_tip": cfg.serve_tip, "alt_tip": cfg.alt_tip, "alt_mode": cfg.alt_mode, "short_batches": cfg.short_batches})
}

fn cfg_from(v: &Value) -> SyncCfg {
	SyncCfg {
		prop: v["prop"].as_str().unwrap_or("C16").to_string(),
		pre: v["pre"].as_array().map(|a| a.iter().filter_map(|x| x.as_u64().map(|n| n as usize)).collect()).unwrap_or_default(),
		pibd_peer: v["pibd_peer"].as_bool().unwrap_or(true),
		faulty: v["faulty"].as_bool().unwrap_or(false),
		restarts: v["restarts"].as_u64().unwrap_or(0) as u32,
		compact_server: v["compact_server"].as_bool().unwrap_or(false),
		fault_ticks: v["fault_ticks"].as_u64().unwrap_or(0),
		serve_height: v["serve_height"].as_u64().unwrap_or(0),
		byz_redundant: v["byz_redundant"].as_bool().unwrap_or(false),
		serve_tip: v["serve_tip"].as_u64().map(|n| n as usize),
		alt_tip: v["alt_tip"].as_u64().map(|n| n as usize),
		alt_mode: v["alt_mode"].as_u64().unwrap_or(0) as u32,
		short_batches: v["short_batches"].as_bool().unwrap_or(false),
	}
}

/// Fold one run into a case result. Returns true when the run reported a violation.
pub fn fold(res: &mut crate::sim::CaseResult, out: SyncOutcome, cfg: &SyncCfg, run_seed: u64, world_replay: Value) -> bool {
	res.runs += 1;
	res.probe("syncloop_runs");
	res.steps += out.ticks;
	res.sim_time_s += out.sim_time_s;
	for (k, v) in &out.probes {
		res.probe_n(k, *v);
	}
	for (k, v) in &out.faults {
		res.fault_n(&format!("sync:{}", k), *v);
	}
	for s in &out.states {
		res.states.insert(*s);
	}
	res.run_digests.push((crate::rng::fnv64(out.log.join("\n").as_bytes()) ^ run_seed, cfg.faulty || !cfg.pre.is_empty()));
	if let Some(mut v) = out.violation {
		v.replay = serde_json::json!({"engine": "syncsim", "property": cfg.prop, "world": world_replay, "run_seed": run_seed, "cfg": cfg_json(cfg),
			"log_tail": out.log.iter().rev().take(30).cloned().collect::<Vec<_>>()});
		res.violations.push(v);
		return true;
	}
	false
}

/// C16: the sync loop against the world of a pibdsim case (state sync through the real StateSync:
/// PIBD with its request tracking, timeouts and peer exclusion, or - when the peer does not advertise
/// PIBD - the archive after the loop's 660 s fall-back; then body sync to the tip).
pub fn runs_for_c16(world: &mut World, res: &mut crate::sim::CaseResult, seed: u64, case: u64, long: bool, quiet: bool, thorough: bool) {
	let rng = SimRng::new(seed);
	let world_replay = serde_json::json!({"kind": "pibd", "case_seed": seed, "long": long, "fat": false, "quiet": quiet});
	// (pibd peer?, faulty?, restarts)
	let mut plan: Vec<(bool, bool, u32)> = if long { vec![(false, case % 2 == 0, 1)] } else if case % 2 == 0 { vec![(true, false, 0), (false, true, 1)] } else { vec![(true, true, 2), (false, false, 0)] };
	if thorough && !long {
		plan.push((true, true, 1));
		plan.push((false, true, 2));
	}
	if !long && case % 2 == 1 {
		// a byzantine segment the validation does not bind, through the wire and the real loop
		plan.push((true, true, 9));
	}
	for (i, (pibd, faulty, restarts)) in plan.into_iter().enumerate() {
		let byz = restarts == 9;
		let restarts = if byz { 0 } else { restarts };
		let mut rr = rng.fork(&format!("syncloop{}", i));
		let cfg = SyncCfg {
			prop: "C16".into(),
			pre: vec![],
			pibd_peer: pibd,
			faulty,
			restarts: if faulty { restarts } else { 0 },
			compact_server: long,
			fault_ticks: if faulty { rr.range(60, 220) } else { 0 },
			serve_height: state_sync_height(world, pibd),
			byz_redundant: byz,
			serve_tip: None,
			alt_tip: None,
			alt_mode: 0,
			short_batches: false,
		};
		let rs = rr.next_u64();
		let out = sync_loop_run(world, rs, &format!("sync16-c{}r{}", case, i), &cfg);
		if fold(res, out, &cfg, rs, world_replay.clone()) {
			return;
		}
	}
	// last run on a small world: the archive header moves under a half assembled state. Either the
	// serving node reorganises onto a heavier branch that leaves its chain below the archive header
	// (this grows the world, hence last), or its chain simply grows past the next archive interval;
	// the receiver's header chain follows after a restart, or through header announcements.
	if !long {
		let mut rr = rng.fork("reorg-branch");
		let sh = state_sync_height(world, true);
		let reorg = case % 4 < 2;
		let tips = if reorg { add_reorg_branch(world, sh, &mut rr) } else { Ok(grow_tips(world, sh)) };
		match tips {
			Ok(Some((tip_a, tip_b))) => {
				let faulty = (case / 4) % 2 == 1;
				let cfg = SyncCfg {
					prop: "C16".into(),
					pre: vec![],
					pibd_peer: true,
					faulty,
					restarts: 0,
					compact_server: false,
					fault_ticks: if faulty { rr.range(40, 120) } else { 0 },
					serve_height: 0,
					byz_redundant: false,
					serve_tip: Some(tip_a),
					alt_tip: Some(tip_b),
					alt_mode: (case % 2) as u32,
					short_batches: false,
				};
				let rs = rr.next_u64();
				let mut wr = world_replay.clone();
				wr["reorg_branch"] = serde_json::json!(reorg);
				res.probe(if reorg { "archive_header_moved_runs_reorg" } else { "archive_header_moved_runs_growth" });
				let out = sync_loop_run(world, rs, &format!("sync16-c{}moved", case), &cfg);
				fold(res, out, &cfg, rs, wr);
			}
			Ok(None) => res.probe("archive_header_moved_run_not_built"),
			Err(e) => res.harness_error = Some(format!("reorg branch: {}", e)),
		}
	}
}

/// A branch for the receiver to start on that the served chain outweighs by far more than the sync
/// loop's "close to the tip" threshold (five blocks' work): 5-8 blocks hanging 12-16 blocks below the
/// winner's tip (inside the horizon, so that header sync + body sync have to do it). A peer that
/// sends its headers a few at a time then delivers several batches that carry less work than the
/// receiver's own header head before the served branch overtakes it; nothing but the loop itself can
/// bring the node over (the gossip tail stays out of it: more than five blocks to go).
pub fn add_deep_lighter_branch(world: &mut World) -> Option<Vec<usize>> {
	let winner = world.winner();
	let wpath = world.path_to(winner);
	let wh = world.blocks[winner].height;
	if wh < 13 {
		return None;
	}
	let fork_h = wh.saturating_sub(16).max(1);
	let depth = (wh - fork_h).saturating_sub(7).min(8);
	if depth < 5 {
		return None;
	}
	let mut p = *wpath.iter().find(|i| world.blocks[**i].height == fork_h)?;
	let br = world.blocks.iter().map(|b| b.branch).max().unwrap_or(0) + 1;
	for _ in 0..depth {
		p = world.extend(p, br).ok()?;
	}
	if world.winner() != winner {
		return None;
	}
	Some(world.path_to(p))
}

/// C03: a chainsim world (forks inside the horizon, real proof of work) reaches the node through its
/// own sync loop. The receiver starts on a branch the serving chain outweighs, on a prefix of the
/// serving chain, or empty.
pub fn case_c03(tier: &str, seed: u64, case: u64) -> crate::sim::CaseResult {
	let t0 = std::time::Instant::now();
	let mut res = crate::sim::CaseResult::new(case, seed);
	let mut world = match crate::checks::build_world_with("C03", tier, seed, crate::netsim::net_world_tweak) {
		Ok(w) => w,
		Err(e) => {
			res.harness_error = Some(format!("world generation failed: {}", e));
			return res;
		}
	};
	res.extra.insert("syncloop_worlds".into(), serde_json::json!(1));
	let world_replay = serde_json::json!({"kind": "chain", "property": "C03", "tier": tier, "case_seed": seed});
	let winner = world.winner();
	let wpath = world.path_to(winner);
	let wh = world.blocks[winner].height;
	let rng = SimRng::new(seed).fork("sync-c03");
	// starting points: every losing leaf (its whole branch), then a prefix, then nothing
	let mut starts: Vec<Vec<usize>> = vec![];
	for leaf in world.leaves() {
		if leaf != winner && leaf != 0 {
			starts.push(world.path_to(leaf));
		}
	}
	starts.truncate(if tier == "thorough" { 6 } else { 2 });
	if wh > 14 {
		starts.push(wpath.iter().cloned().take((wh - 12) as usize).collect());
	}
	starts.push(vec![]);
	// first of all: from a branch far behind, against a peer that sends headers a few at a time
	let deep = add_deep_lighter_branch(&mut world);
	let has_deep = deep.is_some();
	if let Some(d) = deep {
		starts.insert(0, d);
		res.probe("sync_start_on_deep_lighter_branch");
	}
	let mut world_replay = world_replay;
	world_replay["deep_branch"] = serde_json::json!(has_deep);
	for (i, pre) in starts.into_iter().enumerate() {
		let mut rr = rng.fork(&format!("run{}", i));
		// where the receiver's chain leaves the serving chain
		let fork_h = pre.iter().filter(|id| wpath.contains(id)).map(|id| world.blocks[*id].height).max().unwrap_or(0);
		let body_only = fork_h + 20 >= wh;
		if body_only {
			res.probe("sync_start_inside_horizon");
		} else {
			res.probe("sync_start_below_horizon");
		}
		if pre.iter().any(|id| !wpath.contains(id)) {
			res.probe("sync_start_on_lighter_branch");
		}
		let deep_run = has_deep && i == 0;
		let faulty = i % 2 == 0 && !deep_run;
		let pibd = rr.chance(1, 2);
		let cfg = SyncCfg {
			prop: "C03".into(),
			pre,
			pibd_peer: pibd,
			faulty,
			restarts: if faulty { rr.below(2) as u32 } else { 0 },
			compact_server: false,
			fault_ticks: if faulty { rr.range(40, 160) } else { 0 },
			serve_height: if body_only { 0 } else { state_sync_height(&world, pibd) },
			byz_redundant: false,
			serve_tip: None,
			alt_tip: None,
			alt_mode: 0,
			short_batches: false,
		};
		let mut cfg = cfg;
		// a receiver on a lighter branch always meets a peer that sends its headers a few at a time
		cfg.short_batches = cfg.pre.iter().any(|id| !wpath.contains(id)) || i % 3 == 1;
		if cfg.short_batches {
			res.probe("sync_runs_with_short_header_batches");
		}
		if !body_only && cfg.serve_height < 30 {
			// too short for a state sync (the archive header would be genesis)
			res.probe("sync_run_skipped_world_too_short");
			continue;
		}
		let rs = rr.next_u64();
		let out = sync_loop_run(&world, rs, &format!("sync03-c{}r{}", case, i), &cfg);
		if fold(&mut res, out, &cfg, rs, world_replay.clone()) {
			break;
		}
	}
	world.cleanup();
	res.wall_s = t0.elapsed().as_secs_f64();
	res
}

pub fn replay(rp: &Value) -> Result<Option<Violation>, String> {
	let w = &rp["world"];
	let seed = w["case_seed"].as_u64().ok_or("case_seed")?;
	let mut world = match w["kind"].as_str() {
		Some("pibd") => crate::pibdsim::build_world(seed, w["long"].as_bool().unwrap_or(false), w["fat"].as_bool().unwrap_or(false), w["quiet"].as_bool().unwrap_or(false))?,
		_ => crate::checks::build_world_with(w["property"].as_str().unwrap_or("C03"), w["tier"].as_str().unwrap_or("quick"), seed, crate::netsim::net_world_tweak)?,
	};
	if w["deep_branch"].as_bool().unwrap_or(false) {
		add_deep_lighter_branch(&mut world);
	}
	let cfg = cfg_from(&rp["cfg"]);
	if w["reorg_branch"].as_bool().unwrap_or(false) {
		let mut rr = SimRng::new(seed).fork("reorg-branch");
		let sh = state_sync_height(&world, true);
		add_reorg_branch(&mut world, sh, &mut rr)?;
	}
	let rs = rp["run_seed"].as_u64().ok_or("run_seed")?;
	let out = sync_loop_run(&world, rs, "sync-replay", &cfg);
	world.cleanup();
	Ok(out.violation)
}
