//! E7 pibdsim: state sync between a serving node (real `Segmenter`) and a receiving node (real
//! `Desegmenter`) that only has headers. A harness loop mirrors `StateSync::continue_pibd`
//! (apply_next_segments, check_progress, next_desired_segments, then check_update_leaf_set_state
//! and validate_complete_state); requests travel over a simulated network that reorders,
//! duplicates, drops and corrupts segment responses. Second mode: txhashset_read -> zip ->
//! txhashset_write.

use crate::node::Node;
use crate::rng::{fnv64, SimRng};
use crate::sim::{CaseResult, Violation};
use crate::world::{World, WorldCfg};
use grin_chain::txhashset::{BitmapChunk, BitmapSegment, Desegmenter, Segmenter};
use grin_chain::types::{NoStatus, SyncState};
use grin_core::core::hash::{Hash, Hashed};
use grin_core::core::pmmr::segment::{Segment, SegmentIdentifier, SegmentType, SegmentTypeIdentifier};
use grin_core::core::{BlockHeader, OutputIdentifier, TxKernel};
use grin_core::ser::{self, ProtocolVersion, Readable, Writeable};
use grin_util::secp::pedersen::RangeProof;
use grin_util::StopState;
use serde_json::{json, Value};
use std::collections::{BTreeMap, BTreeSet};
use std::sync::Arc;
use std::time::Instant;

fn viol(key: &str, what: String) -> Violation {
	Violation {
		key: format!("C16:{}", key),
		what,
		replay: Value::Null,
	}
}

#[derive(Clone, Debug)]
pub struct RunCfg {
	pub heights: (u8, u8, u8, u8),
	pub dup_pct: u64,
	pub drop_pct: u64,
	pub corrupt_pct: u64,
	pub header_chunk: usize,
	pub zip_mode: bool,
	pub deliver_per_round: usize,
}

impl RunCfg {
	pub fn draw(rng: &mut SimRng) -> RunCfg {
		RunCfg {
			heights: (rng.range(0, 3) as u8, rng.range(1, 4) as u8, rng.range(1, 4) as u8, rng.range(1, 4) as u8),
			dup_pct: *rng.pick(&[0u64, 10, 30]),
			drop_pct: *rng.pick(&[0u64, 10, 25]),
			corrupt_pct: *rng.pick(&[0u64, 15, 35]),
			header_chunk: rng.range(1, 20) as usize,
			zip_mode: rng.chance(1, 6),
			deliver_per_round: rng.range(1, 8) as usize,
		}
	}
}

/// A response in flight: serialized so that corruption happens on the wire form.
#[derive(Clone)]
struct Response {
	id: SegmentTypeIdentifier,
	bytes: Vec<u8>,
	/// root that travels next to the segment (bitmap: output root, output: bitmap root)
	other_root: Option<Hash>,
	corrupted: Option<String>,
	proof_hashes: usize,
	n_hashes: usize,
	n_leaves: usize,
}

fn sv<T: Writeable>(t: &T) -> Vec<u8> {
	ser::ser_vec(t, ProtocolVersion::local()).expect("ser_vec")
}

fn de<T: Readable>(b: &[u8]) -> Result<T, ser::Error> {
	ser::deserialize(&mut &b[..], ProtocolVersion::local(), ser::DeserializationMode::default())
}

fn serve(seg: &Segmenter, id: &SegmentTypeIdentifier) -> Result<Response, String> {
	let mk = |bytes: Vec<u8>, other: Option<Hash>, p: usize, h: usize, l: usize| Response {
		id: id.clone(),
		bytes,
		other_root: other,
		corrupted: None,
		proof_hashes: p,
		n_hashes: h,
		n_leaves: l,
	};
	match id.segment_type {
		SegmentType::Bitmap => {
			let (s, root) = seg.bitmap_segment(id.identifier).map_err(|e| format!("{:?}", e))?;
			let (p, h, l) = (s.proof().size(), s.hash_iter().count(), s.leaf_iter().count());
			let bs: BitmapSegment = s.into();
			Ok(mk(sv(&bs), Some(root), p, h, l))
		}
		SegmentType::Output => {
			let (s, root) = seg.output_segment(id.identifier).map_err(|e| format!("{:?}", e))?;
			let (p, h, l) = (s.proof().size(), s.hash_iter().count(), s.leaf_iter().count());
			Ok(mk(sv(&s), Some(root), p, h, l))
		}
		SegmentType::RangeProof => {
			let s = seg.rangeproof_segment(id.identifier).map_err(|e| format!("{:?}", e))?;
			let (p, h, l) = (s.proof().size(), s.hash_iter().count(), s.leaf_iter().count());
			Ok(mk(sv(&s), None, p, h, l))
		}
		SegmentType::Kernel => {
			let s = seg.kernel_segment(id.identifier).map_err(|e| format!("{:?}", e))?;
			let (p, h, l) = (s.proof().size(), s.hash_iter().count(), s.leaf_iter().count());
			Ok(mk(sv(&s), None, p, h, l))
		}
	}
}

/// One single-element corruption of a serialized segment (not for bitmap segments, whose wire form
/// is block-compressed: those get byte flips in the chunk area or the proof).
fn corrupt(r: &Response, rng: &mut SimRng, unspent: &BTreeSet<u64>, out_mmr_size: u64) -> Option<Response> {
	let mut out = r.clone();
	let n = r.bytes.len();
	let proof_start = n.checked_sub(8 + 32 * r.proof_hashes)?;
	let kind;
	if r.id.segment_type == SegmentType::Bitmap {
		// identifier (9 bytes) | blocks ... | proof
		match rng.below(3) {
			0 if r.proof_hashes > 0 => {
				let o = proof_start + 8 + rng.usize_below(32 * r.proof_hashes);
				out.bytes[o] ^= 1 << rng.below(8);
				kind = "proof-hash";
			}
			1 => {
				out.bytes[1 + rng.usize_below(8)] ^= 1 << rng.below(3);
				kind = "identifier";
			}
			_ => {
				if proof_start <= 12 {
					return None;
				}
				let o = 11 + rng.usize_below(proof_start - 11);
				out.bytes[o] ^= 1 << rng.below(8);
				kind = "bitmap-chunk-bits";
			}
		}
		out.corrupted = Some(kind.to_string());
		return Some(out);
	}
	let hash_pos_start = 17;
	let hashes_start = hash_pos_start + 8 * r.n_hashes;
	let nl_off = hashes_start + 32 * r.n_hashes;
	let leaf_pos_start = nl_off + 8;
	let leaf_data_start = leaf_pos_start + 8 * r.n_leaves;
	if leaf_data_start > proof_start {
		return None;
	}
	// leaves whose data the reconstructed root depends on: every kernel; for outputs / rangeproofs the
	// leaves the bitmap marks unspent (or whose sibling it does), and the very last leaf of the MMR
	let mut bound: Vec<usize> = vec![];
	for i in 0..r.n_leaves {
		let o = leaf_pos_start + 8 * i;
		let mut b8 = [0u8; 8];
		b8.copy_from_slice(&r.bytes[o..o + 8]);
		let pos1 = u64::from_be_bytes(b8);
		if pos1 == 0 {
			continue;
		}
		let idx = grin_core::core::pmmr::n_leaves(pos1) - 1;
		let is_bound = r.id.segment_type == SegmentType::Kernel || unspent.contains(&idx) || unspent.contains(&(idx ^ 1)) || pos1 == out_mmr_size;
		if is_bound {
			bound.push(i);
		}
	}
	let data_len = proof_start - leaf_data_start;
	let fixed = r.n_leaves > 0 && data_len % r.n_leaves == 0;
	let each = if fixed { data_len / r.n_leaves } else { 0 };
	match rng.below(7) {
		0 if !bound.is_empty() && fixed => {
			let i = *rng.pick(&bound);
			let o = leaf_data_start + each * i + rng.usize_below(each);
			out.bytes[o] ^= 1 << rng.below(8);
			kind = "leaf-data";
			if std::env::var("VERIF_DEBUG").is_ok() {
				let po = leaf_pos_start + 8 * i;
				let mut b8 = [0u8; 8];
				b8.copy_from_slice(&r.bytes[po..po + 8]);
				let pos1 = u64::from_be_bytes(b8);
				let idx = grin_core::core::pmmr::n_leaves(pos1) - 1;
				eprintln!(
					"  corrupt leaf-data: segment {:?} leaf #{} of {} pos1 {} idx {} unspent {} sibling-unspent {} last {} record {} bytes, byte {} of the record",
					ident_key(&r.id), i, r.n_leaves, pos1, idx, unspent.contains(&idx), unspent.contains(&(idx ^ 1)), pos1 == out_mmr_size, each, o - leaf_data_start - each * i
				);
			}
		}
		1 if !bound.is_empty() => {
			let i = *rng.pick(&bound);
			let o = leaf_pos_start + 8 * i + 7;
			out.bytes[o] ^= 2;
			kind = "leaf-position";
		}
		2 if r.n_hashes > 0 => {
			let o = hashes_start + rng.usize_below(32 * r.n_hashes);
			out.bytes[o] ^= 1 << rng.below(8);
			kind = "pruned-subtree-hash";
		}
		3 if r.proof_hashes > 0 => {
			let o = proof_start + 8 + rng.usize_below(32 * r.proof_hashes);
			out.bytes[o] ^= 1 << rng.below(8);
			kind = "proof-hash";
		}
		4 => {
			// identifier: height or index
			if rng.chance(1, 2) {
				out.bytes[0] = out.bytes[0].wrapping_add(1);
			} else {
				out.bytes[8] = out.bytes[8].wrapping_add(1);
			}
			kind = "identifier";
			if std::env::var("VERIF_DEBUG").is_ok() {
				eprintln!("  corrupt identifier: segment {:?} -> height {} idx bytes {:?}; leaves {} hashes {} proof hashes {} mmr {}", ident_key(&r.id), out.bytes[0], &out.bytes[1..9], r.n_leaves, r.n_hashes, r.proof_hashes, out_mmr_size);
			}
		}
		5 if r.n_leaves > 1 && fixed => {
			// omit one leaf the bitmap marks unspent (count, position and data removed)
			let cands: Vec<usize> = bound
				.iter()
				.cloned()
				.filter(|i| {
					let o = leaf_pos_start + 8 * i;
					let mut b8 = [0u8; 8];
					b8.copy_from_slice(&r.bytes[o..o + 8]);
					let idx = grin_core::core::pmmr::n_leaves(u64::from_be_bytes(b8)) - 1;
					r.id.segment_type == SegmentType::Kernel || unspent.contains(&idx)
				})
				.collect();
			if cands.is_empty() {
				return None;
			}
			let i = *rng.pick(&cands);
			let mut b = r.bytes.clone();
			b.drain(leaf_data_start + each * i..leaf_data_start + each * (i + 1));
			b.drain(leaf_pos_start + 8 * i..leaf_pos_start + 8 * (i + 1));
			let cnt = (r.n_leaves as u64 - 1).to_be_bytes();
			b[nl_off..nl_off + 8].copy_from_slice(&cnt);
			out.bytes = b;
			kind = "leaf-omitted";
		}
		_ => {
			if let Some(root) = out.other_root {
				let mut v = root.to_vec();
				v[rng.usize_below(32)] ^= 1;
				out.other_root = Some(Hash::from_vec(&v));
				kind = "companion-root";
			} else {
				return None;
			}
		}
	}
	// a flipped bit the decoder ignores (e.g. the clamped length prefix of a range proof) leaves the
	// decoded segment identical to the honest one: that is not a changed segment
	if out.other_root == r.other_root && canonical(&out).as_deref() == Some(&r.bytes[..]) {
		return None;
	}
	out.corrupted = Some(kind.to_string());
	Some(out)
}

/// The bytes the node itself would write for the segment it decodes from `r` (None if undecodable).
fn canonical(r: &Response) -> Option<Vec<u8>> {
	match r.id.segment_type {
		SegmentType::Bitmap => de::<BitmapSegment>(&r.bytes).ok().map(|s| sv(&s)),
		SegmentType::Output => de::<Segment<OutputIdentifier>>(&r.bytes).ok().map(|s| sv(&s)),
		SegmentType::RangeProof => de::<Segment<RangeProof>>(&r.bytes).ok().map(|s| sv(&s)),
		SegmentType::Kernel => de::<Segment<TxKernel>>(&r.bytes).ok().map(|s| sv(&s)),
	}
}

/// Deliver one response to the desegmenter the way NetToChainAdapter::receive_*_segment does.
fn deliver(d: &mut Desegmenter, r: &Response) -> Result<(), String> {
	match r.id.segment_type {
		SegmentType::Bitmap => {
			let bs: BitmapSegment = de(&r.bytes).map_err(|e| format!("decode: {:?}", e))?;
			let s: Segment<BitmapChunk> = bs.into_segment().map_err(|e| format!("into_segment: {:?}", e))?;
			d.add_bitmap_segment(s, r.other_root.unwrap_or_default()).map_err(|e| format!("{:?}", e))
		}
		SegmentType::Output => {
			let s: Segment<OutputIdentifier> = de(&r.bytes).map_err(|e| format!("decode: {:?}", e))?;
			d.add_output_segment(s, r.other_root).map_err(|e| format!("{:?}", e))
		}
		SegmentType::RangeProof => {
			let s: Segment<RangeProof> = de(&r.bytes).map_err(|e| format!("decode: {:?}", e))?;
			d.add_rangeproof_segment(s).map_err(|e| format!("{:?}", e))
		}
		SegmentType::Kernel => {
			let s: Segment<TxKernel> = de(&r.bytes).map_err(|e| format!("decode: {:?}", e))?;
			d.add_kernel_segment(s).map_err(|e| format!("{:?}", e))
		}
	}
}

fn ident_key(id: &SegmentTypeIdentifier) -> (u8, u8, u64) {
	let t = match id.segment_type {
		SegmentType::Bitmap => 0,
		SegmentType::Output => 1,
		SegmentType::RangeProof => 2,
		SegmentType::Kernel => 3,
	};
	(t, id.identifier.height, id.identifier.idx)
}

pub struct Outcome {
	pub violation: Option<Violation>,
	pub log: Vec<String>,
	pub rounds: u64,
	pub probes: BTreeMap<String, u64>,
	pub faults: BTreeMap<String, u64>,
}

/// The honest state archive with one thing changed, re-zipped: (what was changed, the archive).
fn hostile_archive(honest: std::fs::File, ah: &BlockHeader, rng: &mut SimRng, work: &std::path::Path, target: Option<&str>) -> Result<(String, std::fs::File), String> {
	use std::io::{Read, Seek, SeekFrom, Write};
	use std::path::PathBuf;
	let files: Vec<PathBuf> = vec![
		PathBuf::from("kernel/pmmr_data.bin"),
		PathBuf::from("kernel/pmmr_hash.bin"),
		PathBuf::from("output/pmmr_data.bin"),
		PathBuf::from("output/pmmr_hash.bin"),
		PathBuf::from("output/pmmr_prun.bin"),
		PathBuf::from("rangeproof/pmmr_data.bin"),
		PathBuf::from("rangeproof/pmmr_hash.bin"),
		PathBuf::from("rangeproof/pmmr_prun.bin"),
		PathBuf::from(format!("output/pmmr_leaf.bin.{}", ah.hash())),
		PathBuf::from(format!("rangeproof/pmmr_leaf.bin.{}", ah.hash())),
	];
	let zip_path = work.join("hostile.zip");
	let kind = if target.is_some() { 0 } else { rng.below(8) };
	if kind == 7 {
		// not a sound zip at all: the honest archive cut in half, or noise
		let mut bytes = vec![];
		let mut h = honest;
		h.seek(SeekFrom::Start(0)).map_err(|e| e.to_string())?;
		h.read_to_end(&mut bytes).map_err(|e| e.to_string())?;
		let what = if rng.chance(1, 2) {
			bytes.truncate(bytes.len() / 2);
			"zip-truncated"
		} else {
			bytes = rng.bytes(4096);
			"zip-noise"
		};
		std::fs::write(&zip_path, &bytes).map_err(|e| e.to_string())?;
		return Ok((what.to_string(), std::fs::File::open(&zip_path).map_err(|e| e.to_string())?));
	}
	let src = work.join("x");
	std::fs::create_dir_all(&src).map_err(|e| e.to_string())?;
	grin_util::zip::extract_files(honest, &src, files.clone()).map_err(|e| e.to_string())?;
	let present: Vec<PathBuf> = files.iter().filter(|f| std::fs::metadata(src.join(f)).map(|m| m.len() > 0).unwrap_or(false)).cloned().collect();
	if present.is_empty() {
		return Err("empty archive".into());
	}
	let pick = match target {
		Some(t) if present.iter().any(|p| p.to_str() == Some(t)) => PathBuf::from(t),
		_ => present[rng.usize_below(present.len())].clone(),
	};
	let name = pick.to_str().unwrap_or("").split(".bin").next().unwrap_or("").to_string();
	let path = src.join(&pick);
	let len = std::fs::metadata(&path).map(|m| m.len()).unwrap_or(0);
	let what = match kind {
		0 | 1 => {
			// the files reach up to the serving node's head: three flips in four land in the part
			// the archive header commits to
			let off = if rng.chance(3, 4) || pick.to_str() == Some("kernel/pmmr_data.bin") { rng.below((len * 2 / 5).max(1)) } else { rng.below(len) };
			let mut b = std::fs::read(&path).map_err(|e| e.to_string())?;
			b[off as usize] ^= 1 << rng.below(8);
			std::fs::write(&path, &b).map_err(|e| e.to_string())?;
			format!("byte-flip@{}:{}", name, off)
		}
		2 => {
			let cut = (*rng.pick(&[1u64, 8, 32, 33, 40])).min(len);
			let f = std::fs::OpenOptions::new().write(true).open(&path).map_err(|e| e.to_string())?;
			f.set_len(len - cut).map_err(|e| e.to_string())?;
			format!("truncate@{}:-{}", name, cut)
		}
		3 => {
			std::fs::remove_file(&path).map_err(|e| e.to_string())?;
			format!("file-removed@{}", name)
		}
		4 => {
			let a = src.join(&files[8]);
			let b = src.join(&files[9]);
			let (da, db) = (std::fs::read(&a).unwrap_or_default(), std::fs::read(&b).unwrap_or_default());
			if da == db {
				// identical leaf sets: empty one of them instead
				std::fs::write(&a, b"").map_err(|e| e.to_string())?;
				"leaf-set-emptied@output".to_string()
			} else {
				std::fs::write(&a, &db).map_err(|e| e.to_string())?;
				std::fs::write(&b, &da).map_err(|e| e.to_string())?;
				"leaf-sets-swapped".to_string()
			}
		}
		5 => {
			let mut f = std::fs::OpenOptions::new().append(true).open(&path).map_err(|e| e.to_string())?;
			let n = *rng.pick(&[1usize, 32, 33, 64, 100]);
			f.write_all(&rng.bytes(n)).map_err(|e| e.to_string())?;
			format!("junk-appended@{}:+{}", name, n)
		}
		_ => {
			// the second quarter of one file overwritten with its first quarter (same length, entries
			// of the right shape in the wrong places)
			let mut b = std::fs::read(&path).map_err(|e| e.to_string())?;
			let q = b.len() / 4;
			let first: Vec<u8> = b[..q].to_vec();
			b[q..2 * q].copy_from_slice(&first);
			std::fs::write(&path, &b).map_err(|e| e.to_string())?;
			format!("quarter-repeated@{}", name)
		}
	};
	let dst = std::fs::OpenOptions::new().create(true).write(true).read(true).truncate(true).open(&zip_path).map_err(|e| e.to_string())?;
	grin_util::zip::create_zip(&dst, &src, files).map_err(|e| e.to_string())?;
	drop(dst);
	Ok((what, std::fs::File::open(&zip_path).map_err(|e| e.to_string())?))
}

/// One state sync of a fresh receiver from the world's builder node.
pub fn run(world: &World, cfg: &RunCfg, seed: u64, tag: &str) -> Outcome {
	let mut rng = SimRng::new(seed);
	let mut log: Vec<String> = vec![];
	let mut probes: BTreeMap<String, u64> = BTreeMap::new();
	let mut faults: BTreeMap<String, u64> = BTreeMap::new();
	let mut bump = |m: &mut BTreeMap<String, u64>, k: &str| *m.entry(k.to_string()).or_insert(0) += 1;
	let server = world.builder.chain();
	let mut receiver = Node::create(&format!("{}-recv", tag), world.genesis.clone());
	let finish = |receiver: &mut Node, v: Option<Violation>, log: Vec<String>, rounds: u64, probes, faults| {
		receiver.destroy();
		Outcome { violation: v, log, rounds, probes, faults }
	};
	grin_chain::pibd_params::verif::set_segment_heights(cfg.heights.0, cfg.heights.1, cfg.heights.2, cfg.heights.3);
	// headers first, in chunks
	let path = world.path_to(world.winner());
	let headers: Vec<BlockHeader> = path.iter().map(|i| world.blocks[*i].block.header.clone()).collect();
	for chunk in headers.chunks(cfg.header_chunk) {
		let sh = receiver.chain().header_head().unwrap();
		if let Err(e) = receiver.chain().sync_block_headers(chunk, sh, world.opts) {
			let v = viol("header-sync-failed", format!("receiver refused honest headers: {:?}", e));
			return finish(&mut receiver, Some(v), log, 0, probes, faults);
		}
	}
	let ah = match receiver.chain().txhashset_archive_header_header_only() {
		Ok(h) => h,
		Err(e) => return finish(&mut receiver, Some(viol("archive-header", format!("{:?}", e))), log, 0, probes, faults),
	};
	let server_ah = server.txhashset_archive_header().ok();
	if server_ah.as_ref().map(|h| h.hash()) != Some(ah.hash()) {
		return finish(&mut receiver, Some(viol("archive-header-differs", format!("server offers {:?}, receiver expects {}@{}", server_ah.map(|h| h.height), ah.hash(), ah.height))), log, 0, probes, faults);
	}
	let archive_id = world.id_of_hash(&ah.hash()).unwrap_or(0);
	log.push(format!("archive header h{} cfg {:?}", ah.height, cfg));
	let unspent_idx: BTreeSet<u64> = world.blocks[archive_id].ledger.values().map(|o| o.leaf).collect();

	// reference: a node that processed every block up to the archive header
	let mut reference = Node::create(&format!("{}-ref", tag), world.genesis.clone());
	for id in world.path_to(archive_id) {
		if let Err(e) = reference.chain().process_block(world.blocks[id].block.clone(), world.opts) {
			reference.destroy();
			return finish(&mut receiver, Some(viol("reference-failed", format!("{:?}", e))), log, 0, probes, faults);
		}
	}
	let ref_digest = reference.digest().ok();
	// Merkle proofs of the unspent outputs at the archive header: they depend on inner hashes of the
	// output MMR that no root check of the receiver looks at
	let ref_proofs: Vec<(Vec<u8>, Option<Vec<u8>>)> = world.blocks[archive_id]
		.ledger
		.values()
		.take(200)
		.map(|o| (o.commit.0.to_vec(), reference.chain().get_merkle_proof_for_pos(o.commit).ok().map(|p| sv(&p))))
		.collect();
	reference.destroy();
	let ref_digest = match ref_digest {
		Some(d) => d,
		None => return finish(&mut receiver, Some(viol("reference-digest", "".into())), log, 0, probes, faults),
	};

	let mut rounds = 0u64;
	if cfg.zip_mode {
		bump(&mut probes, "zip_mode");
		// byzantine archives first (faulty runs): the honest archive with one thing changed, re-zipped.
		// Each is refused with the receiver untouched, or - if what was changed binds nothing - leads
		// to the very state of the reference node; never a panic, never another state.
		let mut finalized_by_hostile = false;
		if cfg.corrupt_pct > 0 {
			let before = receiver.digest().ok();
			for attempt in 0..10 {
				let work = crate::node::fresh_dir(&format!("{}-hz{}", tag, attempt));
				// (an accepted archive - one whose change binds nothing - ends the series: the flips in the
				// kernel data, which only the receiver's own signature check binds, come early, the flip
				// in the output data, often in a spent output and then accepted, last)
				let target = match attempt {
					1 | 2 | 3 => Some("kernel/pmmr_data.bin"),
					4 => Some("output/pmmr_hash.bin"),
					5 => Some("rangeproof/pmmr_hash.bin"),
					6 => Some("kernel/pmmr_hash.bin"),
					9 => Some("output/pmmr_data.bin"),
					_ => None,
				};
				let made = match server.txhashset_read(ah.hash()) {
					Ok((_o, _k, file)) => hostile_archive(file, &ah, &mut rng, &work, target),
					Err(e) => Err(format!("txhashset_read: {:?}", e)),
				};
				let (what, file) = match made {
					Ok(x) => x,
					Err(e) => {
						let _ = std::fs::remove_dir_all(&work);
						log.push(format!("hostile archive not built: {}", e));
						continue;
					}
				};
				bump(&mut faults, &format!("hostile_archive:{}", what.split('@').next().unwrap_or("")));
				let chain = receiver.chain();
				let hh = ah.hash();
				let res = std::panic::catch_unwind(std::panic::AssertUnwindSafe(|| chain.txhashset_write(hh, file, &NoStatus)));
				let _ = std::fs::remove_dir_all(&work);
				match res {
					Err(p) => {
						let msg = p.downcast_ref::<String>().cloned().or_else(|| p.downcast_ref::<&str>().map(|s| s.to_string())).unwrap_or_else(|| "panic".into());
						let v = viol("archive-panicked", format!("txhashset_write panicked on an archive with {}: {}", what, msg));
						return finish(&mut receiver, Some(v), log, 0, probes, faults);
					}
					Ok(Ok(false)) => {
						log.push(format!("hostile archive ({}) accepted", what));
						if std::env::var("VERIF_DEBUG").is_ok() {
							eprintln!("  hostile archive ({}) accepted", what);
						}
						bump(&mut probes, "hostile_archive_accepted");
						bump(&mut probes, &format!("hostile_archive_accepted:{}", what.split(':').next().unwrap_or("")));
						finalized_by_hostile = true;
						break;
					}
					Ok(other) => {
						log.push(format!("hostile archive ({}) refused: {:?}", what, other.map_err(|e| format!("{:?}", e).chars().take(80).collect::<String>())));
						bump(&mut probes, "hostile_archive_refused");
						let after = receiver.digest().ok();
						if after != before {
							let v = viol("refused-archive-changed-state", format!("an archive with {} was refused but the receiver went from {:?} to {:?}", what, before.map(|d| d.short()), after.map(|d| d.short())));
							return finish(&mut receiver, Some(v), log, 0, probes, faults);
						}
					}
				}
			}
		}
		if finalized_by_hostile {
			// falls through to the final-state comparison below: it must be the reference state
		} else {
		match server.txhashset_read(ah.hash()) {
			Ok((_o, _k, file)) => {
				let res = receiver.chain().txhashset_write(ah.hash(), file, &NoStatus);
				match res {
					Ok(false) => {}
					other => {
						let v = viol("zip-write-failed", format!("txhashset_write of an honest archive returned {:?}", other.map_err(|e| format!("{:?}", e))));
						return finish(&mut receiver, Some(v), log, 0, probes, faults);
					}
				}
			}
			Err(e) => {
				let v = viol("zip-read-failed", format!("txhashset_read failed on the serving node: {:?}", e));
				return finish(&mut receiver, Some(v), log, 0, probes, faults);
			}
		}
		}
	} else {
		let segmenter = match server.segmenter() {
			Ok(s) => s,
			Err(e) => return finish(&mut receiver, Some(viol("segmenter-failed", format!("{:?}", e))), log, 0, probes, faults),
		};
		// a panic in the constructor (it sizes the bitmap MMR from the archive header) is the node
		// failing to start state sync, not a harness error
		let des_res = std::panic::catch_unwind(std::panic::AssertUnwindSafe(|| receiver.chain().desegmenter(&ah)));
		let des = match des_res {
			Ok(Ok(d)) => d,
			Ok(Err(e)) => return finish(&mut receiver, Some(viol("desegmenter-failed", format!("{:?}", e))), log, 0, probes, faults),
			Err(p) => {
				let msg = p.downcast_ref::<String>().cloned().or_else(|| p.downcast_ref::<&str>().map(|s| s.to_string())).unwrap_or_else(|| "panic".into());
				return finish(&mut receiver, Some(viol("desegmenter-failed", format!("Chain::desegmenter() panicked for an archive header at height {} ({} outputs): {}", ah.height, ah.output_mmr_count(), msg))), log, 0, probes, faults);
			}
		};
		let sync_state = Arc::new(SyncState::new());
		let mut inflight: Vec<Response> = vec![];
		let mut delivered_ok: BTreeSet<(u8, u8, u64)> = BTreeSet::new();
		let mut history: Vec<Response> = vec![];
		let mut bitmap_ready = false;
		let mut accepted_corrupt: Vec<String> = vec![];
		// liveness bound: once faults stop, one segment per delivery slot makes progress; the bound
		// scales with the number of segments the four trees need at the drawn heights
		let seg_count = |mmr_size: u64, h: u8| -> u64 {
			let leaves = grin_core::core::pmmr::n_leaves(mmr_size);
			(leaves + (1u64 << h) - 1) >> h
		};
		let total_segments = seg_count(ah.output_mmr_size, cfg.heights.1) + seg_count(ah.output_mmr_size, cfg.heights.2) + seg_count(ah.kernel_mmr_size, cfg.heights.3) + 4;
		let fault_rounds = 120u64;
		let max_rounds = 400u64.max(fault_rounds + 60 + 3 * total_segments / cfg.deliver_per_round.max(8) as u64);
		let done;
		loop {
			rounds += 1;
			let faults_on = rounds <= fault_rounds;
			let mut guard = des.write();
			let d = guard.as_mut().expect("desegmenter");
			if let Err(e) = d.apply_next_segments() {
				// segments that validated must apply
				let v = if accepted_corrupt.is_empty() {
					viol("apply-failed", format!("round {}: apply_next_segments failed on honest, validated segments: {:?}", rounds, e))
				} else {
					// a corrupted segment slipped through validation and broke assembly: soundness failure
					viol("corrupt-segment-accepted", format!("round {}: a corrupted segment ({:?}) passed add_*_segment and assembly then failed: {:?}", rounds, accepted_corrupt, e))
				};
				drop(guard);
				return finish(&mut receiver, Some(v), log, rounds, probes, faults);
			}
			match d.check_progress(sync_state.clone()) {
				Ok(true) => {
					done = true;
					break;
				}
				Ok(false) => {}
				Err(e) => {
					drop(guard);
					return finish(&mut receiver, Some(viol("check-progress-failed", format!("{:?}", e))), log, rounds, probes, faults);
				}
			}
			// what to ask for: the planner's wishes plus the harness's own enumeration
			let mut wanted: Vec<SegmentTypeIdentifier> = d.next_desired_segments(15);
			// the planner only asks for output/rangeproof/kernel segments once the bitmap is finalized
			if wanted.iter().any(|w| w.segment_type != SegmentType::Bitmap) {
				bitmap_ready = true;
			}
			{
				let t = receiver.chain().txhashset();
				let t = t.read();
				let (lo, lr, lk) = (t.output_mmr_size(), t.rangeproof_mmr_size(), t.kernel_mmr_size());
				let bm_size = d.expected_bitmap_mmr_size();
				let mut add = |ty: SegmentType, size: u64, local: u64, h: u8, wanted: &mut Vec<SegmentTypeIdentifier>| {
					for id in SegmentIdentifier::traversal_iter(size, h) {
						let (_f, last) = id.segment_pos_range(size);
						if last + 1 > local || (local == 1 && id.idx == 0) {
							let sid = SegmentTypeIdentifier::new(ty.clone(), id);
							if !wanted.contains(&sid) && wanted.len() < 40 {
								wanted.push(sid);
							}
						}
					}
				};
				if !bitmap_ready {
					add(SegmentType::Bitmap, bm_size, 0, cfg.heights.0, &mut wanted);
				}
				add(SegmentType::Output, ah.output_mmr_size, lo, cfg.heights.1, &mut wanted);
				add(SegmentType::RangeProof, ah.output_mmr_size, lr, cfg.heights.2, &mut wanted);
				add(SegmentType::Kernel, ah.kernel_mmr_size, lk, cfg.heights.3, &mut wanted);
			}
			if std::env::var("VERIF_DEBUG").is_ok() && rounds % 100 == 0 {
				let t = receiver.chain().txhashset();
				let t = t.read();
				eprintln!(
					"  round {}: local sizes out {} rp {} k {} of ({}, {}, {}); bitmap_ready {} bm_size {}; wanted {:?}; inflight {}; delivered {}",
					rounds,
					t.output_mmr_size(),
					t.rangeproof_mmr_size(),
					t.kernel_mmr_size(),
					ah.output_mmr_size,
					ah.output_mmr_size,
					ah.kernel_mmr_size,
					bitmap_ready,
					d.expected_bitmap_mmr_size(),
					wanted.iter().take(6).map(|w| ident_key(w)).collect::<Vec<_>>(),
					inflight.len(),
					delivered_ok.len()
				);
			}
			for id in wanted {
				if inflight.iter().any(|r| ident_key(&r.id) == ident_key(&id)) {
					continue;
				}
				match serve(&segmenter, &id) {
					Ok(r) => inflight.push(r),
					Err(e) => {
						// the planner may ask for segments the server cannot build (e.g. fully pruned): skip
						log.push(format!("server cannot build {:?}: {}", ident_key(&id), e));
					}
				}
			}
			// network step
			// while faults flow the network reorders freely; afterwards it is benign (in request order,
			// at least 8 deliveries per round) so that the liveness bound measures the node, not the net
			if faults_on {
				rng.shuffle(&mut inflight);
			}
			let per_round = if faults_on { cfg.deliver_per_round } else { cfg.deliver_per_round.max(8) };
			let k = per_round.min(inflight.len());
			let mut batch: Vec<Response> = inflight.drain(..k).collect();
			if faults_on {
				if rng.chance(cfg.dup_pct, 100) && !history.is_empty() {
					batch.push(rng.pick(&history).clone());
					bump(&mut faults, "duplicate");
				}
				let mut kept = vec![];
				for r in batch {
					if rng.chance(cfg.drop_pct, 100) {
						bump(&mut faults, "drop");
						continue;
					}
					if rng.chance(cfg.corrupt_pct, 100) {
						if let Some(c) = corrupt(&r, &mut rng, &unspent_idx, ah.output_mmr_size) {
							bump(&mut faults, &format!("corrupt:{}", c.corrupted.clone().unwrap_or_default()));
							kept.push(c);
							// the honest one is lost; it will be requested again
							continue;
						}
					}
					kept.push(r);
				}
				batch = kept;
			}
			for r in batch {
				// a panic while a received segment is decoded, validated or cached is a violation of its
				// own (validation has to *fail*, not take the node's thread down), not a harness error
				let res = match std::panic::catch_unwind(std::panic::AssertUnwindSafe(|| deliver(d, &r))) {
					Ok(res) => res,
					Err(p) => {
						let msg = p.downcast_ref::<String>().cloned().or_else(|| p.downcast_ref::<&str>().map(|s| s.to_string())).unwrap_or_else(|| "panic".into());
						let key = ident_key(&r.id);
						let v = viol(
							&format!("segment-delivery-panicked:{}", key.0),
							format!("round {}: add_*_segment panicked on segment {:?} (corruption: {:?}): {}", rounds, key, r.corrupted, msg),
						);
						drop(guard);
						return finish(&mut receiver, Some(v), log, rounds, probes, faults);
					}
				};
				let key = ident_key(&r.id);
				match (&r.corrupted, &res) {
					(None, Ok(())) => {
						delivered_ok.insert(key);
						history.push(r.clone());
						if history.len() > 30 {
							history.remove(0);
						}
					}
					(None, Err(e)) => {
						// output / rangeproof segments need the finalized bitmap: before that a refusal is legal
						let early = (key.0 == 1 || key.0 == 2) && !bitmap_ready;
						if !early {
							let v = viol(
								&format!("honest-segment-refused:{}", key.0),
								format!("round {}: honest segment {:?} (heights {:?}) produced by the serving node was refused: {}", rounds, key, cfg.heights, e),
							);
							drop(guard);
							return finish(&mut receiver, Some(v), log, rounds, probes, faults);
						}
						bump(&mut probes, "early_segment_refused");
					}
					(Some(kind), Ok(())) => {
						// a changed identifier can turn a segment into exactly the honest segment of the
						// new identifier (two fully spent neighbours share their first unpruned parent and
						// its proof): that is a valid segment, not a corrupted one
						let same_as_honest = kind == "identifier" && r.bytes.len() >= 9 && {
							let mut b8 = [0u8; 8];
							b8.copy_from_slice(&r.bytes[1..9]);
							let nid = SegmentTypeIdentifier::new(r.id.segment_type.clone(), SegmentIdentifier { height: r.bytes[0], idx: u64::from_be_bytes(b8) });
							serve(&segmenter, &nid).map(|h| h.bytes == r.bytes).unwrap_or(false)
						};
						if same_as_honest {
							bump(&mut probes, "identifier_change_gives_another_honest_segment");
						} else
						// hashes that the root does not depend on are not bound by validation; everything else is
						if kind == "pruned-subtree-hash" || kind == "companion-root" && key.0 == 1 {
							bump(&mut probes, "unbound_corruption_accepted");
							accepted_corrupt.push(kind.clone());
						} else {
							let v = viol(
								&format!("corrupt-segment-accepted:{}:{}", key.0, kind),
								format!("round {}: segment {:?} with a corrupted {} was accepted by add_*_segment", rounds, key, kind),
							);
							drop(guard);
							return finish(&mut receiver, Some(v), log, rounds, probes, faults);
						}
					}
					(Some(_), Err(_)) => {
						bump(&mut probes, "corrupt_segment_refused");
					}
				}
			}
			drop(guard);
			if rounds >= max_rounds {
				done = false;
				break;
			}
		}
		if !done {
			let v = viol("no-progress", format!("state sync did not complete within {} rounds ({} of them fault free)", max_rounds, max_rounds - fault_rounds));
			return finish(&mut receiver, Some(v), log, rounds, probes, faults);
		}
		log.push(format!("assembled in {} rounds, {} distinct segments", rounds, delivered_ok.len()));
		if delivered_ok.len() > 8 {
			bump(&mut probes, "multi_segment_sync");
		}
		let guard = des.write();
		let d = guard.as_ref().expect("desegmenter");
		if let Err(e) = d.check_update_leaf_set_state() {
			drop(guard);
			return finish(&mut receiver, Some(viol("leaf-set-update-failed", format!("{:?}", e))), log, rounds, probes, faults);
		}
		let vres = d.validate_complete_state(sync_state.clone(), Arc::new(StopState::new()));
		drop(guard);
		match vres {
			Ok(()) => {}
			Err(e) => {
				if accepted_corrupt.is_empty() {
					return finish(&mut receiver, Some(viol("validate-complete-state-failed", format!("honest sync: validate_complete_state failed: {:?}", e))), log, rounds, probes, faults);
				}
				// refusing to finalize after an unbound corruption is the safe outcome
				bump(&mut probes, "finalization_refused_after_corruption");
				return finish(&mut receiver, None, log, rounds, probes, faults);
			}
		}
	}
	// final state: equal to a node that processed every block up to the archive header
	let d = match receiver.digest() {
		Ok(d) => d,
		Err(e) => return finish(&mut receiver, Some(viol("digest", format!("{:?}", e))), log, rounds, probes, faults),
	};
	if !d.same_body(&ref_digest) {
		let v = viol("final-state-differs", format!("receiver finalized {} but a node that processed every block to the archive header is at {}", d.short(), ref_digest.short()));
		return finish(&mut receiver, Some(v), log, rounds, probes, faults);
	}
	let commits = world.all_commits();
	match receiver.unspent_view(&commits) {
		Ok(view) => {
			let got: BTreeSet<_> = view.keys().cloned().collect();
			let want: BTreeSet<_> = world.blocks[archive_id].ledger.keys().cloned().collect();
			if got != want {
				let v = viol("final-utxo-differs", format!("receiver's unspent set has {} entries, ledger at the archive header {}", got.len(), want.len()));
				return finish(&mut receiver, Some(v), log, rounds, probes, faults);
			}
		}
		Err(e) => return finish(&mut receiver, Some(viol("get-unspent", format!("{:?}", e))), log, rounds, probes, faults),
	}
	if let Err(e) = receiver.chain().validate(false) {
		return finish(&mut receiver, Some(viol("final-validate-failed", format!("{:?}", e))), log, rounds, probes, faults);
	}
	for (c, want) in &ref_proofs {
		let commit = grin_util::secp::pedersen::Commitment::from_vec(c.clone());
		let got = receiver.chain().get_merkle_proof_for_pos(commit).ok().map(|p| sv(&p));
		if &got != want {
			let v = viol("final-merkle-proof-differs", format!("Merkle proof of unspent output {} differs from the one a node that processed every block gives ({} vs {} bytes): an inner hash of the output MMR is not the committed one", crate::rng::hex(&c[..8]), got.map(|g| g.len()).unwrap_or(0), want.as_ref().map(|g| g.len()).unwrap_or(0)));
			return finish(&mut receiver, Some(v), log, rounds, probes, faults);
		}
	}
	bump(&mut probes, "merkle_proofs_compared");
	// ... and the kernels themselves: the kernel root binds the hash file, the kernel sums bind the
	// excesses; features, fee, lock height and signature of what the receiver stores are bound by
	// nothing but its own signature check. Every kernel of every block up to the archive header must
	// be stored exactly as the block carried it.
	let mut kernels_compared = 0u64;
	for id in world.path_to(archive_id) {
		for k in world.blocks[id].block.kernels() {
			match receiver.chain().get_kernel_height(&k.excess, None, None) {
				Ok(Some((stored, _, _))) if &stored == k => kernels_compared += 1,
				Ok(Some((stored, h, _))) => {
					let v = viol("final-kernel-differs", format!("kernel {:?} of block #{} (h{}) is stored at the receiver (found at h{}) as features {:?} with another signature / fee than the block carried: the state is not the one a block-by-block node has", k.excess, id, world.blocks[id].height, h, stored.features));
					return finish(&mut receiver, Some(v), log, rounds, probes, faults);
				}
				other => {
					let v = viol("final-kernel-missing", format!("kernel {:?} of block #{} (h{}) cannot be read at the receiver: {:?}", k.excess, id, world.blocks[id].height, other.map(|_| ()).map_err(|e| format!("{:?}", e))));
					return finish(&mut receiver, Some(v), log, rounds, probes, faults);
				}
			}
		}
	}
	*probes.entry("kernels_compared_with_blocks".to_string()).or_insert(0) += kernels_compared;
	// then the remaining blocks, and a restart
	for id in world.path_to(world.winner()) {
		if world.blocks[id].height > ah.height {
			if let Err(e) = receiver.chain().process_block(world.blocks[id].block.clone(), world.opts) {
				let v = viol("block-after-sync-refused", format!("block #{} above the archive header refused after state sync: {:?}", id, e));
				return finish(&mut receiver, Some(v), log, rounds, probes, faults);
			}
		}
	}
	let fin = receiver.digest().ok();
	let srv = world.builder.digest().ok();
	match (fin, srv) {
		(Some(a), Some(b)) if a.same_body(&b) => {}
		(a, b) => {
			let v = viol("tip-state-differs", format!("after catching up the receiver is at {:?}, the server at {:?}", a.map(|x| x.short()), b.map(|x| x.short())));
			return finish(&mut receiver, Some(v), log, rounds, probes, faults);
		}
	}
	if let Err(e) = receiver.restart() {
		return finish(&mut receiver, Some(viol("restart-after-sync-failed", format!("{:?}", e))), log, rounds, probes, faults);
	}
	bump(&mut probes, "sync_completed");
	finish(&mut receiver, None, log, rounds, probes, faults)
}

/// `long`: the serving node compacts before it serves. `fat`: 120+ blocks with 11 outputs each, so
/// that the archive header commits to more than 1024 outputs (a bitmap MMR with several leaves).
/// `quiet`: the last 32 blocks carry no transaction at all, so that nothing is spent between the
/// archive header and the serving node's head (the segmenter's rewind to the archive header then
/// has no spent position to start its bitmap rebuild from).
pub fn build_world(seed: u64, long: bool, fat: bool, quiet: bool) -> Result<World, String> {
	let mut r = SimRng::new(seed).fork("cfg");
	let mut cfg = WorldCfg::draw(&mut r, true);
	cfg.free_difficulty = false;
	cfg.nrd = false;
	cfg.branches = 0;
	cfg.trunk = if long { r.range(84, 88) } else { r.range(45, 58) };
	cfg.tx_pct = if long { 40 } else { 70 };
	cfg.max_txs = 2;
	if fat {
		cfg.trunk = r.range(121, 128);
		cfg.fat_outputs = true;
	}
	let mut w = World::new(seed, cfg, "pibd-w");
	let mut tip = 0;
	for _ in 0..w.cfg.trunk {
		tip = w.extend(tip, 0)?;
		if std::env::var("VERIF_DEBUG").is_ok() {
			let b = &w.blocks[tip];
			eprintln!("  block h{} outputs {} inputs {} kernels {}", b.height, b.block.outputs().len(), b.block.inputs().len(), b.block.kernels().len());
		}
	}
	if quiet {
		for _ in 0..32 {
			tip = w.extend_empty(tip, 0)?;
		}
	}
	if long {
		// the serving node compacts (horizon = head - 20), then the chain grows on so that the archive
		// header it offers later (head - 20 rounded down to 10) is not below that horizon: on mainnet
		// the archive header (2 days back) is always newer than the compaction horizon (a week back)
		w.builder.chain().compact().map_err(|e| format!("server compact: {:?}", e))?;
		let extra = r.range(12, 18);
		for _ in 0..extra {
			tip = w.extend(tip, 0)?;
		}
	}
	Ok(w)
}

/// Segment requests a peer may send: (type, height, index) with heights 0..=255 sampled and indices
/// around 0, the last segment, 2^32, 2^63 and 2^64-1. The serving node must answer each with a
/// segment or an error - no panic, no endless walk - and a kernel segment it does hand out must
/// validate against the archive header.
fn hostile_requests(world: &World, res: &mut CaseResult, seed: u64, long: bool, fat: bool, quiet: bool, only: Option<(u8, u8, u64)>) -> Option<Violation> {
	let server = world.builder.chain();
	let ah = server.txhashset_archive_header().ok()?;
	let segmenter = Arc::new(server.segmenter().ok()?);
	let heights: Vec<u8> = vec![0, 1, 2, 3, 4, 5, 6, 7, 8, 9, 10, 11, 12, 13, 16, 20, 31, 32, 33, 62, 63, 64, 65, 66, 70, 127, 128, 129, 192, 255];
	let types = [SegmentType::Bitmap, SegmentType::Output, SegmentType::RangeProof, SegmentType::Kernel];
	for (ti, ty) in types.iter().enumerate() {
		for h in heights.iter() {
			let mmr = match ty {
				SegmentType::Kernel => ah.kernel_mmr_size,
				SegmentType::Bitmap => grin_core::core::pmmr::insertion_to_pmmr_index((grin_core::core::pmmr::n_leaves(ah.output_mmr_size) + 1023) / 1024),
				_ => ah.output_mmr_size,
			};
			let leaves = grin_core::core::pmmr::n_leaves(mmr);
			let cap = 1u64.checked_shl(*h as u32).unwrap_or(1);
			let last = if cap == 0 { 0 } else { leaves.saturating_sub(1) / cap };
			let mut idxs = vec![0u64, 1, 2, 3, last, last + 1, last.wrapping_sub(1), (1u64 << 32) + 1, 1u64 << 63, (1u64 << 63) + 1, u64::MAX - 1, u64::MAX];
			idxs.sort();
			idxs.dedup();
			for idx in idxs {
				if let Some(o) = only {
					if o != (ti as u8, *h, idx) {
						continue;
					}
				}
				let id = SegmentTypeIdentifier { segment_type: ty.clone(), identifier: SegmentIdentifier { height: *h, idx } };
				let (tx, rx) = std::sync::mpsc::channel();
				let seg2 = segmenter.clone();
				let id2 = id.clone();
				let ah2 = ah.clone();
				std::thread::spawn(move || {
					grin_core::global::set_local_chain_type(grin_core::global::ChainTypes::AutomatedTesting);
					let r = std::panic::catch_unwind(std::panic::AssertUnwindSafe(|| {
						let r = serve(&seg2, &id2);
						// a kernel segment handed out must be sound
						if let (Ok(resp), SegmentType::Kernel) = (&r, id2.segment_type) {
							if let Ok(seg) = de::<Segment<TxKernel>>(&resp.bytes) {
								if let Err(e) = seg.validate(ah2.kernel_mmr_size, None, ah2.kernel_root) {
									return Err(format!("served but does not validate: {:?}", e));
								}
							}
						}
						Ok(r.is_ok())
					}));
					let _ = tx.send(match r {
						Ok(Ok(served)) => Ok(served),
						Ok(Err(e)) => Err(e),
						Err(p) => Err(format!("panic: {}", p.downcast_ref::<String>().cloned().or_else(|| p.downcast_ref::<&str>().map(|s| s.to_string())).unwrap_or_else(|| "?".into()))),
					});
				});
				res.runs += 1;
				res.fault("hostile_segment_request");
				let out = rx.recv_timeout(std::time::Duration::from_secs(20));
				let replay = json!({"engine": "pibdsim", "property": "C16", "mode": "hostile-request", "case_seed": seed, "long": long, "fat": fat, "quiet": quiet, "type": ti, "height": h, "idx": idx.to_string()});
				let mut v = match out {
					Ok(Ok(served)) => {
						if served {
							res.probe("hostile_request_served");
						} else {
							res.probe("hostile_request_refused");
						}
						continue;
					}
					Ok(Err(e)) => viol(&format!("segment-request-failed:{:?}", ty), format!("request for {:?} segment (height {}, idx {}) on an MMR of {} leaves: {}", ty, h, idx, leaves, e)),
					Err(_) => viol(&format!("segment-request-hung:{:?}", ty), format!("request for {:?} segment (height {}, idx {}) on an MMR of {} leaves was not answered within 20 s", ty, h, idx, leaves)),
				};
				v.replay = replay;
				return Some(v);
			}
		}
	}
	None
}

pub fn case(tier: &str, seed: u64, case: u64) -> CaseResult {
	let t0 = Instant::now();
	let thorough = tier == "thorough";
	let mut res = CaseResult::new(case, seed);
	let long = case % 4 == 3;
	let fat = case % 8 == 6;
	let quiet = case % 8 == 1;
	let mut world = match build_world(seed, long, fat, quiet) {
		Ok(w) => w,
		Err(e) => {
			res.harness_error = Some(format!("pibd world: {}", e));
			return res;
		}
	};
	if long {
		res.probe("server_compacted");
	}
	if quiet {
		res.probe("quiet_tail_world");
	}
	if fat {
		let outs = world.builder.chain().txhashset_archive_header().map(|h| h.output_mmr_count()).unwrap_or(0);
		res.probe_n("fat_world_archive_outputs", outs);
		if outs > 1024 {
			res.probe("multi_chunk_bitmap_archive");
		}
	}
	// the serving side against a hostile requester: segment requests with every height and extreme
	// indices (the identifier is two integers straight off the wire)
	if let Some(v) = hostile_requests(&world, &mut res, seed, long, fat, quiet, None) {
		res.violations.push(v);
	}
	let runs = if thorough { 10 } else if fat { 2 } else { 4 };
	let rng = SimRng::new(seed);
	for run_i in 0..runs {
		if !res.violations.is_empty() {
			break;
		}
		let mut rr = rng.fork(&format!("pibd{}", run_i));
		let mut cfg = RunCfg::draw(&mut rr);
		if run_i == 0 {
			// one clean run per world
			cfg.corrupt_pct = 0;
			cfg.drop_pct = 0;
			cfg.dup_pct = 0;
			cfg.zip_mode = false;
		}
		if run_i == 1 && case % 2 == 0 {
			// every other world: one sync from the state archive with byzantine archives first
			cfg.zip_mode = true;
			if cfg.corrupt_pct == 0 {
				cfg.corrupt_pct = 15;
			}
		}
		let rs = rr.next_u64();
		let out = run(&world, &cfg, rs, &format!("pibd-c{}r{}", case, run_i));
		res.runs += 1;
		res.steps += out.rounds;
		for (k, v) in &out.probes {
			res.probe_n(k, *v);
		}
		for (k, v) in &out.faults {
			res.fault_n(k, *v);
		}
		res.run_digests.push((fnv64(out.log.join("\n").as_bytes()) ^ rs, !out.faults.is_empty() || cfg.zip_mode));
		if res.samples.is_empty() {
			res.samples.push(json!({"cfg": format!("{:?}", cfg), "log": out.log}));
		}
		if let Some(mut v) = out.violation {
			v.replay = json!({"engine": "pibdsim", "property": "C16", "case_seed": seed, "long": long, "fat": fat, "quiet": quiet, "run_seed": rs,
				"cfg": {"heights": [cfg.heights.0, cfg.heights.1, cfg.heights.2, cfg.heights.3], "dup": cfg.dup_pct, "drop": cfg.drop_pct, "corrupt": cfg.corrupt_pct, "chunk": cfg.header_chunk, "zip": cfg.zip_mode, "per_round": cfg.deliver_per_round},
				"log": out.log});
			res.violations.push(v);
			break;
		}
	}
	// the same sync between two real nodes with their complete p2p stacks, the simulator being the
	// wire between them (E11 netsim): one fault-free run and one with a lossy, reordering, corrupting wire
	if res.violations.is_empty() && !fat && !long {
		// (segments fault free, segments over a faulty wire, the state archive fault free / with a first
		// attempt that is corrupted or cut short)
		for (i, (faulty, archive)) in [(false, false), (true, false), (case % 2 == 1, true)].iter().enumerate() {
			let rs = rng.fork(&format!("pibd-net{}", i)).next_u64();
			let out = crate::netsim::pibd_net_run_mode(&world, rs, &format!("pibdnet-c{}r{}", case, i), *faulty, long, *archive);
			res.runs += 1;
			res.probe("netsim_runs");
			res.steps += out.rounds;
			for (k, v) in &out.probes {
				res.probe_n(k, *v);
			}
			for (k, v) in &out.faults {
				res.fault_n(&format!("wire:{}", k), *v);
			}
			res.run_digests.push((fnv64(out.log.join("\n").as_bytes()) ^ rs, *faulty));
			if let Some(mut v) = out.violation {
				v.replay = json!({"engine": "netsim", "mode": "pibd", "property": "C16", "case_seed": seed, "long": long, "fat": fat, "quiet": quiet, "run_seed": rs, "faulty": faulty, "archive": archive,
					"log": out.log.iter().rev().take(30).cloned().collect::<Vec<_>>()});
				res.violations.push(v);
				break;
			}
		}
	}
	// and through the node's own sync loop (E12 syncsim): the real SyncRunner / HeaderSync / StateSync /
	// BodySync on its own thread, gated sleeps, simulated wall clock
	if res.violations.is_empty() && !fat {
		crate::syncsim::runs_for_c16(&mut world, &mut res, seed, case, long, quiet, thorough);
	}
	world.cleanup();
	res.wall_s = t0.elapsed().as_secs_f64();
	res
}

pub fn replay(rp: &Value) -> Result<Option<Violation>, String> {
	let seed = rp["case_seed"].as_u64().ok_or("no case_seed")?;
	let long = rp["long"].as_bool().unwrap_or(false);
	let c = &rp["cfg"];
	let h = c["heights"].as_array().ok_or("no heights")?;
	let cfg = RunCfg {
		heights: (h[0].as_u64().unwrap_or(9) as u8, h[1].as_u64().unwrap_or(11) as u8, h[2].as_u64().unwrap_or(11) as u8, h[3].as_u64().unwrap_or(11) as u8),
		dup_pct: c["dup"].as_u64().unwrap_or(0),
		drop_pct: c["drop"].as_u64().unwrap_or(0),
		corrupt_pct: c["corrupt"].as_u64().unwrap_or(0),
		header_chunk: c["chunk"].as_u64().unwrap_or(8) as usize,
		zip_mode: c["zip"].as_bool().unwrap_or(false),
		deliver_per_round: c["per_round"].as_u64().unwrap_or(4) as usize,
	};
	let mut world = build_world(seed, long, rp["fat"].as_bool().unwrap_or(false), rp["quiet"].as_bool().unwrap_or(false))?;
	if rp["mode"].as_str() == Some("hostile-request") {
		let mut res = CaseResult::new(0, seed);
		let only = (rp["type"].as_u64().unwrap_or(0) as u8, rp["height"].as_u64().unwrap_or(0) as u8, rp["idx"].as_str().unwrap_or("0").parse().unwrap_or(0));
		let v = hostile_requests(&world, &mut res, seed, long, rp["fat"].as_bool().unwrap_or(false), rp["quiet"].as_bool().unwrap_or(false), Some(only));
		world.cleanup();
		return Ok(v);
	}
	let out = run(&world, &cfg, rp["run_seed"].as_u64().unwrap_or(0), "pibd-replay");
	for l in &out.log {
		println!("  {}", l);
	}
	world.cleanup();
	Ok(out.violation)
}
