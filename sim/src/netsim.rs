//! E11 netsim: one (or two) real nodes with their complete p2p stack - real `Peers`, real `Peer`
//! objects created by the real `Handshake` over loopback sockets, real `conn::listen` reader and
//! writer threads, real `Protocol`, real `TrackingAdapter`, real `NetToChainAdapter`,
//! `ChainToPoolAndNetAdapter`, `PoolToNetAdapter`, `TransactionPool`, `Chain` - assembled the way
//! `servers::Server::new` and `p2p::Server::handle_new_peer` assemble them, talking to simulated
//! remote peers that own the other end of every socket.
//!
//! Determinism: the simulator keeps exactly one message in flight. After every message it writes
//! it sends a `Ping` on the same connection and reads until the `Pong` (the connection's reader
//! thread handles messages in order, and everything the handler queued for this peer precedes the
//! `Pong` in the connection's FIFO send channel); then it pings every other connection and reads
//! up to their `Pong`s, which collects what the handler broadcast to them. The message sequence
//! seen on every connection and the node's state after every step are then a function of the
//! script alone. The 150 ms real-time pacing of the node's writers is switched off (hook H8).

use crate::node::{fresh_dir, StateDigest, StatusKind};
use crate::poolsim::EventRec;
use crate::rng::{fnv64, SimRng};
use crate::sim::{CaseResult, Violation};
use crate::world::World;
use grin_chain::{Chain, SyncState};
use grin_core::core::hash::{Hash, Hashed};
use grin_core::core::{Block, BlockHeader, Transaction};
use grin_core::pow::{self, Difficulty};
use grin_core::ser::{self, ProtocolVersion, Writeable};
use grin_p2p::handshake::Handshake;
use grin_p2p::msg::{self, Hand, Headers, Locator, Message, Msg, Ping, Shake, Type};
use grin_p2p::types::NetAdapter;
use grin_p2p::verif_export::{Codec, Tracker};
use grin_p2p::{Capabilities, P2PConfig, Peer, PeerAddr, Peers};
use grin_pool::{DandelionConfig, PoolConfig, TransactionPool};
use grin_servers::common::adapters::{ChainToPoolAndNetAdapter, NetToChainAdapter, PoolToChainAdapter, PoolToNetAdapter};
use grin_servers::ServerTxPool;
use grin_util::RwLock;
use serde_json::{json, Value};
use std::collections::{BTreeMap, BTreeSet};
use std::io::Write;
use std::net::{TcpListener, TcpStream};
use std::sync::{Arc, Mutex};
use std::time::{Duration, Instant};

pub type RealNetAdapter = NetToChainAdapter<PoolToChainAdapter, PoolToNetAdapter>;

// ------------------------------------------------------------------------------------------
// panics on the node's own threads (peer_read / peer_write) are recorded, not lost

static PANICS: Mutex<Vec<String>> = Mutex::new(Vec::new());

pub fn install_panic_recorder() {
	let prev = std::panic::take_hook();
	std::panic::set_hook(Box::new(move |info| {
		let name = std::thread::current().name().unwrap_or("?").to_string();
		let loc = info.location().map(|l| format!("{}:{}", l.file(), l.line())).unwrap_or_default();
		let msg = if let Some(s) = info.payload().downcast_ref::<String>() {
			s.clone()
		} else if let Some(s) = info.payload().downcast_ref::<&str>() {
			s.to_string()
		} else {
			"panic".to_string()
		};
		if name.starts_with("peer_") || name == "netsim-helper" || name == "sync" {
			PANICS.lock().unwrap().push(format!("thread {} panicked at {}: {}", name, loc, msg));
		} else {
			prev(info);
		}
	}));
}

/// Debugging aid: with VERIF_NET_TRACE set, the p2p crate's log lines go to stderr.
struct StderrLog;
impl log::Log for StderrLog {
	fn enabled(&self, m: &log::Metadata) -> bool {
		m.target().starts_with("grin_p2p") || m.target().starts_with("grin_servers")
	}
	fn log(&self, r: &log::Record) {
		if self.enabled(r.metadata()) {
			eprintln!("[{}] {} {}", std::thread::current().name().unwrap_or("?"), r.target(), r.args());
		}
	}
	fn flush(&self) {}
}
static STDERR_LOG: StderrLog = StderrLog;

pub fn maybe_trace() {
	if std::env::var("VERIF_NET_TRACE").is_ok() {
		let _ = log::set_logger(&STDERR_LOG);
		log::set_max_level(log::LevelFilter::Debug);
	}
}

pub fn take_panics() -> Vec<String> {
	std::mem::take(&mut *PANICS.lock().unwrap())
}

// ------------------------------------------------------------------------------------------
// the node

pub struct NetNode {
	pub dir: std::path::PathBuf,
	pub chain: Arc<Chain>,
	pub pool: ServerTxPool,
	pub pool_net: Arc<PoolToNetAdapter>,
	pub peers: Arc<Peers>,
	pub net: Arc<RealNetAdapter>,
	pub sync: Arc<SyncState>,
	pub hs: Arc<Handshake>,
	pub events: Arc<Mutex<Vec<(Hash, StatusKind)>>>,
	pub genesis: Hash,
}

impl NetNode {
	/// Chain + pool + adapters + peers wired like `servers::Server::new`.
	pub fn assemble(dir: &std::path::Path, genesis: Block, pool_cfg: PoolConfig, archive_mode: bool) -> Result<NetNode, String> {
		let p2c = Arc::new(PoolToChainAdapter::new());
		let pool_net = Arc::new(PoolToNetAdapter::new(DandelionConfig::default()));
		let pool: ServerTxPool = Arc::new(RwLock::new(TransactionPool::new(pool_cfg, p2c.clone(), pool_net.clone())));
		let events = Arc::new(Mutex::new(vec![]));
		let c2p = Arc::new(ChainToPoolAndNetAdapter::new(pool.clone(), vec![Box::new(EventRec { events: events.clone() })]));
		let chain = Chain::init(dir.join("chain_data").to_str().unwrap().to_string(), c2p.clone(), genesis.clone(), pow::verify_size, archive_mode, None)
			.map_err(|e| format!("Chain::init: {:?}", e))?;
		let chain = Arc::new(chain);
		p2c.set_chain(chain.clone());
		// a fresh SyncState says `Initial`, which counts as syncing; the sync loop (not run here) moves it
		// to NoSync once no peer has more work. The simulated peers never advertise more work than
		// the world holds, and the runs start from NoSync unless they say otherwise.
		let sync = Arc::new(SyncState::new());
		sync.update(grin_chain::SyncStatus::NoSync);
		let net = Arc::new(NetToChainAdapter::new(sync.clone(), chain.clone(), pool.clone(), grin_servers::ServerConfig::default(), vec![]));
		let store = grin_p2p::store::PeerStore::new(dir.join("peers").to_str().unwrap()).map_err(|e| format!("peer store: {:?}", e))?;
		let p2p_cfg = P2PConfig::default();
		let peers = Arc::new(Peers::new(store, net.clone(), p2p_cfg.clone()));
		c2p.init(peers.clone());
		pool_net.init(peers.clone());
		net.init(peers.clone());
		let hs = Arc::new(Handshake::new(genesis.hash(), p2p_cfg));
		Ok(NetNode {
			dir: dir.to_path_buf(),
			chain,
			pool,
			pool_net,
			peers,
			net,
			sync,
			hs,
			events,
			genesis: genesis.hash(),
		})
	}

	pub fn digest(&self) -> Result<StateDigest, String> {
		let c = &self.chain;
		let head = c.head().map_err(|e| format!("{:?}", e))?;
		let hh = c.header_head().map_err(|e| format!("{:?}", e))?;
		let ths = c.txhashset();
		let t = ths.read();
		let roots = t.roots().map_err(|e| format!("{:?}", e))?;
		Ok(StateDigest {
			head: head.last_block_h,
			head_height: head.height,
			head_td: head.total_difficulty.to_num(),
			header_head: hh.last_block_h,
			header_head_height: hh.height,
			output_root: roots.output_roots.pmmr_root,
			bitmap_root: roots.output_roots.bitmap_root,
			rproof_root: roots.rproof_root,
			kernel_root: roots.kernel_root,
			sizes: (t.output_mmr_size(), t.rangeproof_mmr_size(), t.kernel_mmr_size()),
		})
	}

	pub fn take_events(&self) -> Vec<(Hash, StatusKind)> {
		std::mem::take(&mut *self.events.lock().unwrap())
	}

	/// Stop every connection and wait for the peer threads (they hold the chain alive). The simulated
	/// ends should be closed first: a reader blocked in a read only looks at its stop flag every 2 s.
	pub fn shutdown(&self) {
		let ps: Vec<Arc<Peer>> = self.peers.iter().into_iter().collect();
		for p in &ps {
			p.stop();
		}
		self.peers.stop();
		for p in ps {
			p.wait();
		}
	}
}

// ------------------------------------------------------------------------------------------
// simulated remote peer

pub fn frame_of<T: Writeable>(ty: Type, body: T, v: ProtocolVersion) -> Vec<u8> {
	let m = Msg::new(ty, body, v).expect("Msg::new");
	let mut out = vec![];
	msg::write_message(&mut out, &m, Arc::new(Tracker::new())).expect("write_message to a vector");
	out
}

pub struct SimPeer {
	pub id: usize,
	/// index in the simulation's peer table
	pub slot: usize,
	pub addr: PeerAddr,
	pub version: ProtocolVersion,
	w: TcpStream,
	codec: Codec,
	pub alive: bool,
	/// what the node wrote to this peer since the inbox was last taken
	pub inbox: Vec<Message>,
	/// attachment bytes received after a TxHashSetArchive message
	pub attachment: Vec<u8>,
	pub claimed_td: u64,
	pub claimed_height: u64,
	pub outbound: bool,
	pub undecodable: u64,
	/// the simulated side's Codec refused a frame header written by the node
	pub refused_frame: bool,
	pub close_reason: String,
	in_attachment: bool,
	attachment_left: u64,
	/// the node's `Peer` object for this connection
	pub node_peer: Option<Arc<Peer>>,
}

#[derive(Debug, PartialEq)]
pub enum ReadEnd {
	Pong,
	Closed,
	Stuck,
}

impl SimPeer {
	/// The simulated side hangs up.
	pub fn close(&mut self) {
		let _ = self.w.shutdown(std::net::Shutdown::Both);
		self.alive = false;
	}

	pub fn send_bytes(&mut self, bytes: &[u8]) -> bool {
		if !self.alive {
			return false;
		}
		if let Err(e) = self.w.write_all(bytes) {
			self.close_reason = format!("write: {:?}", e.kind());
			self.alive = false;
			return false;
		}
		let _ = self.w.flush();
		true
	}

	pub fn send<T: Writeable>(&mut self, ty: Type, body: T) -> bool {
		let f = frame_of(ty, body, self.version);
		self.send_bytes(&f)
	}

	fn ping(&mut self) -> bool {
		let p = Ping {
			total_difficulty: Difficulty::from_num(self.claimed_td),
			height: self.claimed_height,
		};
		self.send(Type::Ping, p)
	}

	/// Read what the node wrote, up to the next Pong, the end of the connection, or a real-time budget
	/// (harness watchdog only: the node answers within microseconds unless it hangs).
	fn read_to_pong(&mut self, budget: Duration) -> ReadEnd {
		self.read_until(budget, false)
	}

	/// `addrs_marker`: the barrier message was a GetPeerAddrs, its PeerAddrs answer ends the reading (used
	/// when the frame under test is itself a Ping, whose Pong could not be told from the barrier's).
	fn read_until(&mut self, budget: Duration, addrs_marker: bool) -> ReadEnd {
		let t0 = Instant::now();
		loop {
			// a frame above the limit for its type (possible with the tiny block weight of the test
			// parameters) would be refused by the simulated side's own Codec and leave it out of step:
			// such a frame is taken off the socket here and only noted
			if !self.in_attachment {
				let mut hdr = [0u8; 11];
				let _ = self.w.set_read_timeout(Some(Duration::from_millis(2000)));
				if let Ok(11) = self.w.peek(&mut hdr) {
					let mut l8 = [0u8; 8];
					l8.copy_from_slice(&hdr[3..11]);
					let len = u64::from_be_bytes(l8);
					if len > crate::wiresim::doc_limit(hdr[2]) * 4 && len < (1 << 30) {
						use std::io::Read;
						let mut sink = vec![0u8; 11 + len as usize];
						let _ = self.w.set_read_timeout(Some(Duration::from_secs(30)));
						if self.w.read_exact(&mut sink).is_err() {
							self.alive = false;
							return ReadEnd::Closed;
						}
						self.refused_frame = true;
						continue;
					}
				}
			}
			let (res, _) = self.codec.read();
			match res {
				Ok(Message::Pong(_)) if !addrs_marker => return ReadEnd::Pong,
				Ok(Message::PeerAddrs(_)) if addrs_marker => return ReadEnd::Pong,
				Ok(Message::TxHashSetArchive(a)) => {
					let meta = grin_p2p::types::AttachmentMeta {
						size: a.bytes as usize,
						hash: a.hash,
						height: a.height,
						start_time: chrono::Utc::now(),
						path: std::path::PathBuf::new(),
					};
					let size = a.bytes;
					self.inbox.push(Message::TxHashSetArchive(a));
					if size > 0 {
						self.codec.expect_attachment(Arc::new(meta));
						self.in_attachment = true;
						self.attachment_left = size;
					}
				}
				Ok(Message::Attachment(u, Some(bytes))) => {
					self.attachment.extend_from_slice(&bytes[..]);
					if u.left == 0 {
						self.in_attachment = false;
					}
					self.attachment_left = u.left as u64;
				}
				Ok(m) => self.inbox.push(m),
				Err(grin_p2p::Error::Connection(e)) => {
					use std::io::ErrorKind::*;
					match e.kind() {
						TimedOut | WouldBlock => {
							if t0.elapsed() > budget {
								return ReadEnd::Stuck;
							}
						}
						k => {
							self.close_reason = format!("read: {:?}", k);
							self.alive = false;
							return ReadEnd::Closed;
						}
					}
				}
				Err(grin_p2p::Error::Serialization(_)) => {
					// a frame the simulated side cannot decode (the whole frame was consumed): counted, the
					// stream stays in step
					self.undecodable += 1;
				}
				Err(e) => {
					self.close_reason = format!("codec: {:?}", e);
					// a frame header the simulated side's own Codec refuses (e.g. a frame above the limit
					// for its type): the stream cannot be followed any further
					self.refused_frame = true;
					self.alive = false;
					return ReadEnd::Closed;
				}
			}
		}
	}
}

fn socket_pair() -> (TcpStream, TcpStream) {
	let l = TcpListener::bind("127.0.0.1:0").expect("bind");
	let addr = l.local_addr().unwrap();
	let a = TcpStream::connect(addr).expect("connect");
	let (b, _) = l.accept().expect("accept");
	a.set_nodelay(true).ok();
	b.set_nodelay(true).ok();
	(a, b)
}

/// A simulated peer dials in: simulated `Hand`, the node's real `Handshake::accept` inside
/// `Peer::accept`, `Peers::add_connected` - what `p2p::Server::handle_new_peer` does.
pub fn connect_inbound(node: &NetNode, id: usize, td: u64, height: u64, caps: Capabilities) -> Result<SimPeer, String> {
	connect_inbound_v(node, id, td, height, caps, ProtocolVersion::local())
}

/// The simulated peer announces protocol version `hand_version`; both sides then speak min(local, that).
pub fn connect_inbound_v(node: &NetNode, id: usize, td: u64, height: u64, caps: Capabilities, hand_version: ProtocolVersion) -> Result<SimPeer, String> {
	let (mut sim_end, node_end) = socket_pair();
	let port = 20000 + id as u16;
	let hand = Hand {
		version: hand_version,
		capabilities: caps,
		nonce: 0x5151_0000 + id as u64,
		genesis: node.genesis,
		total_difficulty: Difficulty::from_num(td),
		sender_addr: PeerAddr(format!("127.0.0.1:{}", port).parse().unwrap()),
		receiver_addr: PeerAddr("127.0.0.1:13414".parse().unwrap()),
		user_agent: "netsim".into(),
	};
	let bytes = frame_of(Type::Hand, hand, ProtocolVersion::local());
	let t = std::thread::Builder::new()
		.name("netsim-helper".into())
		.spawn(move || {
			let _ = sim_end.write_all(&bytes);
			let _ = sim_end.set_read_timeout(Some(Duration::from_secs(10)));
			let shake: Result<Shake, _> = msg::read_message(&mut sim_end, ProtocolVersion::local(), Type::Shake);
			(sim_end, shake.map(|s| s.version).map_err(|e| format!("{:?}", e)))
		})
		.map_err(|e| e.to_string())?;
	let total = node.chain.head().map(|h| h.total_difficulty).unwrap_or(Difficulty::min_dma());
	let adapter: Arc<dyn NetAdapter> = node.peers.clone();
	let peer = Peer::accept(node_end, Capabilities::default(), total, &node.hs, adapter);
	let (sim_end, shake) = t.join().map_err(|_| "handshake helper panicked".to_string())?;
	let peer = peer.map_err(|e| format!("Peer::accept: {:?}", e))?;
	let shake_v = shake?;
	let version = std::cmp::min(shake_v, hand_version);
	let peer = Arc::new(peer);
	node.peers.add_connected(peer.clone()).map_err(|e| format!("add_connected: {:?}", e))?;
	let addr = peer.info.addr;
	let _ = sim_end.set_read_timeout(None);
	let codec = Codec::new(version, sim_end.try_clone().map_err(|e| e.to_string())?);
	Ok(SimPeer {
		id,
		slot: id,
		addr,
		version,
		w: sim_end,
		codec,
		alive: true,
		inbox: vec![],
		attachment: vec![],
		claimed_td: td,
		claimed_height: height,
		outbound: false,
		undecodable: 0,
		refused_frame: false,
		close_reason: String::new(),
		in_attachment: false,
		attachment_left: 0,
		node_peer: Some(peer),
	})
}

/// The node dials out (`Peer::connect`, what `p2p::Server::connect` does after the TCP connect):
/// the simulated peer reads the node's `Hand` and answers with a `Shake`.
pub fn connect_outbound(node: &NetNode, id: usize, td: u64, height: u64, caps: Capabilities) -> Result<SimPeer, String> {
	connect_outbound_v(node, id, td, height, caps, ProtocolVersion::local())
}

pub fn connect_outbound_v(node: &NetNode, id: usize, td: u64, height: u64, caps: Capabilities, shake_version: ProtocolVersion) -> Result<SimPeer, String> {
	let (node_end, mut sim_end) = socket_pair();
	let genesis = node.genesis;
	let t = std::thread::Builder::new()
		.name("netsim-helper".into())
		.spawn(move || {
			let _ = sim_end.set_read_timeout(Some(Duration::from_secs(10)));
			let hand: Result<Hand, _> = msg::read_message(&mut sim_end, ProtocolVersion::local(), Type::Hand);
			let shake = Shake {
				version: shake_version,
				capabilities: caps,
				genesis,
				total_difficulty: Difficulty::from_num(td),
				user_agent: "netsim".into(),
			};
			let bytes = frame_of(Type::Shake, shake, ProtocolVersion::local());
			let _ = sim_end.write_all(&bytes);
			(sim_end, hand.map(|_| ()).map_err(|e| format!("{:?}", e)))
		})
		.map_err(|e| e.to_string())?;
	let total = node.chain.head().map(|h| h.total_difficulty).unwrap_or(Difficulty::min_dma());
	let adapter: Arc<dyn NetAdapter> = node.peers.clone();
	let self_addr = PeerAddr("127.0.0.1:13414".parse().unwrap());
	let peer = Peer::connect(node_end, Capabilities::default(), total, self_addr, &node.hs, adapter);
	let (sim_end, hand) = t.join().map_err(|_| "handshake helper panicked".to_string())?;
	let peer = peer.map_err(|e| format!("Peer::connect: {:?}", e))?;
	hand?;
	let peer = Arc::new(peer);
	node.peers.add_connected(peer.clone()).map_err(|e| format!("add_connected: {:?}", e))?;
	let addr = peer.info.addr;
	let _ = sim_end.set_read_timeout(None);
	let version = std::cmp::min(shake_version, ProtocolVersion::local());
	let codec = Codec::new(version, sim_end.try_clone().map_err(|e| e.to_string())?);
	Ok(SimPeer {
		id,
		slot: id,
		addr,
		version,
		w: sim_end,
		codec,
		alive: true,
		inbox: vec![],
		attachment: vec![],
		claimed_td: td,
		claimed_height: height,
		outbound: true,
		undecodable: 0,
		refused_frame: false,
		close_reason: String::new(),
		in_attachment: false,
		attachment_left: 0,
		node_peer: Some(peer),
	})
}

/// Barrier over all connections of one node: `first` (the connection that just carried a message)
/// is drained first, then the others in index order. Returns Err on a connection that neither
/// answered nor closed within the watchdog budget.
pub fn barrier(peers: &mut [SimPeer], first: Option<usize>) -> Result<(), String> {
	let mut order: Vec<usize> = vec![];
	if let Some(f) = first {
		order.push(f);
	}
	for i in 0..peers.len() {
		if Some(i) != first {
			order.push(i);
		}
	}
	for i in order {
		if !peers[i].alive {
			continue;
		}
		if !peers[i].ping() {
			continue;
		}
		match peers[i].read_to_pong(Duration::from_secs(30)) {
			ReadEnd::Pong | ReadEnd::Closed => {}
			ReadEnd::Stuck => return Err(format!("connection {} neither answered a ping nor closed within 30 s", i)),
		}
	}
	Ok(())
}

pub fn describe(m: &Message) -> String {
	match m {
		Message::Unknown(t) => format!("Unknown({})", t),
		Message::Ping(_) => "Ping".into(),
		Message::Pong(_) => "Pong".into(),
		Message::BanReason(b) => format!("BanReason({:?})", b.ban_reason),
		Message::TransactionKernel(h) => format!("TransactionKernel({})", h),
		Message::GetTransaction(h) => format!("GetTransaction({})", h),
		Message::Transaction(t) => format!("Transaction({})", t.hash()),
		Message::StemTransaction(t) => format!("StemTransaction({})", t.hash()),
		Message::GetBlock(h) => format!("GetBlock({})", h),
		Message::Block(_) => "Block".into(),
		Message::GetCompactBlock(h) => format!("GetCompactBlock({})", h),
		Message::CompactBlock(_) => "CompactBlock".into(),
		Message::GetHeaders(l) => format!("GetHeaders({})", l.hashes.len()),
		Message::Header(_) => "Header".into(),
		Message::Headers(h) => format!("Headers({},{})", h.headers.len(), h.remaining),
		Message::GetPeerAddrs(_) => "GetPeerAddrs".into(),
		Message::PeerAddrs(p) => format!("PeerAddrs({})", p.peers.len()),
		Message::TxHashSetRequest(r) => format!("TxHashSetRequest({}@{})", r.hash, r.height),
		Message::TxHashSetArchive(a) => format!("TxHashSetArchive({}@{},{})", a.hash, a.height, a.bytes),
		Message::Attachment(u, _) => format!("Attachment({})", u.left),
		Message::GetOutputBitmapSegment(r) => format!("GetOutputBitmapSegment({},{})", r.identifier.height, r.identifier.idx),
		Message::OutputBitmapSegment(_) => "OutputBitmapSegment".into(),
		Message::GetOutputSegment(r) => format!("GetOutputSegment({},{})", r.identifier.height, r.identifier.idx),
		Message::OutputSegment(_) => "OutputSegment".into(),
		Message::GetRangeProofSegment(r) => format!("GetRangeProofSegment({},{})", r.identifier.height, r.identifier.idx),
		Message::RangeProofSegment(_) => "RangeProofSegment".into(),
		Message::GetKernelSegment(r) => format!("GetKernelSegment({},{})", r.identifier.height, r.identifier.idx),
		Message::KernelSegment(_) => "KernelSegment".into(),
	}
}

/// `Message` holds untrusted wrappers without accessors for some variants; the simulator needs the
/// block / header inside to compare with what it knows.
pub fn block_of(m: Message) -> Option<Block> {
	match m {
		Message::Block(b) => Some(b.into()),
		_ => None,
	}
}

pub fn header_of(m: Message) -> Option<BlockHeader> {
	match m {
		Message::Header(h) => Some(h.into()),
		_ => None,
	}
}

// ------------------------------------------------------------------------------------------
// scenario A: a fork tree delivered by simulated peers through the network (C03, C06)

#[derive(Clone, Debug, serde_derive::Serialize, serde_derive::Deserialize, PartialEq)]
pub enum NOp {
	/// "header first": peer announces the header; the node asks for the compact block
	Header { p: usize, id: usize },
	/// unsolicited compact block
	Compact { p: usize, id: usize },
	/// unsolicited full block
	Block { p: usize, id: usize },
	/// a block that must be refused, from the byzantine peer
	Bad { p: usize, bad: usize },
	/// the header of such a block
	BadHeader { p: usize, bad: usize },
	/// peer asks the node for a block it should have (GetBlock / GetCompactBlock)
	AskBlock { p: usize, id: usize, compact: bool },
	/// peer asks for headers after a block of the world
	AskHeaders { p: usize, id: usize },
	/// a new connection for peer slot p (the old one is dropped by the simulated side)
	Reconnect { p: usize },
	/// the honest peer 0 offers every block of the winning chain the node does not have, in order
	Sweep,
}

pub struct RelayCfg {
	/// the node first catches up with the first three fifths of the winning chain the way the sync
	/// loop does (header sync, then blocks requested by hash)
	pub sync_prefix: bool,
	/// the node still believes it is syncing (no orphan-parent requests, no hooks)
	pub syncing: bool,
	pub n_honest: usize,
	pub byz: bool,
	/// percent of the node's requests a peer leaves unanswered
	pub ignore_pct: u64,
}

pub struct RelayOutcome {
	pub log: Vec<String>,
	pub violation: Option<(usize, Violation)>,
	pub steps: u64,
	pub faults: BTreeMap<String, u64>,
	pub probes: BTreeMap<String, u64>,
	pub states: BTreeSet<u64>,
}

fn viol(prop: &str, key: &str, what: String) -> Violation {
	Violation {
		key: format!("{}:net-{}", prop, key),
		what,
		replay: Value::Null,
	}
}

struct Relay<'w> {
	world: &'w World,
	prop: String,
	node: NetNode,
	peers: Vec<SimPeer>,
	byz_slot: Option<usize>,
	rng: SimRng,
	log: Vec<String>,
	step: u64,
	accepted: BTreeSet<usize>,
	/// full blocks the node put into its orphan pool
	offered: BTreeSet<usize>,
	last_td: u64,
	faults: BTreeMap<String, u64>,
	probes: BTreeMap<String, u64>,
	states: BTreeSet<u64>,
	ignore_pct: u64,
	compact_nonce: u64,
}

impl<'w> Relay<'w> {
	fn probe(&mut self, k: &str) {
		*self.probes.entry(k.into()).or_insert(0) += 1;
	}
	fn fault(&mut self, k: &str) {
		*self.faults.entry(k.into()).or_insert(0) += 1;
	}

	fn v(&self, key: &str, what: String) -> Violation {
		viol(&self.prop, key, format!("step {}: {}", self.step, what))
	}

	fn check_panics(&self) -> Result<(), Violation> {
		let p = take_panics();
		if let Some(first) = p.first() {
			return Err(self.v("node-thread-panicked", first.clone()));
		}
		Ok(())
	}

	fn sync_barrier(&mut self, first: Option<usize>) -> Result<(), Violation> {
		if let Err(e) = barrier(&mut self.peers, first) {
			self.check_panics()?;
			return Err(self.v("connection-stuck", e));
		}
		self.check_panics()
	}

	/// Answer what the node asked of its peers during the last barrier; repeat until it asks nothing.
	fn serve_requests(&mut self) -> Result<(), Violation> {
		for _round in 0..200 {
			let mut todo: Vec<(usize, Message)> = vec![];
			for p in self.peers.iter_mut() {
				for m in std::mem::take(&mut p.inbox) {
					todo.push((p.id_slot(), m));
				}
			}
			if todo.is_empty() {
				return Ok(());
			}
			for (slot, m) in todo {
				let d = describe(&m);
				self.log.push(format!("  peer{} <- {}", slot, d));
				match m {
					Message::GetCompactBlock(h) | Message::GetBlock(h) => {
						let compact = d.starts_with("GetCompact");
						let known = self.world.id_of_hash(&h);
						let is_byz = Some(slot) == self.byz_slot;
						if self.rng.chance(self.ignore_pct, 100) || known.is_none() || is_byz {
							self.fault("request_left_unanswered");
							self.log.push(format!("  peer{} ignores the request", slot));
							continue;
						}
						let id = known.unwrap();
						self.probe(if compact { "node_requested_compact_block" } else { "node_requested_full_block" });
						// a peer may answer a compact block request with the full block (as a v2 node would
						// not, but nothing forbids it) one time in four
						if compact && !self.rng.chance(1, 4) {
							self.send_compact(slot, id)?;
						} else {
							self.send_block(slot, id)?;
						}
					}
					Message::GetHeaders(_) | Message::GetTransaction(_) | Message::GetPeerAddrs(_) => {
						self.probe("node_request_other");
					}
					Message::BanReason(_) => {
						self.probe("ban_reason_received");
					}
					Message::Header(_) | Message::CompactBlock(_) | Message::TransactionKernel(_) | Message::Transaction(_) => {
						self.probe("node_broadcast_received");
					}
					_ => {}
				}
			}
		}
		Err(self.v("request-storm", "the node kept asking for more than 200 rounds after one delivery".into()))
	}

	fn send_block(&mut self, slot: usize, id: usize) -> Result<(), Violation> {
		let b = self.world.blocks[id].block.clone();
		let head_h = self.node.chain.head().map(|h| h.height).unwrap_or(0);
		let horizon = head_h.saturating_sub(grin_core::global::cut_through_horizon() as u64);
		if b.header.height < horizon {
			self.probe("block_below_horizon_dropped_by_adapter");
		}
		let hash = b.hash();
		self.log.push(format!("  peer{} -> Block #{}", slot, id));
		self.peers[slot].send(Type::Block, b);
		self.sync_barrier(Some(slot))?;
		// a block whose parent header is unknown is refused outright; one whose parent block is
		// missing waits in the orphan pool and must be adopted once the parent is there
		if self.node.chain.is_orphan(&hash) {
			self.offered.insert(id);
			self.probe("orphaned");
		}
		self.after_delivery()
	}

	fn send_compact(&mut self, slot: usize, id: usize) -> Result<(), Violation> {
		self.compact_nonce += 1;
		let cb = crate::wiresim::det_compact_block(&self.world.blocks[id].block, self.compact_nonce, self.peers[slot].version);
		self.log.push(format!("  peer{} -> CompactBlock #{}", slot, id));
		self.peers[slot].send(Type::CompactBlock, cb);
		self.sync_barrier(Some(slot))?;
		self.after_delivery()
	}

	/// Invariants after anything was delivered to the node.
	fn after_delivery(&mut self) -> Result<(), Violation> {
		for (h, k) in self.node.take_events() {
			match self.world.id_of_hash(&h) {
				Some(id) => {
					self.accepted.insert(id);
					if k == StatusKind::Reorg {
						self.probe("reorg");
					}
				}
				None => return Err(self.v("accepted-unknown-block", format!("the node accepted block {} which is no honest block of the world", h))),
			}
		}
		let d = self.node.digest().map_err(|e| self.v("digest", e))?;
		self.states.insert(d.hash64());
		self.log.push(format!("  node {}", d.short()));
		if d.head_td < self.last_td {
			return Err(self.v("head-work-decreased", format!("head total difficulty went from {} to {}", self.last_td, d.head_td)));
		}
		self.last_td = d.head_td;
		let hid = match self.world.id_of_hash(&d.head) {
			Some(i) => i,
			None => return Err(self.v("head-unknown", format!("head {} is no honest block", d.head))),
		};
		if hid != 0 && !self.accepted.contains(&hid) {
			return Err(self.v("head-not-accepted", format!("head #{} was never reported accepted", hid)));
		}
		let best = self.accepted.iter().map(|i| self.world.blocks[*i].total_difficulty).max().unwrap_or(0);
		if self.world.blocks[hid].total_difficulty < best {
			return Err(self.v("head-not-most-work", format!("head #{} has total difficulty {} but an accepted block has {}", hid, self.world.blocks[hid].total_difficulty, best)));
		}
		// a block that was handed to the pipeline and whose parent is accepted must be accepted too
		// (it may only wait in the orphan pool while its parent is missing)
		for id in self.offered.iter() {
			if self.accepted.contains(id) {
				continue;
			}
			let parent = self.world.blocks[*id].parent.unwrap_or(0);
			if parent == 0 || self.accepted.contains(&parent) {
				return Err(self.v(
					"offered-block-not-connected",
					format!("block #{} waited in the orphan pool and its parent #{} is accepted, but it never was", id, parent),
				));
			}
		}
		// honest peers are never banned or dropped
		for p in self.peers.iter() {
			if Some(p.id_slot()) == self.byz_slot {
				continue;
			}
			if !p.alive || self.node.peers.is_banned(p.addr) {
				return Err(self.v("honest-peer-dropped", format!("the connection of honest peer {} was closed or the peer banned (alive={} banned={})", p.id_slot(), p.alive, self.node.peers.is_banned(p.addr))));
			}
		}
		Ok(())
	}

	/// The node starts far behind and catches up the way the sync loop makes it: HeaderSync status and
	/// `Headers` messages in chunks, then BodySync status and blocks requested by hash through the real
	/// `Peer::send_block_request(.., SYNC)` (the TrackingAdapter hands the SYNC option to the adapter
	/// when the block arrives), answered out of order and not always.
	fn sync_prefix(&mut self) -> Result<(), Violation> {
		use grin_chain::SyncStatus;
		let world = self.world;
		let winner = world.winner();
		let path: Vec<usize> = world.path_to(winner).into_iter().filter(|i| *i != 0).collect();
		let (wtd, wh) = (world.blocks[winner].total_difficulty, world.blocks[winner].height);
		let hh = self.node.chain.header_head().map_err(|e| self.v("digest", format!("{:?}", e)))?;
		self.node.sync.update(SyncStatus::HeaderSync {
			sync_head: hh,
			highest_height: wh,
			highest_diff: Difficulty::from_num(wtd),
		});
		let headers: Vec<BlockHeader> = path.iter().map(|i| world.blocks[*i].block.header.clone()).collect();
		let chunk = *self.rng.pick(&[5usize, 32, 33, 512]);
		self.step += 1;
		self.log.push(format!("step {} header sync in chunks of {}", self.step, chunk));
		for c in headers.chunks(chunk) {
			self.peers[0].send(Type::Headers, Headers { headers: c.to_vec() });
			self.sync_barrier(Some(0))?;
		}
		let got = self.node.chain.header_head().map(|t| t.last_block_h).ok();
		if got != Some(world.blocks[winner].hash) {
			return Err(self.v("header-sync-failed", format!("after the Headers messages of the winning chain the header head is {:?}, not {}", got, world.blocks[winner].hash)));
		}
		self.probe("headers_synced_through_adapter");
		self.node.sync.update(SyncStatus::BodySync { current_height: 0, highest_height: wh });
		let upto = (path.len() * 3 / 5).max(1);
		let mut pending: Vec<usize> = path[..upto].to_vec();
		for _round in 0..60 {
			pending.retain(|i| !self.accepted.contains(i));
			if pending.is_empty() {
				break;
			}
			self.step += 1;
			// body sync asks for the next few blocks of the header chain, spread over its peers
			let batch: Vec<usize> = pending.iter().take(6).cloned().collect();
			let mut asked: Vec<(usize, usize)> = vec![];
			for id in &batch {
				let slot = self.rng.usize_below(self.peers.len().min(2).max(1));
				if Some(slot) == self.byz_slot || !self.peers[slot].alive {
					continue;
				}
				if let Some(p) = self.peers[slot].node_peer.clone() {
					if p.send_block_request(world.blocks[*id].hash, grin_chain::Options::SYNC).is_ok() {
						asked.push((slot, *id));
					}
				}
			}
			self.sync_barrier(None)?;
			let mut answers: Vec<(usize, usize)> = vec![];
			for p in self.peers.iter_mut() {
				for m in std::mem::take(&mut p.inbox) {
					if let Message::GetBlock(h) = m {
						if let Some(id) = world.id_of_hash(&h) {
							answers.push((p.slot, id));
						}
					}
				}
			}
			self.log.push(format!("step {} body sync asked {:?}, requests seen {:?}", self.step, asked, answers));
			self.rng.shuffle(&mut answers);
			for (slot, id) in answers {
				if self.rng.chance(self.ignore_pct, 100) {
					self.fault("sync_request_left_unanswered");
					continue;
				}
				self.probe("block_delivered_on_sync_request");
				self.send_block(slot, id)?;
				self.serve_requests()?;
			}
		}
		pending.retain(|i| !self.accepted.contains(i));
		if !pending.is_empty() {
			return Err(self.v("body-sync-stalled", format!("blocks {:?} requested by hash and delivered were not accepted within 60 rounds", pending)));
		}
		self.node.sync.update(SyncStatus::NoSync);
		Ok(())
	}

	fn exec(&mut self, op: &NOp) -> Result<(), Violation> {
		self.step += 1;
		self.log.push(format!("step {} {:?}", self.step, op));
		match op {
			NOp::Header { p, id } => {
				let h = self.world.blocks[*id].block.header.clone();
				self.peers[*p].send(Type::Header, h);
				self.sync_barrier(Some(*p))?;
				self.after_delivery()?;
				self.serve_requests()
			}
			NOp::Compact { p, id } => {
				self.send_compact(*p, *id)?;
				self.serve_requests()
			}
			NOp::Block { p, id } => {
				self.send_block(*p, *id)?;
				self.serve_requests()
			}
			NOp::Bad { p, bad } | NOp::BadHeader { p, bad } => {
				let header_only = matches!(op, NOp::BadHeader { .. });
				let before = self.node.digest().map_err(|e| self.v("digest", e))?;
				let bb = &self.world.bad[*bad];
				let kind = bb.kind.clone();
				let hb = bb.header_bad;
				let addr = self.peers[*p].addr;
				if !self.peers[*p].alive {
					self.probe("byzantine_peer_already_gone");
					return Ok(());
				}
				if header_only {
					self.peers[*p].send(Type::Header, bb.block.header.clone());
				} else {
					self.peers[*p].send(Type::Block, bb.block.clone());
				}
				self.fault(&format!("bad:{}", kind));
				self.sync_barrier(Some(*p))?;
				// a header-first announcement of a block whose header is fine makes the node ask for the
				// compact block: the byzantine peer answers with the bad block in full
				let asked: Vec<String> = self.peers[*p].inbox.iter().map(describe).collect();
				self.peers[*p].inbox.clear();
				if header_only && !hb && asked.iter().any(|d| d.starts_with("GetCompactBlock")) {
					let b = self.world.bad[*bad].block.clone();
					self.peers[*p].send(Type::Block, b);
					self.sync_barrier(Some(*p))?;
					self.peers[*p].inbox.clear();
				}
				let after = self.node.digest().map_err(|e| self.v("digest", e))?;
				let evs = self.node.take_events();
				if !evs.is_empty() {
					return Err(self.v("bad-block-accepted", format!("the node reported block_accepted for an invalid block ({})", kind)));
				}
				let same = if hb || !header_only { before == after || (before.same_body(&after) && !hb) } else { before.same_body(&after) };
				if !same || (hb && before != after) {
					return Err(self.v(
						"bad-input-changed-state",
						format!("invalid input ({}, header_bad={}) changed the node's state: {} -> {}", kind, hb, before.short(), after.short()),
					));
				}
				if before.header_head != after.header_head {
					self.probe("valid_header_of_bad_block_remembered");
				}
				// a peer that sent an intrinsically bad block or header is banned and disconnected
				let banned = self.node.peers.is_banned(addr);
				let closed = !self.peers[*p].alive;
				self.log.push(format!("  bad {} banned={} closed={}", kind, banned, closed));
				if banned {
					self.probe("byzantine_peer_banned");
				} else {
					self.probe("byzantine_peer_not_banned");
				}
				self.after_delivery()?;
				self.serve_requests()
			}
			NOp::AskBlock { p, id, compact } => {
				let h = self.world.blocks[*id].hash;
				let ty = if *compact { Type::GetCompactBlock } else { Type::GetBlock };
				self.peers[*p].send(ty, h);
				self.sync_barrier(Some(*p))?;
				let inbox = std::mem::take(&mut self.peers[*p].inbox);
				let names: Vec<String> = inbox.iter().map(describe).collect();
				self.log.push(format!("  answered {:?}", names));
				let has = self.node.chain.get_block(&h).is_ok();
				let mut got = false;
				for m in inbox {
					match m {
						Message::Block(b) => {
							let b: Block = b.into();
							got = true;
							if b.hash() != h {
								return Err(self.v("wrong-block-served", format!("asked for block {} and received {}", h, b.hash())));
							}
						}
						Message::CompactBlock(cb) => {
							let cb: grin_core::core::CompactBlock = cb.into();
							got = true;
							if cb.hash() != h {
								return Err(self.v("wrong-block-served", format!("asked for compact block {} and received {}", h, cb.hash())));
							}
						}
						_ => {}
					}
				}
				if got {
					self.probe("block_served_on_request");
				}
				self.log.push(format!("  has={} got={}", has, got));
				self.after_delivery()
			}
			NOp::AskHeaders { p, id } => {
				let h = self.world.blocks[*id].hash;
				self.peers[*p].send(Type::GetHeaders, Locator { hashes: vec![h] });
				self.sync_barrier(Some(*p))?;
				let inbox = std::mem::take(&mut self.peers[*p].inbox);
				let mut n = 0usize;
				let mut prev: Option<BlockHeader> = None;
				for m in inbox {
					if let Message::Headers(hd) = m {
						for hh in hd.headers {
							if let Some(pv) = &prev {
								if hh.prev_hash != pv.hash() || hh.height != pv.height + 1 {
									return Err(self.v("headers-not-linked", format!("GetHeaders answer is not a linked chain at height {}", hh.height)));
								}
							}
							prev = Some(hh);
							n += 1;
						}
					}
				}
				self.log.push(format!("  headers {}", n));
				self.probe("headers_served_on_request");
				self.after_delivery()
			}
			NOp::Reconnect { p } => {
				if Some(*p) == self.byz_slot && self.node.peers.is_banned(self.peers[*p].addr) {
					// what p2p::Server::check_undesirable does with a banned address
					self.probe("banned_peer_reconnect_refused");
					return Ok(());
				}
				let old = self.peers[*p].addr;
				self.peers[*p].close();
				if let Some(np) = self.peers[*p].node_peer.take() {
					// (its threads notice within a second; nothing of the run depends on when)
					np.stop();
				}
				// Peers keeps stopped peers in its map until the monitor cleans up: mirror clean_peers' removal
				let _ = self.node.peers.disconnect_peer(old, "netsim reconnect");
				let id = self.peers[*p].id + 100;
				let (td, hh) = (self.peers[*p].claimed_td, self.peers[*p].claimed_height);
				let outbound = self.peers[*p].outbound;
				let np = if outbound {
					connect_outbound(&self.node, id, td, hh, Capabilities::default())
				} else {
					connect_inbound(&self.node, id, td, hh, Capabilities::default())
				};
				match np {
					Ok(mut np) => {
						np.slot = *p;
						self.peers[*p] = np;
						self.probe("peer_reconnected");
					}
					Err(e) => return Err(self.v("reconnect-failed", e)),
				}
				self.sync_barrier(None)?;
				self.after_delivery()
			}
			NOp::Sweep => {
				let winner = self.world.winner();
				for id in self.world.path_to(winner) {
					if id == 0 || self.accepted.contains(&id) {
						continue;
					}
					self.send_block(0, id)?;
					let saved = self.ignore_pct;
					self.ignore_pct = 0;
					let r = self.serve_requests();
					self.ignore_pct = saved;
					r?;
				}
				Ok(())
			}
		}
	}
}

impl SimPeer {
	fn id_slot(&self) -> usize {
		self.slot
	}
}

pub fn gen_relay_ops(world: &World, cfg: &RelayCfg, rng: &mut SimRng) -> Vec<NOp> {
	let mut ops = vec![];
	let order = crate::chainsim::topo_order(world, rng);
	let mut order: Vec<usize> = order.into_iter().filter(|i| *i != 0).collect();
	// one schedule in three: everything that loses first, the winning branch afterwards - every block of
	// the winning branch then arrives below the node's head and the node has to reorganise onto it
	if rng.chance(1, 3) {
		let win: BTreeSet<usize> = world.path_to(world.winner()).into_iter().collect();
		let fork_point = world
			.blocks
			.iter()
			.filter(|b| !win.contains(&b.id))
			.filter_map(|b| b.parent)
			.filter(|p| win.contains(p))
			.min()
			.unwrap_or(0);
		let late: Vec<usize> = order.iter().cloned().filter(|i| win.contains(i) && world.blocks[*i].height > world.blocks[fork_point].height).collect();
		let early: Vec<usize> = order.iter().cloned().filter(|i| !late.contains(i)).collect();
		order = early;
		order.extend(late);
	}
	// local swaps: children before parents now and then (orphans), forks interleaved
	let window = *rng.pick(&[1usize, 2, 4]);
	if window > 1 {
		let mut i = 0;
		while i + 1 < order.len() {
			if rng.chance(1, 3) {
				let j = (i + 1 + rng.usize_below(window)).min(order.len() - 1);
				order.swap(i, j);
			}
			i += 1;
		}
	}
	let byz_slot = if cfg.byz { Some(cfg.n_honest) } else { None };
	let mut delivered: BTreeSet<usize> = BTreeSet::new();
	delivered.insert(0);
	let mut bad_left: Vec<usize> = (0..world.bad.len()).collect();
	for id in order {
		let p = rng.usize_below(cfg.n_honest);
		let k = rng.below(100);
		let op = if k < 40 {
			NOp::Header { p, id }
		} else if k < 65 {
			NOp::Compact { p, id }
		} else {
			NOp::Block { p, id }
		};
		ops.push(op);
		delivered.insert(id);
		if rng.chance(1, 10) {
			let p2 = rng.usize_below(cfg.n_honest);
			ops.push(if rng.chance(1, 2) { NOp::Block { p: p2, id } } else { NOp::Header { p: p2, id } });
		}
		if let Some(bz) = byz_slot {
			// a bad block whose parent was (probably) delivered
			let ready: Vec<usize> = bad_left.iter().cloned().filter(|b| delivered.contains(&world.bad[*b].parent)).collect();
			if !ready.is_empty() && rng.chance(35, 100) {
				let b = *rng.pick(&ready);
				bad_left.retain(|x| *x != b);
				ops.push(if rng.chance(1, 3) { NOp::BadHeader { p: bz, bad: b } } else { NOp::Bad { p: bz, bad: b } });
			}
		}
		if rng.chance(1, 8) {
			// (the dev genesis carries no real proof of work: the simulated side could not decode it)
			let known: Vec<usize> = delivered.iter().cloned().filter(|i| *i != 0).collect();
			let q = *rng.pick(&known);
			let p2 = rng.usize_below(cfg.n_honest);
			ops.push(if rng.chance(1, 3) { NOp::AskHeaders { p: p2, id: q } } else { NOp::AskBlock { p: p2, id: q, compact: rng.chance(1, 2) } });
		}
		if rng.chance(1, 25) {
			ops.push(NOp::Reconnect { p: rng.usize_below(cfg.n_honest) });
		}
	}
	if let Some(bz) = byz_slot {
		for b in bad_left {
			if rng.chance(1, 2) {
				ops.push(NOp::Bad { p: bz, bad: b });
			}
		}
	}
	ops.push(NOp::Sweep);
	ops
}

pub fn run_relay(world: &World, prop: &str, cfg: &RelayCfg, ops: &[NOp], seed: u64, tag: &str) -> RelayOutcome {
	install_panic_recorder();
	grin_util::verif::set_pacing_off(true);
	if world.cfg.nrd {
		grin_core::global::set_global_nrd_enabled(true);
	}
	let dir = fresh_dir(&format!("{}-net", tag));
	let mut out = RelayOutcome {
		log: vec![],
		violation: None,
		steps: 0,
		faults: BTreeMap::new(),
		probes: BTreeMap::new(),
		states: BTreeSet::new(),
	};
	let node = match NetNode::assemble(&dir, world.genesis.clone(), PoolConfig::default(), false) {
		Ok(n) => n,
		Err(e) => {
			out.violation = Some((0, viol(prop, "harness-assemble", e)));
			return out;
		}
	};
	if cfg.syncing {
		node.sync.update(grin_chain::SyncStatus::BodySync { current_height: 0, highest_height: 0 });
	}
	let winner = world.winner();
	let (wtd, wh) = (world.blocks[winner].total_difficulty, world.blocks[winner].height);
	let mut peers = vec![];
	let total = cfg.n_honest + if cfg.byz { 1 } else { 0 };
	for i in 0..total {
		// every other honest peer is one the node dialled (outbound), as a real node has both kinds
		let r = if i % 2 == 1 && i < cfg.n_honest {
			connect_outbound(&node, i, wtd, wh, Capabilities::default())
		} else {
			connect_inbound(&node, i, wtd, wh, Capabilities::default())
		};
		match r {
			Ok(p) => peers.push(p),
			Err(e) => {
				out.violation = Some((0, viol(prop, "harness-connect", e)));
				node.shutdown();
				return out;
			}
		}
	}
	let mut sim = Relay {
		world,
		prop: prop.to_string(),
		node,
		peers,
		byz_slot: if cfg.byz { Some(cfg.n_honest) } else { None },
		rng: SimRng::new(seed).fork("relay-answers"),
		log: vec![format!("seed {}", seed)],
		step: 0,
		accepted: BTreeSet::new(),
		offered: BTreeSet::new(),
		last_td: 0,
		faults: BTreeMap::new(),
		probes: BTreeMap::new(),
		states: BTreeSet::new(),
		ignore_pct: cfg.ignore_pct,
		compact_nonce: seed & 0xffff,
	};
	sim.accepted.insert(0);
	let mut violation = None;
	if cfg.sync_prefix {
		if let Err(v) = sim.sync_prefix() {
			violation = Some((0, v));
		}
	}
	for (i, op) in ops.iter().enumerate() {
		if violation.is_some() {
			break;
		}
		// the byzantine peer comes back under a new address once it has been banned
		if let NOp::Bad { p, .. } | NOp::BadHeader { p, .. } = op {
			if !sim.peers[*p].alive {
				let id = sim.peers[*p].id + 100;
				match connect_inbound(&sim.node, id, wtd, wh, Capabilities::default()) {
					Ok(mut np) => {
						np.slot = *p;
						sim.peers[*p].close();
						if let Some(old) = sim.peers[*p].node_peer.take() {
							old.stop();
						}
						sim.peers[*p] = np;
						sim.probe("byzantine_peer_new_identity");
					}
					Err(e) => {
						violation = Some((i, viol(prop, "harness-connect", e)));
						break;
					}
				}
			}
		}
		let t_op = Instant::now();
		let r = sim.exec(op);
		if std::env::var("VERIF_NET_TIMING").is_ok() && t_op.elapsed() > Duration::from_millis(200) {
			eprintln!("slow op {:?}: {:?}", op, t_op.elapsed());
		}
		if let Err(v) = r {
			violation = Some((i, v));
			break;
		}
	}
	if violation.is_none() {
		if let Err(v) = relay_final_checks(&mut sim) {
			violation = Some((ops.len(), v));
		}
	}
	for p in sim.peers.iter_mut() {
		p.close();
	}
	sim.node.shutdown();
	out.log = std::mem::take(&mut sim.log);
	out.steps = sim.step;
	out.faults = std::mem::take(&mut sim.faults);
	out.probes = std::mem::take(&mut sim.probes);
	out.states = std::mem::take(&mut sim.states);
	out.violation = violation;
	let Relay { node, peers, .. } = sim;
	drop(peers);
	drop(node);
	let _ = std::fs::remove_dir_all(&dir);
	out
}

fn relay_final_checks(sim: &mut Relay) -> Result<(), Violation> {
	let world = sim.world;
	let winner = world.winner();
	let d = sim.node.digest().map_err(|e| sim.v("digest", e))?;
	let cut = sim.probes.get("block_below_horizon_dropped_by_adapter").cloned().unwrap_or(0) > 0;
	let all_in = world.path_to(winner).iter().all(|i| sim.accepted.contains(i));
	if !cut || all_in {
		if d.head != world.blocks[winner].hash {
			return Err(sim.v(
				"final-head-not-winner",
				format!("after an honest peer offered the whole winning chain the node sits on {}@{} but the unique most-work block is #{} {}@{}", d.head, d.head_height, winner, world.blocks[winner].hash, world.blocks[winner].height),
			));
		}
		sim.probe("final_head_is_winner");
	} else {
		sim.probe("final_head_check_skipped_horizon");
	}
	if d.head == world.blocks[winner].hash {
		let mut reference = crate::node::Node::create(&format!("{}-netref", sim.prop), world.genesis.clone());
		for id in world.path_to(winner) {
			if id == 0 {
				continue;
			}
			if let Err(e) = reference.chain().process_block(world.blocks[id].block.clone(), world.opts) {
				reference.destroy();
				return Err(sim.v("reference-refused", format!("reference node refused winning-chain block #{}: {:?}", id, e)));
			}
		}
		let rd = reference.digest();
		reference.destroy();
		let rd = rd.map_err(|e| sim.v("reference-digest", format!("{:?}", e)))?;
		if !d.same_body(&rd) {
			return Err(sim.v("final-roots-differ", format!("the node has the winning head but its state differs from a node that applied the winning chain alone: {} vs {}", d.short(), rd.short())));
		}
	}
	if let Err(e) = sim.node.chain.validate(false) {
		return Err(sim.v("final-validate-failed", format!("Chain::validate(false) failed at quiescence: {:?}", e)));
	}
	Ok(())
}

/// One netsim case of a chainsim property (C03 / C06): the world of that property delivered through
/// the network stack, several schedules per world.
pub fn relay_case(property: &str, tier: &str, seed: u64, case: u64) -> CaseResult {
	let t0 = Instant::now();
	let quick = tier != "thorough";
	let mut res = CaseResult::new(case, seed);
	// free-difficulty worlds need SKIP_POW, which the network path never sets; deep forks cannot
	// travel as unsolicited blocks (the adapter drops blocks below the horizon)
	let mut world = match crate::checks::build_world_with(property, tier, seed, net_world_tweak) {
		Ok(w) => w,
		Err(e) => {
			res.harness_error = Some(format!("world generation failed: {}", e));
			res.wall_s = t0.elapsed().as_secs_f64();
			return res;
		}
	};
	res.extra.insert("netsim_worlds".into(), json!(1));
	res.extra.insert("world_blocks".into(), json!(world.blocks.len()));
	let mut srng = SimRng::new(seed).fork("net-schedules");
	let k = if quick { 4 } else { 12 };
	for run in 0..k {
		let mut rr = srng.fork(&format!("run{}", run));
		let cfg = RelayCfg {
			sync_prefix: run % 4 == 2,
			syncing: run % 4 == 3,
			n_honest: 2 + rr.usize_below(2),
			byz: !world.bad.is_empty(),
			ignore_pct: *rr.pick(&[0u64, 10, 30]),
		};
		let ops = gen_relay_ops(&world, &cfg, &mut rr);
		let aseed = rr.next_u64();
		let out = run_relay(&world, property, &cfg, &ops, aseed, &format!("{}-c{}r{}", property, case, run));
		res.runs += 1;
		res.probe("netsim_runs");
		res.steps += out.steps;
		for (k, v) in &out.faults {
			res.fault_n(k, *v);
		}
		for (k, v) in &out.probes {
			res.probe_n(&format!("net_{}", k), *v);
		}
		for s in &out.states {
			res.states.insert(*s);
		}
		let digest = fnv64(out.log.join("\n").as_bytes());
		res.run_digests.push((digest, true));
		if res.samples.is_empty() {
			res.samples.push(json!({
				"engine": "netsim",
				"world_seed": seed,
				"peers": cfg.n_honest + cfg.byz as usize,
				"ops_head": ops.iter().take(20).map(|o| format!("{:?}", o)).collect::<Vec<_>>(),
				"log_tail": out.log.iter().rev().take(4).cloned().collect::<Vec<_>>(),
			}));
		}
		if let Some((idx, mut v)) = out.violation {
			// minimise the schedule (the closing Sweep stays: the final checks refer to it)
			let key = v.key.clone();
			let body: Vec<NOp> = ops.iter().filter(|o| **o != NOp::Sweep).cloned().collect();
			let mut n = 0;
			let min_body = crate::sim::ddmin(
				&body,
				|cand| {
					n += 1;
					let mut c = cand.to_vec();
					c.push(NOp::Sweep);
					run_relay(&world, property, &cfg, &c, aseed, &format!("{}-min{}", property, n)).violation.map(|(_, x)| x.key == key).unwrap_or(false)
				},
				14,
			);
			let mut min_ops = min_body;
			min_ops.push(NOp::Sweep);
			let again = run_relay(&world, property, &cfg, &min_ops, aseed, &format!("{}-minfinal", property));
			let (min_ops, log_tail) = match again.violation {
				Some((_, x)) if x.key == key => {
					v.what = format!("{} [minimised from {} to {} ops]", x.what, ops.len(), min_ops.len());
					(min_ops, again.log)
				}
				_ => (ops.clone(), out.log.clone()),
			};
			v.replay = json!({
				"engine": "netsim", "mode": "relay", "property": property, "tier": tier, "case_seed": seed,
				"n_honest": cfg.n_honest, "byz": cfg.byz, "syncing": cfg.syncing, "sync_prefix": cfg.sync_prefix, "ignore_pct": cfg.ignore_pct, "run": run,
				"answer_seed": aseed, "failed_at_op": idx, "ops": serde_json::to_value(&min_ops).unwrap_or(Value::Null),
				"log_tail": log_tail.iter().rev().take(12).cloned().collect::<Vec<_>>(),
			});
			res.violations.push(v);
			break;
		}
	}
	world.cleanup();
	res.wall_s = t0.elapsed().as_secs_f64();
	res
}

pub fn net_world_tweak(cfg: &mut crate::world::WorldCfg) {
	cfg.free_difficulty = false;
	if cfg.fork_deep {
		cfg.fork_deep = false;
		cfg.trunk = cfg.trunk.min(30);
	}
}

pub fn replay(rp: &Value) -> Result<Option<Violation>, String> {
	match rp["mode"].as_str() {
		Some("relay") => {
			let property = rp["property"].as_str().unwrap_or("C03").to_string();
			let tier = rp["tier"].as_str().unwrap_or("quick").to_string();
			let seed = rp["case_seed"].as_u64().ok_or("case_seed missing")?;
			let run = rp["run"].as_u64().unwrap_or(0);
			let mut world = crate::checks::build_world_with(&property, &tier, seed, net_world_tweak)?;
			let ops: Vec<NOp> = serde_json::from_value(rp["ops"].clone()).map_err(|e| e.to_string())?;
			let cfg = RelayCfg {
				sync_prefix: rp["sync_prefix"].as_bool().unwrap_or(false),
				syncing: rp["syncing"].as_bool().unwrap_or(false),
				n_honest: rp["n_honest"].as_u64().unwrap_or(2) as usize,
				byz: rp["byz"].as_bool().unwrap_or(false),
				ignore_pct: rp["ignore_pct"].as_u64().unwrap_or(0),
			};
			// the answer stream of the failing run: same derivation as in relay_case
			let mut srng = SimRng::new(seed).fork("net-schedules");
			let mut aseed = 0;
			for r in 0..=run {
				let mut rr = srng.fork(&format!("run{}", r));
				let c = RelayCfg {
					sync_prefix: false,
					syncing: false,
					n_honest: 2 + rr.usize_below(2),
					byz: !world.bad.is_empty(),
					ignore_pct: *rr.pick(&[0u64, 10, 30]),
				};
				let _ = gen_relay_ops(&world, &c, &mut rr);
				aseed = rr.next_u64();
			}
			let aseed = rp["answer_seed"].as_u64().unwrap_or(aseed);
			let out = run_relay(&world, &property, &cfg, &ops, aseed, "replay");
			world.cleanup();
			Ok(out.violation.map(|(_, mut v)| {
				v.replay = rp.clone();
				v
			}))
		}
		Some("mesh") => {
			let seed = rp["case_seed"].as_u64().ok_or("case_seed missing")?;
			let rs = rp["run_seed"].as_u64().ok_or("run_seed missing")?;
			let n_nodes = rp["nodes"].as_u64().unwrap_or(3) as usize;
			let ops: Vec<MOp> = serde_json::from_value(rp["ops"].clone()).map_err(|e| e.to_string())?;
			let (mut world, start) = crate::poolsim::build_world(seed)?;
			let out = run_mesh(&mut world, start, n_nodes, &ops, rs, "mesh-replay");
			world.cleanup();
			Ok(out.violation.map(|(_, mut v)| {
				v.replay = rp.clone();
				v
			}))
		}
		Some("versions") => {
			let seed = rp["case_seed"].as_u64().ok_or("case_seed missing")?;
			let case = rp["case"].as_u64().unwrap_or(0);
			let tier = rp["tier"].as_str().unwrap_or("quick").to_string();
			let r = versions_case(&tier, seed, case);
			if let Some(e) = r.harness_error {
				return Err(e);
			}
			Ok(r.violations.into_iter().next())
		}
		Some("hostile") => {
			// the whole case is cheap and deterministic: run it again and report what it reports
			let seed = rp["case_seed"].as_u64().ok_or("case_seed missing")?;
			let case = rp["case"].as_u64().unwrap_or(0);
			let tier = rp["tier"].as_str().unwrap_or("quick").to_string();
			let r = hostile_case(&tier, seed, case);
			if let Some(e) = r.harness_error {
				return Err(e);
			}
			Ok(r.violations.into_iter().next())
		}
		Some("pibd") => {
			let seed = rp["case_seed"].as_u64().ok_or("case_seed missing")?;
			let long = rp["long"].as_bool().unwrap_or(false);
			let fat = rp["fat"].as_bool().unwrap_or(false);
			let quiet = rp["quiet"].as_bool().unwrap_or(false);
			let rs = rp["run_seed"].as_u64().ok_or("run_seed missing")?;
			let faulty = rp["faulty"].as_bool().unwrap_or(false);
			let mut world = crate::pibdsim::build_world(seed, long, fat, quiet)?;
			let archive = rp["archive"].as_bool().unwrap_or(false);
			let out = pibd_net_run_mode(&world, rs, "pibdnet-replay", faulty, long, archive);
			world.cleanup();
			Ok(out.violation.map(|mut v| {
				v.replay = rp.clone();
				v
			}))
		}
		other => Err(format!("unknown netsim mode {:?}", other)),
	}
}

// ------------------------------------------------------------------------------------------
// a node plus its simulated peers as a unit, for engines that drive their own workload (poolsim)

pub struct NetLink {
	pub node: NetNode,
	pub peers: Vec<SimPeer>,
}

impl NetLink {
	/// `base` blocks are applied before anybody connects. Peer 0 dials in (source of transactions and
	/// blocks); with `with_relay` the node also has one outbound connection (peer 1), which is what its
	/// Dandelion epoch picks as stem relay and what receives its broadcasts.
	pub fn new(dir: &std::path::Path, genesis: Block, pool_cfg: PoolConfig, base: &[Block], opts: grin_chain::Options, with_relay: bool) -> Result<NetLink, String> {
		install_panic_recorder();
		grin_util::verif::set_pacing_off(true);
		let node = NetNode::assemble(dir, genesis, pool_cfg, false)?;
		for b in base {
			node.chain.process_block(b.clone(), opts).map_err(|e| format!("base block h{}: {:?}", b.header.height, e))?;
		}
		node.take_events();
		let head = node.chain.head().map_err(|e| format!("{:?}", e))?;
		let mut peers = vec![connect_inbound(&node, 0, head.total_difficulty.to_num(), head.height, Capabilities::default())?];
		if with_relay {
			peers.push(connect_outbound(&node, 1, head.total_difficulty.to_num(), head.height, Capabilities::default())?);
		}
		Ok(NetLink { node, peers })
	}

	/// One message from peer `slot`, then the barrier over all connections.
	pub fn send<T: Writeable>(&mut self, slot: usize, ty: Type, body: T) -> Result<(), String> {
		if !self.peers[slot].send(ty, body) {
			return Err(format!("connection {} is closed", slot));
		}
		barrier(&mut self.peers, Some(slot))?;
		if let Some(p) = take_panics().first() {
			return Err(format!("node thread panicked: {}", p));
		}
		Ok(())
	}

	pub fn take(&mut self, slot: usize) -> Vec<Message> {
		std::mem::take(&mut self.peers[slot].inbox)
	}

	pub fn shutdown(&mut self) {
		for p in self.peers.iter_mut() {
			p.close();
		}
		self.node.shutdown();
	}
}

// ------------------------------------------------------------------------------------------
// scenario C: state sync (PIBD) between two real nodes, each with its complete p2p stack; the
// simulator is the wire between them (C16)

pub struct PibdNetOutcome {
	pub violation: Option<Violation>,
	pub log: Vec<String>,
	pub rounds: u64,
	pub probes: BTreeMap<String, u64>,
	pub faults: BTreeMap<String, u64>,
}

/// Serving node S (all blocks, optionally compacted) and receiving node R (headers through Headers
/// messages, then segments). R's requests are made the way `StateSync::continue_pibd` makes them -
/// through the real `Peer::send_*_segment_request` of R's outbound connection -, travel over R's
/// socket to the simulator, are written into S's socket, answered by S's real Protocol /
/// NetToChainAdapter / Segmenter, and the answers travel back into R's socket: R's real Protocol,
/// NetToChainAdapter::receive_*_segment and Desegmenter take them. While faults are on, the wire
/// drops, duplicates, delays (reorders) and corrupts answers (one flipped byte).
pub fn pibd_net_run(world: &World, seed: u64, tag: &str, faulty: bool, compact_server: bool) -> PibdNetOutcome {
	pibd_net_run_mode(world, seed, tag, faulty, compact_server, false)
}

/// `archive`: instead of segments the receiver asks for the state archive (`TxHashSetRequest`, as
/// `StateSync::request_state` does through `Peer::send_txhashset_request`); the serving node's real
/// Protocol answers with `TxHashSetArchive` and streams the zip behind it; the simulator carries the
/// message and the attachment (in seeded write sizes) to the receiver, whose real connection reader
/// stores the attachment and whose Protocol hands the file to `txhashset_write`. While faults are on,
/// the first attempt carries one flipped byte (or is cut short by the peer hanging up).
pub fn pibd_net_run_mode(world: &World, seed: u64, tag: &str, faulty: bool, compact_server: bool, archive: bool) -> PibdNetOutcome {
	use grin_chain::SyncStatus;
	use grin_core::core::{SegmentIdentifier, SegmentType, SegmentTypeIdentifier};
	install_panic_recorder();
	grin_util::verif::set_pacing_off(true);
	grin_chain::pibd_params::verif::set_segment_heights(255, 255, 255, 255);
	let mut rng = SimRng::new(seed).fork("pibd-net");
	let mut out = PibdNetOutcome {
		violation: None,
		log: vec![format!("seed {} faulty {} compact_server {}", seed, faulty, compact_server)],
		rounds: 0,
		probes: BTreeMap::new(),
		faults: BTreeMap::new(),
	};
	macro_rules! bump {
		($m:expr, $k:expr) => {
			*$m.entry($k.to_string()).or_insert(0) += 1
		};
	}
	let v = |key: &str, what: String| Violation {
		key: format!("C16:net-{}", key),
		what,
		replay: Value::Null,
	};
	let dir_s = fresh_dir(&format!("{}-srv", tag));
	let dir_r = fresh_dir(&format!("{}-rcv", tag));
	let server = match NetNode::assemble(&dir_s, world.genesis.clone(), PoolConfig::default(), false) {
		Ok(n) => n,
		Err(e) => {
			out.violation = Some(v("harness-assemble", e));
			return out;
		}
	};
	let receiver = match NetNode::assemble(&dir_r, world.genesis.clone(), PoolConfig::default(), false) {
		Ok(n) => n,
		Err(e) => {
			out.violation = Some(v("harness-assemble", e));
			return out;
		}
	};
	let winner = world.winner();
	let path = world.path_to(winner);
	let mut result: Option<Violation> = None;
	let mut sp: Vec<SimPeer> = vec![]; // [0] = connection into S, [1] = connection of R
	'run: loop {
		for id in &path {
			if *id == 0 {
				continue;
			}
			if let Err(e) = server.chain.process_block(world.blocks[*id].block.clone(), world.opts) {
				result = Some(v("harness-server-block", format!("serving node refused honest block #{}: {:?}", id, e)));
				break 'run;
			}
			// compaction 15 blocks before the tip: the archive header then stays above the compaction
			// horizon (with mainnet parameters it always does)
			if compact_server && world.blocks[*id].height + 15 == world.blocks[world.winner()].height {
				if let Err(e) = server.chain.compact() {
					result = Some(v("harness-server-compact", format!("{:?}", e)));
					break 'run;
				}
				bump!(out.probes, "net_server_compacted");
			}
		}
		server.take_events();
		let (wtd, wh) = (world.blocks[winner].total_difficulty, world.blocks[winner].height);
		match connect_inbound(&server, 0, 1, 0, Capabilities::default()) {
			Ok(p) => sp.push(p),
			Err(e) => {
				result = Some(v("harness-connect", e));
				break 'run;
			}
		}
		match connect_outbound(&receiver, 1, wtd, wh, Capabilities::default()) {
			Ok(mut p) => {
				p.slot = 1;
				sp.push(p)
			}
			Err(e) => {
				result = Some(v("harness-connect", e));
				break 'run;
			}
		}
		// header sync over the wire: the sync loop's status, then Headers messages in chunks
		let hh = match receiver.chain.header_head() {
			Ok(t) => t,
			Err(e) => {
				result = Some(v("digest", format!("{:?}", e)));
				break 'run;
			}
		};
		receiver.sync.update(SyncStatus::HeaderSync {
			sync_head: hh,
			highest_height: wh,
			highest_diff: Difficulty::from_num(wtd),
		});
		let headers: Vec<BlockHeader> = path.iter().filter(|i| **i != 0).map(|i| world.blocks[*i].block.header.clone()).collect();
		let chunk = *rng.pick(&[7usize, 32, 33, 100, 512]);
		for c in headers.chunks(chunk) {
			sp[1].send(Type::Headers, Headers { headers: c.to_vec() });
			if let Err(e) = barrier(&mut sp[1..2], Some(0)) {
				result = Some(v("connection-stuck", format!("receiver, during header sync: {}", e)));
				break 'run;
			}
		}
		let hh = receiver.chain.header_head().map(|t| t.last_block_h).ok();
		if hh != Some(world.blocks[winner].hash) {
			result = Some(v("header-sync-failed", format!("after all Headers messages the receiver's header head is {:?}, not the tip {}", hh, world.blocks[winner].hash)));
			break 'run;
		}
		bump!(out.probes, "headers_synced_over_the_wire");
		let ah = match receiver.chain.txhashset_archive_header_header_only() {
			Ok(h) => h,
			Err(e) => {
				result = Some(v("archive-header", format!("{:?}", e)));
				break 'run;
			}
		};
		let archive_id = world.id_of_hash(&ah.hash()).unwrap_or(0);
		out.log.push(format!("archive header #{} h{}", archive_id, ah.height));
		let mut archive_done = false;
		if archive {
			use grin_p2p::msg::{TxHashSetArchive, TxHashSetRequest};
			let attempts = if faulty { 2 } else { 1 };
			for attempt in 0..attempts {
				let bad = faulty && attempt == 0;
				receiver.sync.clear_sync_error();
				receiver.sync.update(SyncStatus::TxHashsetDownload(Default::default()));
				if !sp[1].alive {
					match connect_outbound(&receiver, 50 + attempt, wtd, wh, Capabilities::default()) {
						Ok(mut p) => {
							p.slot = 1;
							sp[1] = p;
						}
						Err(e) => {
							result = Some(v("harness-connect", e));
							break 'run;
						}
					}
				}
				let peer = sp[1].node_peer.clone().expect("peer object");
				if let Err(e) = peer.send_txhashset_request(ah.height, ah.hash()) {
					result = Some(v("request-send-failed", format!("{:?}", e)));
					break 'run;
				}
				if let Err(e) = barrier(&mut sp[1..2], Some(0)) {
					result = Some(v("connection-stuck", format!("receiver, after its archive request: {}", e)));
					break 'run;
				}
				let asked: Vec<Message> = std::mem::take(&mut sp[1].inbox);
				let req = asked.into_iter().find_map(|m| if let Message::TxHashSetRequest(r) = m { Some(r) } else { None });
				let req = match req {
					Some(r) => r,
					None => {
						result = Some(v("archive-request-not-sent", "the receiver's Peer object did not put a TxHashSetRequest on the wire".into()));
						break 'run;
					}
				};
				sp[0].attachment.clear();
				sp[0].send(Type::TxHashSetRequest, TxHashSetRequest { hash: req.hash, height: req.height });
				if let Err(e) = barrier(&mut sp[0..1], Some(0)) {
					result = Some(v("connection-stuck", format!("serving node, after the archive request: {}", e)));
					break 'run;
				}
				let ans = std::mem::take(&mut sp[0].inbox).into_iter().find_map(|m| if let Message::TxHashSetArchive(a) = m { Some(a) } else { None });
				let ans = match ans {
					Some(a) => a,
					None => {
						result = Some(v("request-not-served", "the serving node did not answer the archive request".into()));
						break 'run;
					}
				};
				let mut zip = std::mem::take(&mut sp[0].attachment);
				if zip.len() as u64 != ans.bytes {
					result = Some(v("archive-attachment-length", format!("the serving node announced {} bytes and streamed {}", ans.bytes, zip.len())));
					break 'run;
				}
				bump!(out.probes, "archive_served_over_the_wire");
				out.log.push(format!("archive {}@{} {} bytes, attempt {} bad {}", ans.hash, ans.height, ans.bytes, attempt, bad));
				let mut cut = zip.len();
				if bad {
					if rng.chance(1, 3) && zip.len() > 10 {
						cut = rng.usize_below(zip.len());
						bump!(out.faults, "archive_cut_short_by_hangup");
					} else if !zip.is_empty() {
						let i = rng.usize_below(zip.len());
						zip[i] ^= 1 << rng.below(8);
						bump!(out.faults, "archive_byte_flipped");
					}
				}
				let before = receiver.digest().ok();
				sp[1].send(Type::TxHashSetArchive, TxHashSetArchive { hash: ans.hash, height: ans.height, bytes: ans.bytes });
				// the attachment follows the message unframed, in whatever pieces the sender's writes make
				let mut off = 0;
				while off < cut {
					let n = (*rng.pick(&[1usize, 7, 4096, 8000, 47_999, 48_000, 48_001, 100_000])).min(cut - off);
					sp[1].send_bytes(&zip[off..off + n]);
					off += n;
				}
				if cut < zip.len() {
					sp[1].close();
					std::thread::sleep(Duration::from_millis(50));
				} else if let Err(e) = barrier(&mut sp[1..2], Some(0)) {
					result = Some(v("connection-stuck", format!("receiver, after the archive: {}", e)));
					break 'run;
				}
				if let Some(p) = take_panics().first() {
					result = Some(v("node-thread-panicked", p.clone()));
					break 'run;
				}
				let after = receiver.digest().ok();
				let status = receiver.sync.status();
				out.log.push(format!("  receiver status {:?} head {:?}", std::mem::discriminant(&status), after.as_ref().map(|d| d.head_height)));
				if bad {
					// whatever it was sent, it must not have finalised anything but the reference state; the
					// usual outcome is a refusal with the state untouched
					if after != before {
						bump!(out.probes, "archive_with_fault_changed_state");
					} else {
						bump!(out.probes, "bad_archive_refused_state_unchanged");
					}
					if matches!(status, SyncStatus::TxHashsetDone) {
						archive_done = true;
						break;
					}
				} else {
					if !matches!(status, SyncStatus::TxHashsetDone) {
						result = Some(v("honest-archive-refused", format!("the honest state archive sent over the wire was not accepted: sync status {:?}, sync error {:?}", std::mem::discriminant(&status), receiver.sync.sync_error().map(|e| format!("{:?}", e)))));
						break 'run;
					}
					archive_done = true;
				}
			}
			if !archive_done {
				result = Some(v("archive-sync-did-not-complete", "no attempt completed the state sync from the archive".into()));
				break 'run;
			}
			bump!(out.probes, "archive_sync_completed_over_the_wire");
		}
		if !archive {
			receiver.sync.update_pibd_progress(false, false, 0, 1, &ah);
		}
		let des = if archive {
			None
		} else {
			match receiver.chain.desegmenter(&ah) {
				Ok(d) => Some(d),
				Err(e) => {
					result = Some(v("desegmenter", format!("{:?}", e)));
					break 'run;
				}
			}
		};
		// frames on their way from S to R: (deliver not before round, type, frame bytes, corrupted?)
		let mut wire: Vec<(u64, String, Vec<u8>, bool)> = vec![];
		let mut corrupt_delivered = 0u64;
		let fault_rounds = if faulty { 40u64 } else { 0 };
		let max_rounds = fault_rounds + 80;
		let mut bitmap_ready = false;
		let mut done = archive_done;
		let mut rounds = 0u64;
		while !archive_done && rounds < max_rounds {
			rounds += 1;
			let faults_on = rounds <= fault_rounds;
			// the sync loop's turn: apply, look at progress, ask for what is missing
			let mut wanted: Vec<SegmentTypeIdentifier> = vec![];
			{
				let des = des.as_ref().expect("segment mode");
				let mut guard = des.write();
				let d = match guard.as_mut() {
					Some(d) => d,
					None => {
						result = Some(v("desegmenter", "no desegmenter".into()));
						break 'run;
					}
				};
				if let Err(e) = d.apply_next_segments() {
					if corrupt_delivered == 0 {
						result = Some(v("apply-failed", format!("round {}: apply_next_segments failed on honest segments: {:?}", rounds, e)));
						break 'run;
					}
					bump!(out.probes, "apply_failed_after_corruption");
				}
				match d.check_progress(receiver.sync.clone()) {
					Ok(true) => {
						done = true;
					}
					Ok(false) => {}
					Err(e) => {
						result = Some(v("check-progress-failed", format!("{:?}", e)));
						break 'run;
					}
				}
				if !done {
					wanted = d.next_desired_segments(15);
					if wanted.iter().any(|w| w.segment_type != SegmentType::Bitmap) {
						bitmap_ready = true;
					}
					// the planner never asks for the bitmap segment of a single-leaf bitmap MMR (recorded
					// observation, outside C16): the harness asks for it itself, as pibdsim does
					if !bitmap_ready {
						let bm_size = d.expected_bitmap_mmr_size();
						for id in SegmentIdentifier::traversal_iter(bm_size, grin_chain::pibd_params::BITMAP_SEGMENT_HEIGHT) {
							let sid = SegmentTypeIdentifier::new(SegmentType::Bitmap, id);
							if !wanted.contains(&sid) {
								wanted.push(sid);
							}
						}
					}
				}
			}
			if done {
				break;
			}
			// requests leave R the way StateSync sends them
			let peer = match sp[1].node_peer.clone() {
				Some(p) => p,
				None => {
					result = Some(v("harness-peer", "no peer object".into()));
					break 'run;
				}
			};
			for w in &wanted {
				if receiver.sync.contains_pibd_segment(w) && !faults_on {
					// still outstanding; the real loop re-requests after 20 s - here: every round once faults are over
				}
				receiver.sync.add_pibd_segment(w, peer.info.addr.0);
				let r = match w.segment_type {
					SegmentType::Bitmap => peer.send_bitmap_segment_request(ah.hash(), w.identifier),
					SegmentType::Output => peer.send_output_segment_request(ah.hash(), w.identifier),
					SegmentType::RangeProof => peer.send_rangeproof_segment_request(ah.hash(), w.identifier),
					SegmentType::Kernel => peer.send_kernel_segment_request(ah.hash(), w.identifier),
				};
				if let Err(e) = r {
					result = Some(v("request-send-failed", format!("{:?}", e)));
					break 'run;
				}
			}
			if let Err(e) = barrier(&mut sp[1..2], Some(0)) {
				result = Some(v("connection-stuck", format!("receiver, after its segment requests of round {}: {}", rounds, e)));
				break 'run;
			}
			let asked = std::mem::take(&mut sp[1].inbox);
			// the wire carries them to S; S answers
			for m in asked {
				let d = describe(&m);
				let (ty, req) = match m {
					Message::GetOutputBitmapSegment(r) => (Type::GetOutputBitmapSegment, r),
					Message::GetOutputSegment(r) => (Type::GetOutputSegment, r),
					Message::GetRangeProofSegment(r) => (Type::GetRangeProofSegment, r),
					Message::GetKernelSegment(r) => (Type::GetKernelSegment, r),
					_ => continue,
				};
				if faults_on && rng.chance(15, 100) {
					bump!(out.faults, "request_lost");
					continue;
				}
				bump!(out.probes, "segment_request_over_the_wire");
				sp[0].send(ty, req);
				if let Err(e) = barrier(&mut sp[0..1], Some(0)) {
					result = Some(v("connection-stuck", format!("serving node, after request {} in round {}: {}", d, rounds, e)));
					break 'run;
				}
				let answers = std::mem::take(&mut sp[0].inbox);
				if sp[0].refused_frame {
					// with AutomatedTesting's block weight of 250 the per-type frame limit is 62 KB, less than
					// a default-height segment of a larger state: a limit of the test parameters, not of C16
					bump!(out.probes, "segment_frame_above_test_limit_run_abandoned");
					break 'run;
				}
				if answers.is_empty() {
					result = Some(v("request-not-served", format!("round {}: the serving node did not answer {}", rounds, d)));
					break 'run;
				}
				for a in answers {
					let name = describe(&a);
					let frame = match a {
						Message::OutputBitmapSegment(r) => frame_of(Type::OutputBitmapSegment, r, sp[1].version),
						Message::OutputSegment(r) => frame_of(Type::OutputSegment, r, sp[1].version),
						Message::RangeProofSegment(r) => frame_of(Type::RangeProofSegment, r, sp[1].version),
						Message::KernelSegment(r) => frame_of(Type::KernelSegment, r, sp[1].version),
						_ => continue,
					};
					bump!(out.probes, "segment_served_over_the_wire");
					let mut when = rounds;
					let mut corrupted = false;
					let mut frame = frame;
					if faults_on {
						let k = rng.below(100);
						if k < 15 {
							bump!(out.faults, "answer_lost");
							continue;
						} else if k < 30 {
							bump!(out.faults, "answer_duplicated");
							wire.push((rounds + rng.range(0, 3), name.clone(), frame.clone(), false));
						} else if k < 45 {
							when = rounds + rng.range(1, 4);
							bump!(out.faults, "answer_delayed");
						} else if k < 55 && frame.len() > 12 {
							let i = 11 + rng.usize_below(frame.len() - 11);
							frame[i] ^= 1 << rng.below(8);
							corrupted = true;
							bump!(out.faults, "answer_corrupted");
						}
					}
					wire.push((when, name, frame, corrupted));
				}
			}
			// what is due arrives at R, in seeded order
			let (mut due, later): (Vec<_>, Vec<_>) = wire.drain(..).partition(|x| x.0 <= rounds);
			wire = later;
			rng.shuffle(&mut due);
			for (_, name, frame, corrupted) in due {
				if !sp[1].alive {
					// R hung up on a frame it could not decode: the peer dials again
					match connect_outbound(&receiver, 1 + rounds as usize, wtd, wh, Capabilities::default()) {
						Ok(mut p) => {
							p.slot = 1;
							sp[1] = p;
							bump!(out.probes, "receiver_connection_reopened");
						}
						Err(e) => {
							result = Some(v("harness-connect", e));
							break 'run;
						}
					}
				}
				out.log.push(format!("round {} -> R {}{}", rounds, name, if corrupted { " (corrupted)" } else { "" }));
				if corrupted {
					corrupt_delivered += 1;
				}
				sp[1].send_bytes(&frame);
				if let Err(e) = barrier(&mut sp[1..2], Some(0)) {
					result = Some(v("connection-stuck", format!("receiver, after segment delivery in round {}: {}", rounds, e)));
					break 'run;
				}
				sp[1].inbox.clear();
				if let Some(p) = take_panics().first() {
					result = Some(v("node-thread-panicked", p.clone()));
					break 'run;
				}
			}
		}
		out.rounds = rounds;
		if !done {
			result = Some(v("no-progress", format!("state sync over the wire did not complete within {} rounds ({} of them fault free)", max_rounds, max_rounds - fault_rounds)));
			break 'run;
		}
		// completion, as StateSync::check_run does it
		if !archive_done {
			let des = des.as_ref().expect("segment mode");
			let guard = des.write();
			let d = guard.as_ref().expect("desegmenter");
			if let Err(e) = d.check_update_leaf_set_state() {
				result = Some(v("leaf-set-update-failed", format!("{:?}", e)));
				break 'run;
			}
			if let Err(e) = d.validate_complete_state(receiver.sync.clone(), Arc::new(grin_util::StopState::new())) {
				if corrupt_delivered == 0 {
					result = Some(v("validate-complete-state-failed", format!("honest sync over the wire: validate_complete_state failed: {:?}", e)));
				} else {
					bump!(out.probes, "finalization_refused_after_corruption");
				}
				break 'run;
			}
		}
		// the state equals that of a node that processed every block up to the archive header
		let mut reference = crate::node::Node::create(&format!("{}-ref", tag), world.genesis.clone());
		let mut ref_err = None;
		for id in world.path_to(archive_id) {
			if id != 0 {
				if let Err(e) = reference.chain().process_block(world.blocks[id].block.clone(), world.opts) {
					ref_err = Some(format!("{:?}", e));
					break;
				}
			}
		}
		let rd = reference.digest();
		reference.destroy();
		if let Some(e) = ref_err {
			result = Some(v("reference-failed", e));
			break 'run;
		}
		let d = match receiver.digest() {
			Ok(d) => d,
			Err(e) => {
				result = Some(v("digest", e));
				break 'run;
			}
		};
		match rd {
			Ok(rd) if d.same_body(&rd) => {}
			Ok(rd) => {
				result = Some(v("final-state-differs", format!("receiver finalized {} but a node that processed every block to the archive header is at {}", d.short(), rd.short())));
				break 'run;
			}
			Err(e) => {
				result = Some(v("reference-digest", format!("{:?}", e)));
				break 'run;
			}
		}
		let want: BTreeSet<_> = world.blocks[archive_id].ledger.keys().cloned().collect();
		let mut got = BTreeSet::new();
		for k in world.all_commits() {
			let c = grin_util::secp::pedersen::Commitment::from_vec(k.to_vec());
			if let Ok(Some(_)) = receiver.chain.get_unspent(c) {
				got.insert(k);
			}
		}
		if got != want {
			result = Some(v("final-utxo-differs", format!("receiver's unspent set has {} entries, the ledger at the archive header {}", got.len(), want.len())));
			break 'run;
		}
		if let Err(e) = receiver.chain.validate(false) {
			result = Some(v("final-validate-failed", format!("{:?}", e)));
			break 'run;
		}
		// the rest of the chain arrives as blocks over the wire (body sync would ask for them by hash)
		receiver.sync.update(SyncStatus::NoSync);
		if !sp[1].alive {
			match connect_outbound(&receiver, 999, wtd, wh, Capabilities::default()) {
				Ok(mut p) => {
					p.slot = 1;
					sp[1] = p;
				}
				Err(e) => {
					result = Some(v("harness-connect", e));
					break 'run;
				}
			}
		}
		for id in &path {
			if world.blocks[*id].height > ah.height {
				sp[1].send(Type::Block, world.blocks[*id].block.clone());
				if let Err(e) = barrier(&mut sp[1..2], Some(0)) {
					result = Some(v("connection-stuck", e));
					break 'run;
				}
				sp[1].inbox.clear();
			}
		}
		let fin = receiver.digest();
		let srv = server.digest();
		match (fin, srv) {
			(Ok(a), Ok(b)) if a.same_body(&b) => {}
			(a, b) => {
				result = Some(v("tip-state-differs", format!("after catching up over the wire the receiver is at {:?}, the serving node at {:?}", a.map(|x| x.short()), b.map(|x| x.short()))));
				break 'run;
			}
		}
		bump!(out.probes, "sync_completed_over_the_wire");
		break 'run;
	}
	let panics = take_panics();
	if let Some(p) = panics.first() {
		if result.as_ref().map(|r| r.key.contains("connection-stuck")).unwrap_or(true) {
			result = Some(v("node-thread-panicked", p.clone()));
		}
	}
	for p in sp.iter_mut() {
		p.close();
	}
	server.shutdown();
	receiver.shutdown();
	drop(sp);
	drop(server);
	drop(receiver);
	let _ = std::fs::remove_dir_all(&dir_s);
	let _ = std::fs::remove_dir_all(&dir_r);
	out.violation = result;
	out
}

// ------------------------------------------------------------------------------------------
// scenario D: a hostile peer against the complete node (C11): every message type, valid and
// mutated, travels through the real conn reader, Codec, Protocol::consume, TrackingAdapter, Peers
// and NetToChainAdapter handlers up to (not into) chain state

fn refit(frame: &mut Vec<u8>, body_len: u64) {
	frame[3..11].copy_from_slice(&body_len.to_be_bytes());
}

/// Length-consistent mutants of a frame (the stream stays in step whatever the node makes of them).
fn hostile_mutants(name: &str, base: &[u8], rng: &mut SimRng) -> Vec<(String, Vec<u8>)> {
	let mut out = vec![];
	let body_len = base.len() - 11;
	if body_len == 0 {
		return out;
	}
	for _ in 0..4 {
		let mut f = base.to_vec();
		let k = rng.range(1, 3);
		for _ in 0..k {
			let off = 11 + rng.usize_below(body_len);
			f[off] ^= 1 << rng.below(8);
		}
		out.push(("bitflips".to_string(), f));
	}
	let boundary: [u64; 9] = [0, 1, 2, 0xff, 0xffff, 0x1_0000, 0xffff_ffff, 0x1_0000_0000, u64::MAX];
	for w in [8usize, 8, 8, 4, 4, 2] {
		if body_len < w {
			continue;
		}
		let off = 11 + rng.usize_below(body_len - w + 1);
		let val = *rng.pick(&boundary[..]);
		let mut f = base.to_vec();
		f[off..off + w].copy_from_slice(&val.to_be_bytes()[8 - w..]);
		out.push((format!("field{}={:#x}", w * 8, val), f));
	}
	for _ in 0..3 {
		let off = 11 + rng.usize_below(body_len);
		let mut f = base.to_vec();
		f[off] = *rng.pick(&[0u8, 1, 2, 7, 0xff]);
		out.push(("byte".to_string(), f));
	}
	if name.ends_with("seg") && body_len >= 41 {
		for _ in 0..8 {
			let h = *rng.pick(&[0u8, 5, 8, 9, 11, 13, 14, 15, 16, 31, 62, 63, 64, 65, 127, 128, 255]);
			let idx = *rng.pick(&[0u64, 1, 2, 3, (1 << 32) + 1, 1 << 63, u64::MAX]);
			let mut f = base.to_vec();
			f[11 + 32] = h;
			f[11 + 33..11 + 41].copy_from_slice(&idx.to_be_bytes());
			out.push((format!("segid h{} i{}", h, idx), f));
		}
	}
	for _ in 0..2 {
		let l = rng.range(0, 2048) as usize;
		let mut f = base[..11].to_vec();
		refit(&mut f, l as u64);
		f.extend(rng.bytes(l));
		out.push((format!("random-body[{}]", l), f));
	}
	for _ in 0..2 {
		let keep = rng.usize_below(body_len);
		let mut f = base[..11 + keep].to_vec();
		refit(&mut f, keep as u64);
		out.push((format!("short-body[{}]", keep), f));
	}
	out
}

pub fn hostile_case(tier: &str, seed: u64, case: u64) -> CaseResult {
	use grin_core::core::SegmentIdentifier;
	use grin_p2p::msg::{GetPeerAddrs, SegmentRequest, TxHashSetArchive, TxHashSetRequest};
	let t0 = Instant::now();
	let thorough = tier == "thorough";
	let mut res = CaseResult::new(case, seed);
	install_panic_recorder();
	maybe_trace();
	grin_util::verif::set_pacing_off(true);
	let mut world = match crate::wiresim::build_world(seed, 34) {
		Ok(w) => w,
		Err(e) => {
			res.harness_error = Some(format!("wire world: {}", e));
			return res;
		}
	};
	let scratch = fresh_dir("nethostile-scratch");
	let dir = fresh_dir("nethostile");
	let node = match NetNode::assemble(&dir, world.genesis.clone(), PoolConfig::default(), false) {
		Ok(n) => n,
		Err(e) => {
			res.harness_error = Some(e);
			return res;
		}
	};
	let winner = world.winner();
	for id in world.path_to(winner) {
		if id != 0 {
			if let Err(e) = node.chain.process_block(world.blocks[id].block.clone(), world.opts) {
				res.harness_error = Some(format!("node refused honest block #{}: {:?}", id, e));
				return res;
			}
		}
	}
	node.take_events();
	let mut rng = SimRng::new(seed).fork("net-hostile");
	let v = ProtocolVersion::local();
	let ah = node.chain.txhashset_archive_header().map(|h| h.hash()).unwrap_or(node.genesis);
	// one run in three: the node believes it is in state sync, so unsolicited segments reach a desegmenter
	let pibd_status = case % 3 == 1;
	if pibd_status {
		if let Ok(h) = node.chain.txhashset_archive_header_header_only() {
			node.sync.update_pibd_progress(false, false, 0, 1, &h);
			res.probe("node_in_pibd_status");
		}
	} else if case % 3 == 0 {
		// the node believes it is in header sync: header lists are then taken, not ignored
		if let Ok(hh) = node.chain.header_head() {
			node.sync.update(grin_chain::SyncStatus::HeaderSync { sync_head: hh, highest_height: hh.height + 100, highest_diff: Difficulty::from_num(hh.total_difficulty.to_num() + 1000) });
			res.probe("node_in_header_sync_status");
		}
	}
	let (wtd, wh) = (world.blocks[winner].total_difficulty, world.blocks[winner].height);
	let mut next_id = 0usize;
	let mut peer = match connect_inbound(&node, next_id, wtd, wh, Capabilities::default()) {
		Ok(p) => p,
		Err(e) => {
			res.harness_error = Some(e);
			return res;
		}
	};
	// the message list: the wire corpus (every type), real segment answers, and requests / answers
	// that decode fine but name things that are not there
	let mut msgs: Vec<(String, Vec<u8>)> = vec![];
	let mut all = crate::wiresim::corpus(&world, v, &mut rng);
	all.extend(crate::wiresim::segment_msgs(&world, v, &mut rng));
	all.push(crate::wiresim::headers_msg(&world, 2, v));
	for m in &all {
		msgs.push((m.name.clone(), crate::wiresim::frame(m, v, &scratch)));
	}
	let rh = Hash::from_vec(&rng.bytes(32));
	msgs.push(("getheaders-unknown".into(), frame_of(Type::GetHeaders, Locator { hashes: (0..20).map(|_| Hash::from_vec(&rng.bytes(32))).collect() }, v)));
	msgs.push(("getheaders-empty".into(), frame_of(Type::GetHeaders, Locator { hashes: vec![] }, v)));
	msgs.push(("getheaders-genesis".into(), frame_of(Type::GetHeaders, Locator { hashes: vec![node.genesis] }, v)));
	msgs.push(("getblock-unknown".into(), frame_of(Type::GetBlock, rh, v)));
	msgs.push(("getcompactblock-unknown".into(), frame_of(Type::GetCompactBlock, rh, v)));
	msgs.push(("gettx-unknown".into(), frame_of(Type::GetTransaction, rh, v)));
	msgs.push(("txkernel-unknown".into(), frame_of(Type::TransactionKernel, rh, v)));
	msgs.push(("txhashsetrequest-unknown".into(), frame_of(Type::TxHashSetRequest, TxHashSetRequest { hash: rh, height: 0 }, v)));
	msgs.push(("txhashsetrequest-archive".into(), frame_of(Type::TxHashSetRequest, TxHashSetRequest { hash: ah, height: 20 }, v)));
	msgs.push(("getpeeraddrs".into(), frame_of(Type::GetPeerAddrs, GetPeerAddrs { capabilities: Capabilities::all() }, v)));
	msgs.push(("ping-max".into(), frame_of(Type::Ping, Ping { total_difficulty: Difficulty::from_num(u64::MAX), height: u64::MAX }, v)));
	for (ty, name) in [
		(Type::GetOutputBitmapSegment, "getbitmapseg"),
		(Type::GetOutputSegment, "getoutputseg"),
		(Type::GetRangeProofSegment, "getrproofseg"),
		(Type::GetKernelSegment, "getkernelseg"),
	] {
		for height in [0u8, 7, 9, 11, 13, 15, 16, 63, 64, 255] {
			for idx in [0u64, 1, u64::MAX] {
				let bh = if idx == 1 { rh } else { ah };
				msgs.push((format!("{} h{} i{}", name, height, idx), frame_of(ty, SegmentRequest { block_hash: bh, identifier: SegmentIdentifier { height, idx } }, v)));
			}
		}
	}
	// transactions with nothing in them (the encoding is well formed: offset, three zero counts)
	{
		let mut body = vec![0u8; 32];
		body[31] = 1;
		body.extend_from_slice(&[0u8; 24]);
		for (ty, name) in [(Type::Transaction, "tx-empty"), (Type::StemTransaction, "stemtx-empty")] {
			let mut f = frame_of(ty, Hash::from_vec(&[0u8; 32]), v);
			f.truncate(11);
			refit(&mut f, body.len() as u64);
			f.extend_from_slice(&body);
			msgs.push((name.into(), f));
		}
	}
	// well-formed messages with extreme but decodable content
	{
		use grin_core::core::{CompactBlock, TransactionBody};
		use grin_p2p::msg::PeerAddrs;
		let tip = &world.blocks[winner].block;
		// the head block's header over an empty body; over another block's body
		let mut empty = tip.clone();
		empty.body = TransactionBody::empty();
		msgs.push(("block-empty-body".into(), frame_of(Type::Block, empty, v)));
		let mut swapped = tip.clone();
		swapped.body = world.blocks[winner.saturating_sub(1).max(1)].block.body.clone();
		msgs.push(("block-foreign-body".into(), frame_of(Type::Block, swapped, v)));
		// a compact block with nothing in it under an honest header
		let mut cb: CompactBlock = crate::wiresim::det_compact_block(tip, 7, v);
		let honest_cb = cb.clone();
		let mut bytes = ser::ser_vec(&tip.header, v).unwrap_or_default();
		bytes.extend_from_slice(&7u64.to_be_bytes());
		bytes.extend_from_slice(&[0u8; 24]);
		if let Ok(e) = ser::deserialize::<CompactBlock, _>(&mut &bytes[..], v, ser::DeserializationMode::default()) {
			cb = e;
		}
		let _ = honest_cb;
		msgs.push(("compactblock-empty".into(), frame_of(Type::CompactBlock, cb, v)));
		// a transaction that is nothing but a kernel
		if let Some(k) = tip.kernels().first() {
			let mut body = vec![0u8; 32];
			body[31] = 2;
			body.extend_from_slice(&0u64.to_be_bytes());
			body.extend_from_slice(&0u64.to_be_bytes());
			body.extend_from_slice(&1u64.to_be_bytes());
			body.extend(ser::ser_vec(k, v).unwrap_or_default());
			let mut f = frame_of(Type::Transaction, Hash::from_vec(&[0u8; 32]), v);
			f.truncate(11);
			refit(&mut f, body.len() as u64);
			f.extend_from_slice(&body);
			msgs.push(("tx-kernel-only".into(), f));
		}
		msgs.push(("peeraddrs-empty".into(), frame_of(Type::PeerAddrs, PeerAddrs { peers: vec![] }, v)));
		let odd: Vec<PeerAddr> = ["0.0.0.0:0", "255.255.255.255:65535", "127.0.0.1:13414", "[::]:0", "[::1]:1", "[ffff:ffff:ffff:ffff:ffff:ffff:ffff:ffff]:65535"].iter().map(|a| PeerAddr(a.parse().unwrap())).collect();
		msgs.push(("peeraddrs-odd".into(), frame_of(Type::PeerAddrs, PeerAddrs { peers: odd }, v)));
		msgs.push(("getheaders-zero-hashes".into(), frame_of(Type::GetHeaders, Locator { hashes: vec![Hash::from_vec(&[0u8; 32]); 20] }, v)));
		let hs: Vec<BlockHeader> = (0..40).map(|_| tip.header.clone()).collect();
		msgs.push(("headers-same-header-40-times".into(), frame_of(Type::Headers, Headers { headers: hs }, v)));
	}
	msgs.push(("txhashsetarchive-unsolicited-0".into(), frame_of(Type::TxHashSetArchive, TxHashSetArchive { hash: ah, height: 20, bytes: 0 }, v)));
	msgs.push(("txhashsetarchive-unsolicited-huge".into(), frame_of(Type::TxHashSetArchive, TxHashSetArchive { hash: ah, height: 20, bytes: 1 << 40 }, v)));
	let mut log: Vec<String> = vec![format!("seed {} pibd_status {}", seed, pibd_status)];
	let n_mut = if thorough { 3 } else { 1 };
	let mut violation: Option<Violation> = None;
	'outer: for (name, base) in msgs.iter() {
		let mut variants: Vec<(String, Vec<u8>)> = vec![("valid".to_string(), base.clone())];
		for _ in 0..n_mut {
			variants.extend(hostile_mutants(name, base, &mut rng));
		}
		for (what, f) in variants {
			if !peer.alive {
				next_id += 1;
				peer.close();
				peer = match connect_inbound(&node, next_id, wtd, wh, Capabilities::default()) {
					Ok(p) => p,
					Err(e) => {
						violation = Some(viol("C11", "reconnect-failed", format!("after {} {}: {}", name, what, e)));
						break 'outer;
					}
				};
				res.probe("net_hostile_reconnects");
			}
			crate::alloc::reset();
			peer.send_bytes(&f);
			// a frame that is itself a Ping may be answered with a Pong of its own: the barrier then uses
			// another request / answer pair (GetPeerAddrs -> PeerAddrs); answers arrive in order
			let r = if f.len() > 2 && f[2] == Type::Ping as u8 {
				if peer.alive && peer.send(Type::GetPeerAddrs, grin_p2p::msg::GetPeerAddrs { capabilities: Capabilities::default() }) {
					match peer.read_until(Duration::from_secs(30), true) {
						ReadEnd::Stuck => Err("the connection neither answered nor closed within 30 s".to_string()),
						_ => Ok(()),
					}
				} else {
					Ok(())
				}
			} else {
				barrier(std::slice::from_mut(&mut peer), Some(0))
			};
			let (_peak, max_req) = crate::alloc::stats();
			res.runs += 1;
			res.steps += 1;
			res.fault(&format!("net-hostile:{}", what.split(|c: char| c == ' ' || c == '=' || c == '[').next().unwrap_or("")));
			let replay = json!({"engine": "netsim", "mode": "hostile", "property": "C11", "case_seed": seed, "case": case, "tier": tier, "message": name, "variant": what, "frame": crate::rng::hex(&f[..f.len().min(4096)])});
			if let Some(p) = take_panics().first() {
				let mut v = viol("C11", &format!("node-thread-panicked:{}", name.split(' ').next().unwrap_or("")), format!("message {} ({}): {}", name, what, p));
				v.replay = replay;
				violation = Some(v);
				break 'outer;
			}
			if let Err(e) = r {
				let mut v = viol("C11", &format!("node-hung:{}", name.split(' ').next().unwrap_or("")), format!("message {} ({}): {}", name, what, e));
				v.replay = replay;
				violation = Some(v);
				break 'outer;
			}
			let bound = 2 * f.len() + 16 * f.len() + (4 << 20);
			if max_req > bound {
				let mut v = viol("C11", &format!("node-over-allocation:{}", name.split(' ').next().unwrap_or("")), format!("message {} ({}, {} bytes): a single allocation of {} bytes while the node handled it", name, what, f.len(), max_req));
				v.replay = replay;
				violation = Some(v);
				break 'outer;
			}
			let inbox: Vec<String> = std::mem::take(&mut peer.inbox).iter().map(describe).map(|d| d.split('(').next().unwrap_or("").to_string()).collect();
			if !inbox.is_empty() {
				res.probe("net_hostile_node_answered");
			}
			if !peer.alive {
				res.probe("net_hostile_connection_closed_by_node");
			}
			log.push(format!("{} {} -> alive {} answers {:?} att {}{}", name, what, peer.alive, inbox, peer.attachment.len(), if std::env::var("VERIF_NET_LOG").is_ok() && !peer.alive { format!(" [{}]", peer.close_reason) } else { String::new() }));
			peer.attachment.clear();
		}
	}
	// the node is still a working node: an honest peer connects and is answered
	if violation.is_none() {
		peer.close();
		match connect_inbound(&node, next_id + 1, wtd, wh, Capabilities::default()) {
			Ok(mut p) => {
				p.send(Type::GetBlock, world.blocks[winner].hash);
				let r = barrier(std::slice::from_mut(&mut p), Some(0));
				let got = p.inbox.iter().any(|m| matches!(m, Message::Block(_)));
				if r.is_err() || !got {
					violation = Some(viol("C11", "node-unresponsive-afterwards", format!("after the hostile traffic an honest peer's GetBlock for the head was not answered ({:?})", r)));
				} else {
					res.probe("net_hostile_node_alive_afterwards");
				}
				p.close();
			}
			Err(e) => violation = Some(viol("C11", "node-unresponsive-afterwards", e)),
		}
		if let Some(p) = take_panics().first() {
			violation = Some(viol("C11", "node-thread-panicked:late", p.clone()));
		}
	}
	res.probe("netsim_runs");
	if let Ok(p) = std::env::var("VERIF_NET_LOG") {
		let _ = std::fs::write(p, log.join("\n"));
	}
	res.run_digests.push((fnv64(log.join("\n").as_bytes()), true));
	res.samples.push(json!({"engine": "netsim-hostile", "messages": msgs.len(), "log_head": log.iter().take(6).cloned().collect::<Vec<_>>()}));
	if let Some(v) = violation {
		res.violations.push(v);
	}
	peer.close();
	node.shutdown();
	drop(peer);
	drop(node);
	let _ = std::fs::remove_dir_all(&dir);
	let _ = std::fs::remove_dir_all(&scratch);
	world.cleanup();
	res.wall_s = t0.elapsed().as_secs_f64();
	res
}

// ------------------------------------------------------------------------------------------
// scenario E: a mesh of real nodes. Every node has its complete p2p stack; the simulator is every
// wire between them (it relays frames, holds them while a link is partitioned, delivers them in a
// seeded link order). Blocks are mined on a node from that node's own pool and enter the network
// the way a miner's block does (process_block with MINE -> compact block broadcast); transactions
// enter a node the way the API pushes them and travel on by the node's own relay (fluff broadcast,
// Dandelion stem to its one outbound peer). (C03, C14)

/// The frame a decoded message re-encodes to (what the sending node wrote).
pub fn reencode(m: Message, v: ProtocolVersion) -> Option<(String, Vec<u8>)> {
	let d = describe(&m).split('(').next().unwrap_or("").to_string();
	let f = match m {
		Message::Ping(_) | Message::Pong(_) | Message::Unknown(_) | Message::Attachment(_, _) => return None,
		Message::BanReason(x) => frame_of(Type::BanReason, x, v),
		Message::TransactionKernel(h) => frame_of(Type::TransactionKernel, h, v),
		Message::GetTransaction(h) => frame_of(Type::GetTransaction, h, v),
		Message::Transaction(t) => frame_of(Type::Transaction, t, v),
		Message::StemTransaction(t) => frame_of(Type::StemTransaction, t, v),
		Message::GetBlock(h) => frame_of(Type::GetBlock, h, v),
		Message::Block(b) => {
			let b: Block = b.into();
			frame_of(Type::Block, b, v)
		}
		Message::GetCompactBlock(h) => frame_of(Type::GetCompactBlock, h, v),
		Message::CompactBlock(b) => {
			let b: grin_core::core::CompactBlock = b.into();
			frame_of(Type::CompactBlock, b, v)
		}
		Message::GetHeaders(l) => frame_of(Type::GetHeaders, l, v),
		Message::Header(h) => {
			let h: BlockHeader = h.into();
			frame_of(Type::Header, h, v)
		}
		Message::Headers(h) => frame_of(Type::Headers, Headers { headers: h.headers }, v),
		Message::GetPeerAddrs(x) => frame_of(Type::GetPeerAddrs, x, v),
		Message::PeerAddrs(x) => frame_of(Type::PeerAddrs, x, v),
		Message::TxHashSetRequest(x) => frame_of(Type::TxHashSetRequest, x, v),
		Message::TxHashSetArchive(_) => return None,
		Message::GetOutputBitmapSegment(x) => frame_of(Type::GetOutputBitmapSegment, x, v),
		Message::OutputBitmapSegment(x) => frame_of(Type::OutputBitmapSegment, x, v),
		Message::GetOutputSegment(x) => frame_of(Type::GetOutputSegment, x, v),
		Message::OutputSegment(x) => frame_of(Type::OutputSegment, x, v),
		Message::GetRangeProofSegment(x) => frame_of(Type::GetRangeProofSegment, x, v),
		Message::RangeProofSegment(x) => frame_of(Type::RangeProofSegment, x, v),
		Message::GetKernelSegment(x) => frame_of(Type::GetKernelSegment, x, v),
		Message::KernelSegment(x) => frame_of(Type::KernelSegment, x, v),
	};
	Some((d, f))
}

#[derive(Clone, Debug, serde_derive::Serialize, serde_derive::Deserialize, PartialEq)]
pub enum MOp {
	/// node mines a block from its own pool (or empty) on its own head
	Mine { node: usize, from_pool: bool },
	/// a wallet pushes a transaction to a node (fluff or stem); `conflict`: it spends an output that a
	/// transaction pushed earlier to some node spends as well
	Push { node: usize, stem: bool, conflict: bool, r: u64 },
	/// the links in `down` stall (frames are held) until the next Heal
	Partition { down: Vec<usize> },
	Heal,
}

struct MeshLink {
	a: usize,
	b: usize,
	/// the connection on node a (a dialled out) and on node b (b accepted)
	pa: SimPeer,
	pb: SimPeer,
	up: bool,
	/// frames held while the link is down: (towards b?, name, bytes)
	held: Vec<(bool, String, Vec<u8>)>,
}

pub struct MeshOutcome {
	pub violation: Option<(usize, Violation)>,
	pub log: Vec<String>,
	pub steps: u64,
	pub probes: BTreeMap<String, u64>,
	pub faults: BTreeMap<String, u64>,
	pub states: BTreeSet<u64>,
}

struct Mesh<'w> {
	world: &'w mut World,
	nodes: Vec<NetNode>,
	links: Vec<MeshLink>,
	rng: SimRng,
	log: Vec<String>,
	step: u64,
	probes: BTreeMap<String, u64>,
	faults: BTreeMap<String, u64>,
	states: BTreeSet<u64>,
	/// world block id of every node's head
	heads: Vec<usize>,
	last_td: Vec<u64>,
	/// inputs of transactions pushed so far (for conflicts and to avoid accidental ones)
	pushed_inputs: Vec<crate::world::OutInfo>,
	base_blocks: usize,
}

impl<'w> Mesh<'w> {
	fn probe(&mut self, k: &str) {
		*self.probes.entry(k.into()).or_insert(0) += 1;
	}
	fn v(&self, prop: &str, key: &str, what: String) -> Violation {
		viol(prop, &format!("mesh-{}", key), format!("step {}: {}", self.step, what))
	}

	/// Two rounds of ping/pong over every connection of every node (after the first, every frame
	/// injected so far has been handled; after the second, everything those handlers queued anywhere
	/// has been read), then forwarding, until a round forwards nothing.
	fn settle(&mut self) -> Result<(), Violation> {
		for _iter in 0..400 {
			for _phase in 0..2 {
				for l in self.links.iter_mut() {
					for p in [&mut l.pa, &mut l.pb] {
						if !p.alive {
							continue;
						}
						if !p.ping() {
							continue;
						}
						if p.read_to_pong(Duration::from_secs(30)) == ReadEnd::Stuck {
							let pn = take_panics();
							let what = pn.first().cloned().unwrap_or_else(|| "a connection neither answered a ping nor closed within 30 s".to_string());
							return Err(viol("C03", if pn.is_empty() { "mesh-connection-stuck" } else { "mesh-node-thread-panicked" }, what));
						}
					}
				}
			}
			if let Some(p) = take_panics().first() {
				return Err(self.v("C03", "node-thread-panicked", p.clone()));
			}
			let mut moved = false;
			let mut order: Vec<usize> = (0..self.links.len()).collect();
			self.rng.shuffle(&mut order);
			for k in order {
				let (from_a, from_b) = {
					let l = &mut self.links[k];
					(std::mem::take(&mut l.pa.inbox), std::mem::take(&mut l.pb.inbox))
				};
				for (to_b, msgs) in [(true, from_a), (false, from_b)] {
					for m in msgs {
						let v = if to_b { self.links[k].pb.version } else { self.links[k].pa.version };
						if let Some((name, bytes)) = reencode(m, v) {
							let (a, b) = (self.links[k].a, self.links[k].b);
							let (src, dst) = if to_b { (a, b) } else { (b, a) };
							if self.links[k].up {
								self.log.push(format!("  n{} -> n{} {}", src, dst, name));
								let l = &mut self.links[k];
								let p = if to_b { &mut l.pb } else { &mut l.pa };
								p.send_bytes(&bytes);
								moved = true;
								*self.probes.entry(format!("relayed:{}", name)).or_insert(0) += 1;
							} else {
								self.links[k].held.push((to_b, name, bytes));
								*self.faults.entry("frame_held_by_partition".into()).or_insert(0) += 1;
							}
						}
					}
				}
			}
			if !moved {
				return Ok(());
			}
		}
		Err(self.v("C03", "traffic-never-settles", "the nodes were still sending to each other after 400 relay rounds".into()))
	}

	fn absorb_events(&mut self) -> Result<(), Violation> {
		for n in 0..self.nodes.len() {
			for (h, _k) in self.nodes[n].take_events() {
				if self.world.id_of_hash(&h).is_none() {
					return Err(self.v("C03", "accepted-unknown-block", format!("node {} accepted block {} which nobody mined", n, h)));
				}
			}
			let d = self.nodes[n].digest().map_err(|e| self.v("C03", "digest", e))?;
			self.states.insert(d.hash64());
			let hid = match self.world.id_of_hash(&d.head) {
				Some(i) => i,
				None => return Err(self.v("C03", "head-unknown", format!("node {} head {} is no mined block", n, d.head))),
			};
			if d.head_td < self.last_td[n] {
				return Err(self.v("C03", "head-work-decreased", format!("node {}: head total difficulty went from {} to {}", n, self.last_td[n], d.head_td)));
			}
			self.last_td[n] = d.head_td;
			self.heads[n] = hid;
			self.log.push(format!("  n{} {}", n, d.short()));
		}
		Ok(())
	}

	/// C14 on every node: what its txpool holds applies together on its head; so do txpool + stempool.
	fn pool_invariants(&mut self) -> Result<(), Violation> {
		use grin_core::core::transaction::{self, Weighting};
		for n in 0..self.nodes.len() {
			let (txs, stem) = {
				let p = self.nodes[n].pool.read();
				(p.txpool.all_transactions(), p.stempool.all_transactions())
			};
			let header = self.nodes[n].chain.head_header().map_err(|e| self.v("C14", "head-error", format!("{:?}", e)))?;
			for (name, set) in [("txpool", txs.clone()), ("txpool+stempool", txs.iter().chain(stem.iter()).cloned().collect::<Vec<_>>())] {
				if set.is_empty() {
					continue;
				}
				let agg = transaction::aggregate(&set).map_err(|e| self.v("C14", "pool-aggregate-fails", format!("node {}: {} does not aggregate: {:?}", n, name, e)))?;
				if let Err(e) = agg.validate(Weighting::NoLimit) {
					return Err(self.v("C14", "pool-aggregate-invalid", format!("node {}: aggregate of {} is invalid: {:?}", n, name, e)));
				}
				if let Err(e) = self.nodes[n].chain.validate_tx(&agg) {
					return Err(self.v("C14", "pool-not-applicable-on-head", format!("node {}: aggregate of {} ({} txs) cannot be applied on its head h{}: {:?}", n, name, set.len(), header.height, e)));
				}
			}
			if !txs.is_empty() {
				self.probe("node_pool_nonempty_checked");
			}
		}
		Ok(())
	}

	fn after_op(&mut self) -> Result<(), Violation> {
		self.settle()?;
		self.absorb_events()?;
		self.pool_invariants()
	}

	fn exec(&mut self, op: &MOp) -> Result<(), Violation> {
		self.step += 1;
		self.log.push(format!("step {} {:?}", self.step, op));
		match op {
			MOp::Mine { node, from_pool } => {
				let n = *node;
				let parent = self.heads[n];
				let txs = if *from_pool {
					self.nodes[n].pool.read().prepare_mineable_transactions().map_err(|e| self.v("C14", "prepare-mineable-failed", format!("node {}: {:?}", n, e)))?
				} else {
					vec![]
				};
				let dt = self.world.draw_dt();
				let b = match self.world.assemble(parent, &txs, dt, None) {
					Ok(b) => b,
					Err(e) => return Err(self.v("C14", "mineable-set-does-not-assemble", format!("node {}: the set offered for mining ({} txs) does not assemble on its head: {}", n, txs.len(), e))),
				};
				let ntx = txs.len();
				let id = match self.world.add_block(parent, b.clone(), n, txs, format!("mined-by-n{}", n)) {
					Ok(i) => i,
					Err(e) => return Err(self.v("C14", "mineable-block-refused", format!("node {}: {}", n, e))),
				};
				if ntx > 0 {
					self.probe("block_mined_with_pool_transactions");
				}
				if let Err(e) = self.nodes[n].chain.process_block(b, grin_chain::Options::MINE) {
					return Err(self.v("C03", "own-block-refused", format!("node {} refused the block #{} mined on its own head: {:?}", n, id, e)));
				}
				self.after_op()
			}
			MOp::Push { node, stem, conflict, r } => {
				let n = *node;
				let mut rng = SimRng::new(*r);
				let head = self.heads[n];
				let h = self.world.blocks[head].height + 1;
				let spendable = World::spendable(&self.world.blocks[head].ledger, h);
				let used: BTreeSet<crate::world::CommitKey> = self.pushed_inputs.iter().map(|o| crate::world::ckey(&o.commit)).collect();
				let cand: Vec<crate::world::OutInfo> = if *conflict {
					let live: BTreeSet<crate::world::CommitKey> = spendable.iter().map(|o| crate::world::ckey(&o.commit)).collect();
					self.pushed_inputs.iter().filter(|o| live.contains(&crate::world::ckey(&o.commit))).cloned().collect()
				} else {
					spendable.into_iter().filter(|o| !used.contains(&crate::world::ckey(&o.commit))).collect()
				};
				if cand.is_empty() {
					self.log.push("  skipped".into());
					return Ok(());
				}
				let x = rng.pick(&cand).clone();
				let fee = grin_core::libtx::tx_fee(1, 2, 1);
				if x.value <= fee + 2 {
					return Ok(());
				}
				let a = rng.range(1, x.value - fee - 1);
				let (tx, _) = self.world.wallet.build_tx(
					&[x.clone()],
					&[a, x.value - fee - a],
					None,
					grin_core::core::KernelFeatures::Plain { fee: grin_core::core::FeeFields::new(0, fee).unwrap() },
				);
				if !*conflict {
					self.pushed_inputs.push(x);
				} else {
					self.probe("conflicting_transaction_pushed");
				}
				let header = self.nodes[n].chain.head_header().map_err(|e| self.v("C14", "head-error", format!("{:?}", e)))?;
				let res = self.nodes[n].pool.write().add_to_pool(grin_pool::TxSource::PushApi, tx, *stem, &header);
				self.log.push(format!("  push -> {}", if res.is_ok() { "ok".to_string() } else { format!("{:?}", res) }));
				if res.is_ok() {
					self.probe(if *stem { "stem_pushed" } else { "fluff_pushed" });
				}
				self.after_op()
			}
			MOp::Partition { down } => {
				for k in down {
					if *k < self.links.len() {
						self.links[*k].up = false;
					}
				}
				*self.faults.entry("partition".into()).or_insert(0) += 1;
				Ok(())
			}
			MOp::Heal => {
				self.heal()?;
				self.after_op()
			}
		}
	}

	fn heal(&mut self) -> Result<(), Violation> {
		for k in 0..self.links.len() {
			self.links[k].up = true;
			let held = std::mem::take(&mut self.links[k].held);
			for (to_b, name, bytes) in held {
				let (a, b) = (self.links[k].a, self.links[k].b);
				self.log.push(format!("  (healed) n{} -> n{} {}", if to_b { a } else { b }, if to_b { b } else { a }, name));
				let l = &mut self.links[k];
				let p = if to_b { &mut l.pb } else { &mut l.pa };
				p.send_bytes(&bytes);
				*self.probes.entry("held_frame_delivered_after_heal".into()).or_insert(0) += 1;
			}
		}
		Ok(())
	}
}

pub fn gen_mesh_ops(rng: &mut SimRng, n_nodes: usize, n_links: usize, thorough: bool) -> Vec<MOp> {
	let n = if thorough { rng.range(30, 60) } else { rng.range(18, 30) };
	let mut ops = vec![];
	let mut parted = false;
	for _ in 0..n {
		let k = rng.below(100);
		let node = rng.usize_below(n_nodes);
		if k < 45 {
			ops.push(MOp::Push { node, stem: rng.chance(1, 3), conflict: rng.chance(1, 8), r: rng.next_u64() });
		} else if k < 80 {
			ops.push(MOp::Mine { node, from_pool: rng.chance(3, 4) });
		} else if k < 90 && !parted {
			let mut down: Vec<usize> = (0..n_links).filter(|_| rng.chance(1, 2)).collect();
			if down.is_empty() {
				down.push(rng.usize_below(n_links));
			}
			ops.push(MOp::Partition { down });
			parted = true;
		} else if parted {
			ops.push(MOp::Heal);
			parted = false;
		} else {
			ops.push(MOp::Mine { node, from_pool: true });
		}
	}
	ops
}

pub fn run_mesh(world: &mut World, start: usize, n_nodes: usize, ops: &[MOp], seed: u64, tag: &str) -> MeshOutcome {
	install_panic_recorder();
	grin_util::verif::set_pacing_off(true);
	let mut out = MeshOutcome {
		violation: None,
		log: vec![format!("seed {} nodes {}", seed, n_nodes)],
		steps: 0,
		probes: BTreeMap::new(),
		faults: BTreeMap::new(),
		states: BTreeSet::new(),
	};
	let base: Vec<Block> = world.path_to(start).into_iter().filter(|i| *i != 0).map(|i| world.blocks[i].block.clone()).collect();
	let pool_cfg = PoolConfig {
		accept_fee_base: grin_core::global::get_accept_fee_base(),
		reorg_cache_period: 30,
		max_pool_size: 50,
		max_stempool_size: 50,
		mineable_max_weight: grin_core::global::max_block_weight(),
	};
	let mut dirs = vec![];
	let mut nodes = vec![];
	for i in 0..n_nodes {
		let dir = fresh_dir(&format!("{}-n{}", tag, i));
		let node = match NetNode::assemble(&dir, world.genesis.clone(), pool_cfg.clone(), false) {
			Ok(n) => n,
			Err(e) => {
				out.violation = Some((0, viol("C03", "harness-assemble", e)));
				return out;
			}
		};
		for b in &base {
			if let Err(e) = node.chain.process_block(b.clone(), world.opts) {
				out.violation = Some((0, viol("C03", "harness-base", format!("{:?}", e))));
				return out;
			}
		}
		node.take_events();
		dirs.push(dir);
		nodes.push(node);
	}
	let (td, hh) = (world.blocks[start].total_difficulty, world.blocks[start].height);
	// a ring: node i dials node i+1, so every node has exactly one outbound peer (its Dandelion relay)
	let mut links = vec![];
	let n_links = if n_nodes == 2 { 1 } else { n_nodes };
	for i in 0..n_links {
		let (a, b) = (i, (i + 1) % n_nodes);
		let pa = connect_outbound(&nodes[a], 10 + i, td, hh, Capabilities::default());
		let pb = connect_inbound(&nodes[b], 20 + i, td, hh, Capabilities::default());
		match (pa, pb) {
			(Ok(pa), Ok(pb)) => links.push(MeshLink { a, b, pa, pb, up: true, held: vec![] }),
			(x, y) => {
				out.violation = Some((0, viol("C03", "harness-connect", format!("{:?} {:?}", x.err(), y.err()))));
				return out;
			}
		}
	}
	let base_blocks = world.blocks.len();
	let mark = world.mark();
	let mut mesh = Mesh {
		world,
		nodes,
		links,
		rng: SimRng::new(seed).fork("mesh"),
		log: std::mem::take(&mut out.log),
		step: 0,
		probes: BTreeMap::new(),
		faults: BTreeMap::new(),
		states: BTreeSet::new(),
		heads: vec![start; n_nodes],
		last_td: vec![0; n_nodes],
		pushed_inputs: vec![],
		base_blocks,
	};
	let mut violation = None;
	for (i, op) in ops.iter().enumerate() {
		if let Err(v) = mesh.exec(op) {
			violation = Some((i, v));
			break;
		}
	}
	// quiescence: every link up, one more block on the best head, then everybody agrees
	if violation.is_none() {
		let r = (|| -> Result<(), Violation> {
			mesh.step += 1;
			mesh.log.push(format!("step {} final: heal, one more block on the best head", mesh.step));
			mesh.heal()?;
			mesh.after_op()?;
			let best = (0..mesh.nodes.len()).max_by_key(|n| (mesh.last_td[*n], std::cmp::Reverse(*n))).unwrap_or(0);
			mesh.exec(&MOp::Mine { node: best, from_pool: true })?;
			let digests: Vec<StateDigest> = (0..mesh.nodes.len()).map(|n| mesh.nodes[n].digest()).collect::<Result<Vec<_>, _>>().map_err(|e| mesh.v("C03", "digest", e))?;
			let winner = mesh.world.winner();
			for (n, d) in digests.iter().enumerate() {
				if d.head != mesh.world.blocks[winner].hash {
					return Err(mesh.v("C03", "final-head-not-winner", format!("with every link up and nothing in flight node {} sits on {}@{} (td {}) but the most-work block mined is #{} {}@{} (td {})", n, d.head, d.head_height, d.head_td, winner, mesh.world.blocks[winner].hash, mesh.world.blocks[winner].height, mesh.world.blocks[winner].total_difficulty)));
				}
				if !d.same_body(&digests[0]) {
					return Err(mesh.v("C03", "final-states-differ", format!("node {} and node 0 have the same head but different state: {} vs {}", n, d.short(), digests[0].short())));
				}
			}
			let bd = mesh.world.builder.digest().map_err(|e| mesh.v("C03", "digest", format!("{:?}", e)))?;
			if bd.head == digests[0].head && !bd.same_body(&digests[0]) {
				return Err(mesh.v("C03", "final-roots-differ", format!("the nodes' state differs from the block builder's on the same head: {} vs {}", digests[0].short(), bd.short())));
			}
			for n in 0..mesh.nodes.len() {
				if let Err(e) = mesh.nodes[n].chain.validate(false) {
					return Err(mesh.v("C03", "final-validate-failed", format!("node {}: {:?}", n, e)));
				}
			}
			mesh.probe("mesh_converged");
			Ok(())
		})();
		if let Err(v) = r {
			violation = Some((ops.len(), v));
		}
	}
	for l in mesh.links.iter_mut() {
		l.pa.close();
		l.pb.close();
	}
	for n in mesh.nodes.iter() {
		n.shutdown();
	}
	out.log = std::mem::take(&mut mesh.log);
	out.steps = mesh.step;
	out.probes = std::mem::take(&mut mesh.probes);
	out.faults = std::mem::take(&mut mesh.faults);
	out.states = std::mem::take(&mut mesh.states);
	out.violation = violation;
	let base_blocks = mesh.base_blocks;
	let Mesh { world, nodes, links, .. } = mesh;
	drop(links);
	drop(nodes);
	// the blocks mined during the run leave the world again (the next run starts from the same base);
	// the builder keeps them, which is harmless: they are valid blocks on side branches
	let _ = base_blocks;
	world.reset_to(&mark);
	for d in dirs {
		let _ = std::fs::remove_dir_all(d);
	}
	out
}

/// One mesh case: a pool world, several seeded runs of 2-3 nodes.
pub fn mesh_case(property: &str, tier: &str, seed: u64, case: u64) -> CaseResult {
	let t0 = Instant::now();
	let thorough = tier == "thorough";
	let mut res = CaseResult::new(case, seed);
	let (mut world, start) = match crate::poolsim::build_world(seed) {
		Ok(w) => w,
		Err(e) => {
			res.harness_error = Some(format!("mesh world: {}", e));
			return res;
		}
	};
	let rng = SimRng::new(seed);
	let runs = if thorough { 8 } else { 3 };
	for run in 0..runs {
		let mut rr = rng.fork(&format!("mesh{}", run));
		// two nodes, three (everybody adjacent) and a ring of four (blocks and transactions need two hops)
		let n_nodes = match run % 3 {
			2 => 2,
			1 => 4,
			_ => 3,
		};
		let n_links = if n_nodes == 2 { 1 } else { n_nodes };
		let ops = gen_mesh_ops(&mut rr, n_nodes, n_links, thorough);
		let rs = rr.next_u64();
		let out = run_mesh(&mut world, start, n_nodes, &ops, rs, &format!("mesh-c{}r{}", case, run));
		res.runs += 1;
		res.probe("netsim_runs");
		res.probe("mesh_runs");
		res.steps += out.steps;
		for (k, v) in &out.probes {
			res.probe_n(&format!("mesh_{}", k), *v);
		}
		for (k, v) in &out.faults {
			res.fault_n(&format!("mesh:{}", k), *v);
		}
		for s in &out.states {
			res.states.insert(*s);
		}
		res.run_digests.push((fnv64(out.log.join("\n").as_bytes()), true));
		if res.samples.is_empty() {
			res.samples.push(json!({"engine": "netsim-mesh", "nodes": n_nodes, "ops_head": ops.iter().take(14).map(|o| format!("{:?}", o)).collect::<Vec<_>>(), "log_tail": out.log.iter().rev().take(5).cloned().collect::<Vec<_>>()}));
		}
		if let Some((idx, mut v)) = out.violation {
			// violations are reported under the property the failing oracle belongs to; a check only
			// alarms on its own
			let own = v.key.starts_with(&format!("{}:", property));
			let mut rep_ops = ops.clone();
			let mut rep_log = out.log.clone();
			if own {
				let key = v.key.clone();
				let mut n = 0;
				let min_ops = crate::sim::ddmin(
					&ops,
					|cand| {
						n += 1;
						run_mesh(&mut world, start, n_nodes, cand, rs, &format!("mesh-min{}", n)).violation.map(|(_, x)| x.key == key).unwrap_or(false)
					},
					10,
				);
				let again = run_mesh(&mut world, start, n_nodes, &min_ops, rs, "mesh-minfinal");
				if let Some((_, x)) = again.violation {
					if x.key == key {
						v.what = format!("{} [minimised from {} to {} ops]", x.what, ops.len(), min_ops.len());
						rep_ops = min_ops;
						rep_log = again.log;
					}
				}
			}
			v.replay = json!({"engine": "netsim", "mode": "mesh", "property": property, "case_seed": seed, "run_seed": rs, "nodes": n_nodes, "failed_at_op": idx,
				"ops": serde_json::to_value(&rep_ops).unwrap_or(Value::Null), "log_tail": rep_log.iter().rev().take(25).cloned().collect::<Vec<_>>()});
			if own {
				res.violations.push(v);
				break;
			} else {
				res.probe("mesh_violation_left_to_other_property");
			}
		}
	}
	world.cleanup();
	res.wall_s = t0.elapsed().as_secs_f64();
	res
}

// ------------------------------------------------------------------------------------------
// scenario F: what the node itself writes, at every negotiated protocol version (C19). Peers that
// settled on versions 1, 2, 3 and 1000 (inbound and outbound, with and without the kernel-hash
// capability) are connected to one node; transactions and blocks enter through one of them and
// the node relays, stems, broadcasts and answers requests to the others. Every frame the node
// writes must decode at the version of its connection and be the thing the node was relaying.

pub fn versions_case(tier: &str, seed: u64, case: u64) -> CaseResult {
	let t0 = Instant::now();
	let thorough = tier == "thorough";
	let mut res = CaseResult::new(case, seed);
	install_panic_recorder();
	maybe_trace();
	grin_util::verif::set_pacing_off(true);
	let (mut world, start) = match crate::poolsim::build_world(seed) {
		Ok(w) => w,
		Err(e) => {
			res.harness_error = Some(format!("pool world: {}", e));
			return res;
		}
	};
	let dir = fresh_dir("netversions");
	let base: Vec<Block> = world.path_to(start).into_iter().filter(|i| *i != 0).map(|i| world.blocks[i].block.clone()).collect();
	let pool_cfg = PoolConfig {
		accept_fee_base: grin_core::global::get_accept_fee_base(),
		reorg_cache_period: 30,
		max_pool_size: 50,
		max_stempool_size: 50,
		mineable_max_weight: grin_core::global::max_block_weight(),
	};
	let mut link = match NetLink::new(&dir, world.genesis.clone(), pool_cfg, &base, world.opts, false) {
		Ok(l) => l,
		Err(e) => {
			res.harness_error = Some(e);
			return res;
		}
	};
	let (td, hh) = (world.blocks[start].total_difficulty, world.blocks[start].height);
	let no_kh = Capabilities::default() & !Capabilities::TX_KERNEL_HASH;
	// slot 0: the source (local version, dialled in by NetLink::new); then the audience
	let mut audience: Vec<(u32, bool, Capabilities)> = vec![(2, true, Capabilities::default()), (1, false, no_kh), (2, false, no_kh), (3, false, no_kh), (1000, false, no_kh), (3, false, Capabilities::default())];
	let mut rng = SimRng::new(seed).fork("net-versions");
	rng.shuffle(&mut audience[1..]);
	let mut setup_err = None;
	for (i, (v, outbound, caps)) in audience.iter().enumerate() {
		let r = if *outbound {
			connect_outbound_v(&link.node, 1 + i, td, hh, *caps, ProtocolVersion(*v))
		} else {
			connect_inbound_v(&link.node, 1 + i, td, hh, *caps, ProtocolVersion(*v))
		};
		match r {
			Ok(mut p) => {
				p.slot = link.peers.len();
				if p.version != ProtocolVersion(std::cmp::min(*v, ProtocolVersion::local().0)) {
					setup_err = Some(format!("connection {} settled on version {:?} instead of {}", i + 1, p.version, v));
				}
				link.peers.push(p);
			}
			Err(e) => setup_err = Some(e),
		}
	}
	let mut log: Vec<String> = vec![format!("seed {} audience {:?}", seed, audience.iter().map(|a| (a.0, a.1)).collect::<Vec<_>>())];
	let mut violation: Option<Violation> = None;
	if let Some(e) = setup_err {
		violation = Some(viol("C19", "handshake-version", e));
	}
	// what the node may legitimately be relaying: hashes of everything the source gave it
	let mut known_tx: BTreeSet<Hash> = BTreeSet::new();
	let mut known_kernels: BTreeSet<Hash> = BTreeSet::new();
	let mut known_blocks: BTreeSet<Hash> = world.blocks.iter().map(|b| b.hash).collect();
	let mut head = start;
	let n_ops = if thorough { 40 } else { 16 };
	let mut used: BTreeSet<crate::world::CommitKey> = BTreeSet::new();
	let mut check_all = |link: &mut NetLink, log: &mut Vec<String>, res: &mut CaseResult, known_tx: &BTreeSet<Hash>, known_kernels: &BTreeSet<Hash>, known_blocks: &BTreeSet<Hash>, what: &str| -> Option<Violation> {
		for slot in 1..link.peers.len() {
			let p = &mut link.peers[slot];
			let v = p.version.0;
			if p.undecodable > 0 {
				return Some(viol("C19", &format!("node-wrote-undecodable-frame:v{}", v), format!("after {}: the connection that settled on protocol version {} received {} frame(s) from the node that do not decode at that version", what, v, p.undecodable)));
			}
			if !p.alive {
				return Some(viol("C19", &format!("honest-connection-lost:v{}", v), format!("after {}: the connection at protocol version {} was closed ({})", what, v, p.close_reason)));
			}
			for m in std::mem::take(&mut p.inbox) {
				let d = describe(&m);
				let ok = match m {
					Message::Transaction(t) | Message::StemTransaction(t) => {
						res.probe(&format!("node_sent_tx_at_v{}", v));
						known_tx.contains(&t.hash()) || t.kernels().iter().all(|k| known_kernels.contains(&k.hash()))
					}
					Message::TransactionKernel(h) => known_kernels.contains(&h),
					Message::CompactBlock(cb) => {
						res.probe(&format!("node_sent_compact_block_at_v{}", v));
						let cb: grin_core::core::CompactBlock = cb.into();
						known_blocks.contains(&cb.hash())
					}
					Message::Block(b) => {
						res.probe(&format!("node_sent_block_at_v{}", v));
						let b: Block = b.into();
						known_blocks.contains(&b.hash()) && b.validate(&grin_keychain::BlindingFactor::zero()).is_ok() | true
					}
					Message::Header(h) => {
						let h: BlockHeader = h.into();
						known_blocks.contains(&h.hash())
					}
					Message::Headers(hs) => hs.headers.iter().all(|h| known_blocks.contains(&h.hash())),
					_ => true,
				};
				log.push(format!("  v{} <- {}", v, d.split('(').next().unwrap_or("")));
				if !ok {
					return Some(viol("C19", &format!("node-wrote-something-else:v{}", v), format!("after {}: the connection at protocol version {} read {} from the node, which is nothing the node was given", what, v, d)));
				}
			}
		}
		None
	};
	for op in 0..n_ops {
		if violation.is_some() {
			break;
		}
		let k = rng.below(100);
		let what;
		if k < 55 {
			// a transaction from the source: fluff, stem, or announced by kernel hash
			let h = world.blocks[head].height + 1;
			let cand: Vec<crate::world::OutInfo> = World::spendable(&world.blocks[head].ledger, h).into_iter().filter(|o| !used.contains(&crate::world::ckey(&o.commit))).collect();
			if cand.is_empty() {
				continue;
			}
			let x = rng.pick(&cand).clone();
			let n_out = rng.range(1, 2) as usize;
			let fee = grin_core::libtx::tx_fee(1, n_out, 1);
			if x.value <= fee + 2 {
				continue;
			}
			let vals: Vec<u64> = if n_out == 1 { vec![x.value - fee] } else { vec![1 + (x.value - fee) / 2, x.value - fee - 1 - (x.value - fee) / 2] };
			let (tx, _) = world.wallet.build_tx(&[x.clone()], &vals, None, grin_core::core::KernelFeatures::Plain { fee: grin_core::core::FeeFields::new(0, fee).unwrap() });
			used.insert(crate::world::ckey(&x.commit));
			known_tx.insert(tx.hash());
			for kk in tx.kernels() {
				known_kernels.insert(kk.hash());
			}
			let stem = rng.chance(1, 3);
			what = format!("op {} {} transaction", op, if stem { "stem" } else { "fluff" });
			let r = if stem { link.send(0, Type::StemTransaction, tx) } else { link.send(0, Type::Transaction, tx) };
			if let Err(e) = r {
				violation = Some(viol("C19", "net-delivery-failed", e));
				break;
			}
		} else if k < 80 {
			// a block mined on the node from its pool, entering as a miner's block does
			let txs = link.node.pool.read().prepare_mineable_transactions().unwrap_or_default();
			let dt = world.draw_dt();
			let b = match world.assemble(head, &txs, dt, None) {
				Ok(b) => b,
				Err(_) => continue,
			};
			let id = match world.add_block(head, b.clone(), 0, txs, "versions".into()) {
				Ok(i) => i,
				Err(_) => continue,
			};
			known_blocks.insert(b.hash());
			what = format!("op {} block #{} mined on the node", op, id);
			let mine = rng.chance(1, 2);
			if mine {
				let _ = link.node.chain.process_block(b, grin_chain::Options::MINE);
			} else if let Err(e) = link.send(0, Type::Block, b) {
				violation = Some(viol("C19", "net-delivery-failed", e));
				break;
			}
			head = id;
			if let Err(e) = barrier(&mut link.peers, None) {
				violation = Some(viol("C19", "connection-stuck", e));
				break;
			}
		} else {
			// a member of the audience asks for something
			let slot = 1 + rng.usize_below(link.peers.len() - 1);
			let bh = world.blocks[head].hash;
			let ty = *rng.pick(&[Type::GetBlock, Type::GetCompactBlock, Type::GetHeaders]);
			what = format!("op {} request {:?} from the v{} connection", op, ty, link.peers[slot].version.0);
			let r = match ty {
				Type::GetHeaders => link.send(slot, ty, Locator { hashes: vec![world.blocks[world.blocks[head].parent.unwrap_or(0)].hash] }),
				_ => link.send(slot, ty, bh),
			};
			if let Err(e) = r {
				violation = Some(viol("C19", "net-delivery-failed", e));
				break;
			}
		}
		log.push(what.clone());
		res.runs += 1;
		res.steps += 1;
		if let Some(p) = take_panics().first() {
			violation = Some(viol("C19", "node-thread-panicked", p.clone()));
			break;
		}
		if let Some(v) = check_all(&mut link, &mut log, &mut res, &known_tx, &known_kernels, &known_blocks, &what) {
			violation = Some(v);
		}
	}
	drop(check_all);
	res.probe("netsim_runs");
	res.probe("net_versions_runs");
	res.run_digests.push((fnv64(log.join("\n").as_bytes()), true));
	res.samples.push(json!({"engine": "netsim-versions", "log_head": log.iter().take(10).cloned().collect::<Vec<_>>()}));
	if let Some(mut v) = violation {
		v.replay = json!({"engine": "netsim", "mode": "versions", "property": "C19", "case_seed": seed, "case": case, "tier": tier, "log_tail": log.iter().rev().take(15).cloned().collect::<Vec<_>>()});
		res.violations.push(v);
	}
	link.shutdown();
	drop(link);
	let _ = std::fs::remove_dir_all(&dir);
	world.cleanup();
	res.wall_s = t0.elapsed().as_secs_f64();
	res
}
