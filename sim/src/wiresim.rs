//! E5 wiresim: the real p2p framing layer (`Codec`, `write_message`, `read_message`, `Handshake`)
//! on one end of a loopback socket whose other end is owned by the simulator. The simulator
//! releases fragment i+1 only when the reader has consumed fragment i (FIONREAD on the reader's
//! descriptor reports 0), so the decoded message sequence is a function of the script alone.

use crate::rng::{fnv64, SimRng};
use crate::sim::{CaseResult, Violation};
use crate::world::{World, WorldCfg};
use grin_chain::txhashset::BitmapSegment;
use grin_core::core::hash::{Hash, Hashed};
use grin_core::core::pmmr::segment::SegmentIdentifier;
use grin_core::core::{Block, BlockHeader, CompactBlock};
use grin_core::pow::Difficulty;
use grin_core::ser::{self, ProtocolVersion, Writeable, Writer};
use grin_p2p::msg::{
	self, BanReason, GetPeerAddrs, Hand, Headers, Locator, Message, Msg, OutputBitmapSegmentResponse,
	OutputSegmentResponse, PeerAddrs, Ping, Pong, SegmentRequest, SegmentResponse, Shake,
	TxHashSetArchive, TxHashSetRequest, Type,
};
use grin_p2p::types::AttachmentMeta;
use grin_p2p::verif_export::{Codec, Tracker};
use grin_p2p::{Capabilities, PeerAddr, ReasonForBan};
use serde_json::{json, Value};
use std::io::Write;
use std::net::{TcpListener, TcpStream};
use std::os::unix::io::AsRawFd;
use std::sync::atomic::{AtomicBool, Ordering};
use std::sync::Arc;
use std::time::{Duration, Instant};

// ------------------------------------------------------------------------------------------
// message specifications

#[derive(Clone)]
pub struct WireMsg {
	pub ty: u8,
	pub name: String,
	pub body: Vec<u8>,
	pub attachment: Option<Vec<u8>>,
	/// for header lists: the individual header encodings
	pub headers: Option<Vec<Vec<u8>>>,
}

struct RawBody(Vec<u8>);
impl Writeable for RawBody {
	fn write<W: Writer>(&self, w: &mut W) -> Result<(), ser::Error> {
		w.write_fixed_bytes(&self.0[..])
	}
}

fn sv<T: Writeable>(t: &T, v: ProtocolVersion) -> Vec<u8> {
	ser::ser_vec(t, v).expect("ser_vec")
}

/// `CompactBlock::from(block)` draws its short-id nonce from thread_rng. The same compact block with a
/// nonce chosen by the simulator: written by hand in the wire layout and read back.
pub fn det_compact_block(b: &grin_core::core::Block, nonce: u64, v: ProtocolVersion) -> CompactBlock {
	use grin_core::core::id::ShortIdentifiable;
	let mut outs: Vec<_> = b.outputs().iter().filter(|x| x.is_coinbase()).cloned().collect();
	let mut kerns = vec![];
	let mut ids = vec![];
	for k in b.kernels() {
		if k.is_coinbase() {
			kerns.push(k.clone());
		} else {
			ids.push(k.short_id(&b.header.hash(), nonce));
		}
	}
	outs.sort_unstable();
	kerns.sort_unstable();
	ids.sort_unstable();
	let mut bytes = sv(&b.header, v);
	bytes.extend_from_slice(&nonce.to_be_bytes());
	bytes.extend_from_slice(&(outs.len() as u64).to_be_bytes());
	bytes.extend_from_slice(&(kerns.len() as u64).to_be_bytes());
	bytes.extend_from_slice(&(ids.len() as u64).to_be_bytes());
	bytes.extend(sv(&outs, v));
	bytes.extend(sv(&kerns, v));
	bytes.extend(sv(&ids, v));
	ser::deserialize(&mut &bytes[..], v, ser::DeserializationMode::default()).expect("hand-written compact block decodes")
}

fn wm<T: Writeable>(ty: Type, name: &str, t: &T, v: ProtocolVersion) -> WireMsg {
	WireMsg {
		ty: ty as u8,
		name: name.to_string(),
		body: sv(t, v),
		attachment: None,
		headers: None,
	}
}

fn magic() -> [u8; 2] {
	[73, 43]
}

/// The byte stream the real writer produces for this message (header + body [+ attachment]).
pub fn frame(m: &WireMsg, v: ProtocolVersion, scratch: &std::path::Path) -> Vec<u8> {
	let ty = <Type as num_from::FromU8>::from(m.ty);
	match ty {
		Some(t) => {
			let mut msg = Msg::new(t, RawBody(m.body.clone()), v).expect("Msg::new");
			if let Some(att) = &m.attachment {
				let p = scratch.join(format!("att-{}", fnv64(att)));
				std::fs::write(&p, att).expect("write attachment");
				msg.add_attachment(std::fs::File::open(&p).expect("open attachment"));
			}
			let mut out: Vec<u8> = vec![];
			msg::write_message(&mut out, &msg, Arc::new(Tracker::new())).expect("write_message");
			out
		}
		None => {
			// unknown type byte: hand-built frame
			let mut out = vec![];
			out.extend_from_slice(&magic());
			out.push(m.ty);
			out.extend_from_slice(&(m.body.len() as u64).to_be_bytes());
			out.extend_from_slice(&m.body);
			out
		}
	}
}

mod num_from {
	use grin_p2p::msg::Type;
	pub trait FromU8: Sized {
		fn from(x: u8) -> Option<Self>;
	}
	impl FromU8 for Type {
		fn from(x: u8) -> Option<Type> {
			use Type::*;
			Some(match x {
				0 => Error,
				1 => Hand,
				2 => Shake,
				3 => Ping,
				4 => Pong,
				5 => GetPeerAddrs,
				6 => PeerAddrs,
				7 => GetHeaders,
				8 => Header,
				9 => Headers,
				10 => GetBlock,
				11 => Block,
				12 => GetCompactBlock,
				13 => CompactBlock,
				14 => StemTransaction,
				15 => Transaction,
				16 => TxHashSetRequest,
				17 => TxHashSetArchive,
				18 => BanReason,
				19 => GetTransaction,
				20 => TransactionKernel,
				21 => GetOutputBitmapSegment,
				22 => OutputBitmapSegment,
				23 => GetOutputSegment,
				24 => OutputSegment,
				25 => GetRangeProofSegment,
				26 => RangeProofSegment,
				27 => GetKernelSegment,
				28 => KernelSegment,
				_ => return None,
			})
		}
	}
}

/// Documented per-type body limits (bytes); the reader accepts up to 4x these.
pub fn doc_limit(ty: u8) -> u64 {
	let max_block = (grin_core::global::max_block_weight() / grin_core::consensus::OUTPUT_WEIGHT * 708) as u64;
	match ty {
		0 => 0,
		1 => 128,
		2 => 88,
		3 | 4 => 16,
		5 => 4,
		6 => 4 + 19 * 256,
		7 => 1 + 32 * 20,
		8 => 365,
		9 => 2 + 365 * 512,
		10 | 12 | 19 | 20 => 32,
		11 | 14 | 15 => max_block,
		13 => max_block / 10,
		16 => 40,
		17 | 18 => 64,
		21 | 23 | 25 | 27 => 41,
		22 | 24 | 26 | 28 => 2 * max_block,
		_ => max_block,
	}
}

/// A decoded message in comparable form.
fn canon(m: Message, v: ProtocolVersion) -> (String, Vec<u8>) {
	match m {
		Message::Unknown(t) => (format!("unknown{}", t), vec![]),
		Message::Ping(p) => ("ping".into(), sv(&p, v)),
		Message::Pong(p) => ("pong".into(), sv(&p, v)),
		Message::BanReason(p) => ("banreason".into(), sv(&p, v)),
		Message::TransactionKernel(h) => ("txkernel".into(), sv(&h, v)),
		Message::GetTransaction(h) => ("gettx".into(), sv(&h, v)),
		Message::Transaction(t) => ("tx".into(), sv(&t, v)),
		Message::StemTransaction(t) => ("stemtx".into(), sv(&t, v)),
		Message::GetBlock(h) => ("getblock".into(), sv(&h, v)),
		Message::Block(b) => {
			let b: Block = b.into();
			("block".into(), sv(&b, v))
		}
		Message::GetCompactBlock(h) => ("getcompactblock".into(), sv(&h, v)),
		Message::CompactBlock(b) => {
			let b: CompactBlock = b.into();
			("compactblock".into(), sv(&b, v))
		}
		Message::GetHeaders(l) => ("getheaders".into(), sv(&l, v)),
		Message::Header(h) => {
			let h: BlockHeader = h.into();
			("header".into(), sv(&h, v))
		}
		Message::Headers(hd) => {
			let mut out = vec![];
			for h in &hd.headers {
				out.extend(sv(h, v));
			}
			(format!("headers[{}+{}]", hd.headers.len(), hd.remaining), out)
		}
		Message::GetPeerAddrs(p) => ("getpeeraddrs".into(), sv(&p, v)),
		Message::PeerAddrs(p) => ("peeraddrs".into(), sv(&p, v)),
		Message::TxHashSetRequest(p) => ("txhashsetrequest".into(), sv(&p, v)),
		Message::TxHashSetArchive(p) => ("txhashsetarchive".into(), sv(&p, v)),
		Message::Attachment(u, b) => (
			format!("attachment[left {}]", u.left),
			b.as_ref().map(|x| x.to_vec()).unwrap_or_default(),
		),
		Message::GetOutputBitmapSegment(p) => ("getbitmapseg".into(), sv(&p, v)),
		Message::OutputBitmapSegment(p) => ("bitmapseg".into(), sv(&p, v)),
		Message::GetOutputSegment(p) => ("getoutputseg".into(), sv(&p, v)),
		Message::OutputSegment(p) => ("outputseg".into(), sv(&p, v)),
		Message::GetRangeProofSegment(p) => ("getrproofseg".into(), sv(&p, v)),
		Message::RangeProofSegment(p) => ("rproofseg".into(), sv(&p, v)),
		Message::GetKernelSegment(p) => ("getkernelseg".into(), sv(&p, v)),
		Message::KernelSegment(p) => ("kernelseg".into(), sv(&p, v)),
	}
}

// ------------------------------------------------------------------------------------------
// lock-stepped socket

pub fn socket_pair() -> (TcpStream, TcpStream) {
	let l = TcpListener::bind("127.0.0.1:0").expect("bind");
	let addr = l.local_addr().unwrap();
	let w = TcpStream::connect(addr).expect("connect");
	let (r, _) = l.accept().expect("accept");
	w.set_nodelay(true).ok();
	(w, r)
}

fn unread(fd: i32) -> i64 {
	let mut n: libc::c_int = 0;
	let r = unsafe { libc::ioctl(fd, libc::FIONREAD, &mut n) };
	if r < 0 {
		-1
	} else {
		n as i64
	}
}

#[derive(Debug)]
pub struct ReadOutcome {
	/// (canonical name, bytes) per successfully decoded message
	pub msgs: Vec<(String, Vec<u8>)>,
	/// error that ended the reading, if any
	pub error: Option<String>,
	pub panicked: Option<String>,
	pub bytes_reported: u64,
}

/// Reader side: a real `Codec` consuming until EOF/error or `stop_after` messages.
fn reader_thread(
	stream: TcpStream,
	v: ProtocolVersion,
	stop_after: usize,
	done: Arc<AtomicBool>,
) -> std::thread::JoinHandle<ReadOutcome> {
	std::thread::spawn(move || {
		grin_core::global::set_local_chain_type(grin_core::global::ChainTypes::AutomatedTesting);
		let r = std::panic::catch_unwind(std::panic::AssertUnwindSafe(|| {
			let mut codec = Codec::new(v, stream);
			let mut out = ReadOutcome {
				msgs: vec![],
				error: None,
				panicked: None,
				bytes_reported: 0,
			};
			loop {
				if out.msgs.len() >= stop_after {
					break;
				}
				let (res, n) = codec.read();
				out.bytes_reported += n;
				match res {
					Ok(m) => {
						if let Message::TxHashSetArchive(a) = &m {
							// what the protocol handler does on this message
							let meta = AttachmentMeta {
								size: a.bytes as usize,
								hash: a.hash,
								height: a.height,
								start_time: chrono::Utc::now(),
								path: std::path::PathBuf::from("/nonexistent"),
							};
							let nonempty = a.bytes > 0;
							out.msgs.push(canon(m, v));
							if nonempty {
								codec.expect_attachment(Arc::new(meta));
							}
							continue;
						}
						out.msgs.push(canon(m, v));
					}
					Err(e) => {
						out.error = Some(format!("{:?}", e));
						break;
					}
				}
			}
			out
		}));
		done.store(true, Ordering::SeqCst);
		match r {
			Ok(o) => o,
			Err(p) => {
				let msg = if let Some(s) = p.downcast_ref::<String>() {
					s.clone()
				} else if let Some(s) = p.downcast_ref::<&str>() {
					s.to_string()
				} else {
					"panic".to_string()
				};
				ReadOutcome {
					msgs: vec![],
					error: None,
					panicked: Some(msg),
					bytes_reported: 0,
				}
			}
		}
	})
}

pub struct Delivery {
	pub outcome: ReadOutcome,
	/// bytes still unread in the reader's socket when the reader stopped (before close)
	pub left_unread: i64,
	pub hung: bool,
}

/// Deliver `bytes` cut at `cuts` (ascending offsets) in lock step; then close the writer.
/// A delivery normally takes micro- to milliseconds. One that took more than a second of real
/// time was disturbed by the host (a descheduled thread can run into the codec's real 2 s header
/// timeout) and is repeated once: the outcome is a function of the script alone, so anything
/// genuine reproduces.
pub fn deliver(bytes: &[u8], cuts: &[usize], v: ProtocolVersion, stop_after: usize) -> Delivery {
	let t0 = Instant::now();
	let d = deliver_once(bytes, cuts, v, stop_after);
	if t0.elapsed() > Duration::from_millis(1000) {
		return deliver_once(bytes, cuts, v, stop_after);
	}
	d
}

/// Real-time pause (ms) after the first fragment of the next `deliver_once` was consumed: the one
/// place where a run waits for real, to put a gap between two fragments that is longer than the
/// codec's 2 s header timeout and far below its 60 s body timeout.
static GAP_AFTER_FIRST_FRAGMENT_MS: std::sync::atomic::AtomicU64 = std::sync::atomic::AtomicU64::new(0);

pub fn deliver_with_gap(bytes: &[u8], cut: usize, gap_ms: u64, v: ProtocolVersion) -> Delivery {
	GAP_AFTER_FIRST_FRAGMENT_MS.store(gap_ms, Ordering::SeqCst);
	let d = deliver_once(bytes, &[cut], v, usize::MAX);
	GAP_AFTER_FIRST_FRAGMENT_MS.store(0, Ordering::SeqCst);
	d
}

fn deliver_once(bytes: &[u8], cuts: &[usize], v: ProtocolVersion, stop_after: usize) -> Delivery {
	let (mut w, r) = socket_pair();
	let rfd = r.as_raw_fd();
	let rdup = unsafe { libc::dup(rfd) };
	let done = Arc::new(AtomicBool::new(false));
	let h = reader_thread(r, v, stop_after, done.clone());
	let mut start = 0usize;
	let mut points: Vec<usize> = cuts.iter().cloned().filter(|c| *c > 0 && *c < bytes.len()).collect();
	points.push(bytes.len());
	let mut hung = false;
	for p in points {
		if p <= start {
			continue;
		}
		if w.write_all(&bytes[start..p]).is_err() {
			break;
		}
		let _ = w.flush();
		start = p;
		// wait until the reader consumed it (or stopped)
		let t0 = Instant::now();
		loop {
			if done.load(Ordering::SeqCst) {
				break;
			}
			let n = unread(rdup);
			if n == 0 {
				// give the reader a chance to block in its next read
				std::thread::yield_now();
				break;
			}
			if t0.elapsed() > Duration::from_millis(3000) {
				// the reader is alive but not reading: e.g. it asked for fewer bytes than it was sent
				break;
			}
			std::thread::yield_now();
		}
		if done.load(Ordering::SeqCst) {
			break;
		}
		let gap = GAP_AFTER_FIRST_FRAGMENT_MS.swap(0, Ordering::SeqCst);
		if gap > 0 {
			std::thread::sleep(Duration::from_millis(gap));
		}
	}
	// let the reader finish what it has, then observe the unread remainder and close
	let t0 = Instant::now();
	while !done.load(Ordering::SeqCst) && unread(rdup) > 0 && t0.elapsed() < Duration::from_millis(2000) {
		std::thread::yield_now();
	}
	// if the reader still waits for more input, closing our end gives it EOF
	let left_before_close = if done.load(Ordering::SeqCst) { unread(rdup) } else { -2 };
	drop(w);
	let t1 = Instant::now();
	while !done.load(Ordering::SeqCst) && t1.elapsed() < Duration::from_millis(8000) {
		std::thread::sleep(Duration::from_millis(1));
	}
	if !done.load(Ordering::SeqCst) {
		hung = true;
	}
	let left = if left_before_close == -2 { unread(rdup) } else { left_before_close };
	unsafe { libc::close(rdup) };
	let outcome = if hung {
		ReadOutcome {
			msgs: vec![],
			error: None,
			panicked: None,
			bytes_reported: 0,
		}
	} else {
		h.join().unwrap_or(ReadOutcome {
			msgs: vec![],
			error: None,
			panicked: Some("reader thread join failed".into()),
			bytes_reported: 0,
		})
	};
	Delivery {
		outcome,
		left_unread: left,
		hung,
	}
}

// ------------------------------------------------------------------------------------------
// message corpus from a real world

pub struct Corpus {
	pub world: World,
	pub archive_header: BlockHeader,
	pub segs: Vec<(Type, Vec<u8>, String)>,
}

pub fn build_world(seed: u64, headers: u64) -> Result<World, String> {
	let mut r = SimRng::new(seed).fork("cfg");
	let mut cfg = WorldCfg::draw(&mut r, true);
	cfg.free_difficulty = false;
	cfg.nrd = false;
	cfg.branches = 0;
	cfg.trunk = headers;
	cfg.tx_pct = 35;
	cfg.max_txs = 2;
	let mut w = World::new(seed, cfg, "wire-w");
	let mut tip = 0;
	for _ in 0..headers {
		tip = w.extend(tip, 0)?;
	}
	Ok(w)
}

/// Protocol versions below 3 carry inputs with their features: convert like the node does
/// before relaying to such a peer (features looked up from what the wallet knows).
fn inputs_for_version(world: &World, inputs: grin_core::core::Inputs, v: ProtocolVersion) -> grin_core::core::Inputs {
	use grin_core::core::{CommitWrapper, Input, Inputs, OutputFeatures};
	if v.0 >= 3 {
		return inputs;
	}
	let commits: Vec<CommitWrapper> = inputs.into();
	let full: Vec<Input> = commits
		.iter()
		.map(|c| {
			let cb = world
				.wallet
				.known
				.get(&crate::world::ckey(&c.commitment()))
				.map(|i| i.coinbase)
				.unwrap_or(false);
			Input::new(if cb { OutputFeatures::Coinbase } else { OutputFeatures::Plain }, c.commitment())
		})
		.collect();
	Inputs::FeaturesAndCommit(full)
}

fn block_for_version(world: &World, b: &Block, v: ProtocolVersion) -> Block {
	let mut b = b.clone();
	b.body.inputs = inputs_for_version(world, b.body.inputs.clone(), v);
	b.body.sort();
	b
}

/// One value of every message type at protocol version `v`.
pub fn corpus(world: &World, v: ProtocolVersion, rng: &mut SimRng) -> Vec<WireMsg> {
	let mut out = vec![];
	let n = world.blocks.len();
	let pick_block = |rng: &mut SimRng| -> &Block { &world.blocks[1 + rng.usize_below(n - 1)].block };
	let with_tx: Vec<usize> = (1..n).filter(|i| !world.blocks[*i].txs.is_empty()).collect();
	let h = world.blocks[n - 1].hash;
	out.push(wm(Type::Ping, "ping", &Ping { total_difficulty: Difficulty::from_num(rng.range(1, 1 << 40)), height: rng.range(0, 1 << 30) }, v));
	out.push(wm(Type::Pong, "pong", &Pong { total_difficulty: Difficulty::from_num(rng.range(1, 1 << 40)), height: rng.range(0, 1 << 30) }, v));
	out.push(wm(Type::BanReason, "banreason", &BanReason { ban_reason: ReasonForBan::BadBlock }, v));
	out.push(wm(Type::TransactionKernel, "txkernel", &h, v));
	out.push(wm(Type::GetTransaction, "gettx", &h, v));
	out.push(wm(Type::GetBlock, "getblock", &h, v));
	out.push(wm(Type::GetCompactBlock, "getcompactblock", &h, v));
	if let Some(i) = with_tx.first() {
		let mut tx = world.blocks[*i].txs[0].clone();
		tx.body.inputs = inputs_for_version(world, tx.body.inputs.clone(), v);
		tx.body.sort();
		out.push(wm(Type::Transaction, "tx", &tx, v));
		out.push(wm(Type::StemTransaction, "stemtx", &tx, v));
	}
	let b = block_for_version(world, pick_block(rng), v);
	out.push(wm(Type::Block, "block", &b, v));
	let b2 = if let Some(i) = with_tx.last() { &world.blocks[*i].block } else { pick_block(rng) };
	let cb: CompactBlock = det_compact_block(b2, rng.next_u64(), v);
	out.push(wm(Type::CompactBlock, "compactblock", &cb, v));
	out.push(wm(Type::Header, "header", &pick_block(rng).header, v));
	let nloc = rng.range(0, 20) as usize;
	let hashes: Vec<Hash> = (0..nloc).map(|i| world.blocks[i % n].hash).collect();
	out.push(wm(Type::GetHeaders, "getheaders", &Locator { hashes }, v));
	// the largest lists the protocol allows (what a node on a tall chain / with many peers sends)
	let hashes: Vec<Hash> = (0..20).map(|i| world.blocks[i % n].hash).collect();
	out.push(wm(Type::GetHeaders, "getheaders", &Locator { hashes }, v));
	let peers: Vec<PeerAddr> = (0..256usize).map(|i| PeerAddr(format!("10.{}.{}.{}:{}", i / 200, i % 200, (i * 7) % 250, 3414 + (i % 100)).parse().unwrap())).collect();
	out.push(wm(Type::PeerAddrs, "peeraddrs", &PeerAddrs { peers }, v));
	out.push(wm(Type::GetPeerAddrs, "getpeeraddrs", &GetPeerAddrs { capabilities: Capabilities::default() }, v));
	let np = rng.range(0, 12) as usize;
	let peers: Vec<PeerAddr> = (0..np)
		.map(|i| {
			if i % 3 == 2 {
				PeerAddr(format!("[2001:db8::{}]:{}", i + 1, 3414 + i).parse().unwrap())
			} else {
				PeerAddr(format!("10.0.{}.{}:{}", i, i * 7 % 250, 3414 + i).parse().unwrap())
			}
		})
		.collect();
	out.push(wm(Type::PeerAddrs, "peeraddrs", &PeerAddrs { peers }, v));
	out.push(wm(Type::TxHashSetRequest, "txhashsetrequest", &TxHashSetRequest { hash: h, height: rng.range(0, 1000) }, v));
	let id = SegmentIdentifier { height: rng.range(0, 12) as u8, idx: rng.range(0, 1000) };
	for (t, name) in [
		(Type::GetOutputBitmapSegment, "getbitmapseg"),
		(Type::GetOutputSegment, "getoutputseg"),
		(Type::GetRangeProofSegment, "getrproofseg"),
		(Type::GetKernelSegment, "getkernelseg"),
	] {
		out.push(wm(t, name, &SegmentRequest { block_hash: h, identifier: id }, v));
	}
	out
}

/// Segment responses produced by a real Segmenter over the world's builder chain.
pub fn segment_msgs(world: &World, v: ProtocolVersion, rng: &mut SimRng) -> Vec<WireMsg> {
	let mut out = vec![];
	let chain = world.builder.chain();
	let seg = match chain.segmenter() {
		Ok(s) => s,
		Err(_) => return out,
	};
	let ah = seg.header().clone();
	let bh = ah.hash();
	for _ in 0..2 {
		let height = rng.range(0, 3) as u8;
		let kid = SegmentIdentifier { height, idx: 0 };
		if let Ok(s) = seg.kernel_segment(kid) {
			out.push(wm(Type::KernelSegment, "kernelseg", &SegmentResponse { block_hash: bh, segment: s }, v));
		}
		if let Ok(s) = seg.rangeproof_segment(kid) {
			out.push(wm(Type::RangeProofSegment, "rproofseg", &SegmentResponse { block_hash: bh, segment: s }, v));
		}
		if let Ok((s, root)) = seg.output_segment(kid) {
			out.push(wm(
				Type::OutputSegment,
				"outputseg",
				&OutputSegmentResponse { response: SegmentResponse { block_hash: bh, segment: s }, output_bitmap_root: root },
				v,
			));
		}
		if let Ok((s, root)) = seg.bitmap_segment(SegmentIdentifier { height, idx: 0 }) {
			let bs: BitmapSegment = s.into();
			out.push(wm(
				Type::OutputBitmapSegment,
				"bitmapseg",
				&OutputBitmapSegmentResponse { block_hash: bh, segment: bs, output_root: root },
				v,
			));
		}
	}
	// a well-formed bitmap segment with more than one chunk (the worlds' own bitmap MMRs have a single
	// leaf): block hash, identifier (height 1, index 0), one block of two chunks with an empty index
	// list, an empty proof, the output root. The identifier mutations then reach the leaf-position
	// arithmetic of `BitmapSegment::into_segment` with several leaves.
	{
		let mut body = bh.as_bytes().to_vec();
		body.push(1);
		body.extend_from_slice(&0u64.to_be_bytes());
		body.extend_from_slice(&1u16.to_be_bytes());
		body.extend_from_slice(&[2, 1, 0, 0]);
		body.extend_from_slice(&0u64.to_be_bytes());
		body.extend_from_slice(ah.output_root.as_bytes());
		out.push(WireMsg { ty: Type::OutputBitmapSegment as u8, name: "bitmapseg".into(), body, attachment: None, headers: None });
	}
	out
}

/// Bitmap segment frames for the hostile reader only (most of them are not valid messages).
pub fn bitmap_block_msgs(world: &World) -> Vec<WireMsg> {
	let mut out = vec![];
	let chain = world.builder.chain();
	let seg = match chain.segmenter() {
		Ok(s) => s,
		Err(_) => return out,
	};
	let ah = seg.header().clone();
	let bh = ah.hash();
	// the block encodings of a bitmap segment enumerated: chunk counts 0 ... 255, the three modes (raw
	// bits, positions set, positions clear) and an unknown one, position lists around the block's bit
	// count - each a complete, length-consistent frame
	for n_chunks in [0u8, 1, 2, 64, 65, 255] {
		for mode in [0u8, 1, 2, 3] {
			let bits = n_chunks as u32 * 1024;
			let lists: Vec<Vec<u16>> = if mode == 0 { vec![vec![]] } else { vec![vec![], vec![0], vec![1023], vec![1024.min(65535)], vec![bits.saturating_sub(1).min(65535) as u16], vec![bits.min(65535) as u16], vec![65535], vec![0, 0], vec![5, 3]] };
			for list in lists {
				let mut body = bh.as_bytes().to_vec();
				body.push(if n_chunks <= 2 { 1 } else { 9 });
				body.extend_from_slice(&0u64.to_be_bytes());
				body.extend_from_slice(&1u16.to_be_bytes());
				body.push(n_chunks);
				body.push(mode);
				if mode == 0 {
					body.extend(std::iter::repeat(0x55u8).take(n_chunks as usize * 128));
				} else {
					body.extend_from_slice(&(list.len() as u16).to_be_bytes());
					for x in &list {
						body.extend_from_slice(&x.to_be_bytes());
					}
				}
				body.extend_from_slice(&0u64.to_be_bytes());
				body.extend_from_slice(ah.output_root.as_bytes());
				out.push(WireMsg { ty: Type::OutputBitmapSegment as u8, name: format!("bitmapblock-c{}m{}l{:?}", n_chunks, mode, list), body, attachment: None, headers: None });
			}
		}
	}
	out
}

pub fn headers_msg(world: &World, count: usize, v: ProtocolVersion) -> WireMsg {
	let hs: Vec<BlockHeader> = (1..=count).map(|i| world.blocks[i].block.header.clone()).collect();
	let each: Vec<Vec<u8>> = hs.iter().map(|h| sv(h, v)).collect();
	let mut m = wm(Type::Headers, &format!("headers{}", count), &Headers { headers: hs }, v);
	m.headers = Some(each);
	m
}

pub fn archive_msg(world: &World, size: usize, v: ProtocolVersion, rng: &mut SimRng) -> WireMsg {
	let h = world.blocks[1].hash;
	let mut m = wm(Type::TxHashSetArchive, "txhashsetarchive", &TxHashSetArchive { hash: h, height: 1, bytes: size as u64 }, v);
	m.attachment = Some(rng.bytes(size));
	m
}

/// What the reader is expected to return for a sequence of sent messages.
fn expected(seq: &[WireMsg]) -> Vec<(String, Vec<u8>)> {
	let mut out = vec![];
	for m in seq {
		if let Some(hs) = &m.headers {
			// re-batched by 32
			let total = hs.len();
			let mut i = 0;
			while i < total {
				let e = (i + 32).min(total);
				let mut bytes = vec![];
				for h in &hs[i..e] {
					bytes.extend_from_slice(h);
				}
				out.push((format!("headers[{}+{}]", e - i, total - e), bytes));
				i = e;
			}
			if total == 0 {
				out.push(("headers[0+0]".into(), vec![]));
			}
			continue;
		}
		if num_from::FromU8::from(m.ty).map(|_: Type| ()).is_none() {
			out.push((format!("unknown{}", m.ty), vec![]));
			continue;
		}
		out.push((m.name.clone(), m.body.clone()));
		if let Some(att) = &m.attachment {
			// streamed in chunks of at most 48_000 bytes
			let mut left = att.len();
			let mut off = 0;
			while left > 0 {
				let n = left.min(48_000);
				left -= n;
				out.push((format!("attachment[left {}]", left), att[off..off + n].to_vec()));
				off += n;
			}
		}
	}
	out
}

fn viol(prop: &str, key: &str, what: String, replay: Value) -> Violation {
	Violation {
		key: format!("{}:{}", prop, key),
		what,
		replay,
	}
}

fn hexs(b: &[u8]) -> String {
	crate::rng::hex(b)
}

fn unhex(s: &str) -> Vec<u8> {
	(0..s.len() / 2).map(|i| u8::from_str_radix(&s[2 * i..2 * i + 2], 16).unwrap_or(0)).collect()
}

/// Compare a delivery with the expected message list.
fn compare(seq_names: &str, exp: &[(String, Vec<u8>)], d: &Delivery, cuts: &[usize], stream: &[u8], v: ProtocolVersion) -> Option<Violation> {
	let replay = json!({"engine": "wiresim", "property": "C19", "mode": "stream", "version": v.0, "stream": hexs(stream), "cuts": cuts,
		"expected": exp.iter().map(|(n, b)| json!([n, hexs(b)])).collect::<Vec<_>>()});
	if d.hung {
		return Some(viol("C19", "reader-hung", format!("{}: reader did not finish (cuts {:?})", seq_names, cuts), replay));
	}
	if let Some(p) = &d.outcome.panicked {
		return Some(viol("C19", "reader-panicked", format!("{}: reader panicked: {} (cuts {:?})", seq_names, p, cuts), replay));
	}
	let got = &d.outcome.msgs;
	for (i, e) in exp.iter().enumerate() {
		match got.get(i) {
			Some(g) if g == e => {}
			Some(g) => {
				let key = if e.0 == "headers[0+0]" { "empty-headers-message".to_string() } else { format!("message-differs:{}", e.0.split('[').next().unwrap_or("")) };
				return Some(viol(
					"C19",
					&key,
					format!("{}: message #{} read as {} ({} bytes) but {} ({} bytes) was written (cuts {:?})", seq_names, i, g.0, g.1.len(), e.0, e.1.len(), cuts),
					replay,
				));
			}
			None => {
				let key = if e.0 == "headers[0+0]" { "empty-headers-message".to_string() } else { format!("message-missing:{}", e.0.split('[').next().unwrap_or("")) };
				return Some(viol(
					"C19",
					&key,
					format!("{}: message #{} ({}) was written but the reader stopped after {} messages with {:?} (cuts {:?})", seq_names, i, e.0, got.len(), d.outcome.error, cuts),
					replay,
				));
			}
		}
	}
	if got.len() > exp.len() {
		return Some(viol("C19", "extra-message", format!("{}: reader returned {} messages, {} were written", seq_names, got.len(), exp.len()), replay));
	}
	None
}

fn gen_cuts(rng: &mut SimRng, len: usize, k: usize) -> Vec<usize> {
	let mut c: Vec<usize> = (0..k).map(|_| 1 + rng.usize_below(len.max(2) - 1)).collect();
	c.sort_unstable();
	c.dedup();
	c
}

// ------------------------------------------------------------------------------------------
// C19 case

pub fn c19_case(tier: &str, seed: u64, case: u64) -> CaseResult {
	let t0 = Instant::now();
	let thorough = tier == "thorough";
	let mut res = CaseResult::new(case, seed);
	let scratch = crate::node::fresh_dir("wire-scratch");
	let n_headers = if thorough && case % 4 == 0 { 70 } else { 36 };
	let world = match build_world(seed, n_headers) {
		Ok(w) => w,
		Err(e) => {
			res.harness_error = Some(format!("wire world: {}", e));
			return res;
		}
	};
	let mut world = world;
	let mut rng = SimRng::new(seed).fork("wire");
	let versions = [1u32, 2, 3, 1000];
	let mut found: Option<Violation> = None;
	let mut record = |res: &mut CaseResult, d: &Delivery, cuts: &[usize], tag: &str| {
		res.runs += 1;
		res.steps += 1 + cuts.len() as u64;
		res.run_digests.push((fnv64(format!("{}:{:?}:{}", tag, cuts, d.outcome.msgs.len()).as_bytes()), !cuts.is_empty()));
		res.fault_n("fragment_boundary", cuts.len() as u64);
	};
	'outer: for (vi, vnum) in versions.iter().enumerate() {
		let v = ProtocolVersion(*vnum);
		// (a) sequences over all message types
		let mut all = corpus(&world, v, &mut rng);
		all.extend(segment_msgs(&world, v, &mut rng));
		// unknown message types with bodies
		all.push(WireMsg { ty: 200, name: "unknown200".into(), body: rng.bytes(50), attachment: None, headers: None });
		all.push(WireMsg { ty: 99, name: "unknown99".into(), body: vec![], attachment: None, headers: None });
		res.probe_n("message_types_in_corpus", all.iter().map(|m| m.ty).collect::<std::collections::BTreeSet<_>>().len() as u64);
		let n_seq = if thorough { 12 } else { 4 };
		for s in 0..n_seq {
			let k = rng.range(2, 7) as usize;
			let mut seq: Vec<WireMsg> = vec![];
			for _ in 0..k {
				seq.push(rng.pick(&all).clone());
			}
			// sprinkle the special shapes
			match (s + vi) % 4 {
				0 => seq.insert(1.min(seq.len()), headers_msg(&world, *rng.pick(&[1usize, 31, 32, 33]), v)),
				1 => {
					let sz = *rng.pick(&[0usize, 1, 7_999, 8_000, 8_001, 20_000, 47_999, 48_000, 48_001, 50_000, 96_000, 100_001]);
					let pos = rng.usize_below(seq.len() + 1);
					seq.insert(pos, archive_msg(&world, sz, v, &mut rng));
				}
				_ => {}
			}
			let mut stream = vec![];
			let mut frame_starts = vec![];
			for m in &seq {
				frame_starts.push(stream.len());
				stream.extend(frame(m, v, &scratch));
			}
			let exp = expected(&seq);
			let names = format!("v{} [{}]", vnum, seq.iter().map(|m| m.name.clone()).collect::<Vec<_>>().join(","));
			// one real pause per check, inside a message body: longer than the 2 s the codec waits for a
			// frame header, far below the 60 s it grants a body ("within the I/O timeouts")
			if case == 0 && s == 0 && *vnum == 1000 {
				let body_frames: Vec<usize> = (0..seq.len()).filter(|i| seq[*i].body.len() >= 4 && seq[*i].attachment.is_none() && seq[*i].headers.is_none()).collect();
				if let Some(fi) = body_frames.first() {
					let cut = frame_starts[*fi] + 11 + seq[*fi].body.len() / 2;
					let d = deliver_with_gap(&stream, cut, 2300, v);
					record(&mut res, &d, &[cut], &names);
					res.fault("real_gap_2300ms_inside_a_body");
					res.probe("slow_body_fragment_delivered");
					if let Some(vv) = compare(&names, &exp, &d, &[cut], &stream, v) {
						found = Some(vv);
						break 'outer;
					}
				}
			}
			// unfragmented
			let d = deliver(&stream, &[], v, usize::MAX);
			record(&mut res, &d, &[], &names);
			if let Some(vv) = compare(&names, &exp, &d, &[], &stream, v) {
				found = Some(vv);
				break 'outer;
			}
			// every single split point (all of them for short streams, a spread incl. frame-header
			// neighbourhoods for long ones)
			let mut singles: Vec<usize> = vec![];
			if stream.len() <= 1500 || thorough && stream.len() <= 6000 {
				singles = (1..stream.len()).collect();
			} else {
				for fs in &frame_starts {
					for o in 0..14 {
						singles.push(fs + o);
					}
				}
				for _ in 0..150 {
					singles.push(1 + rng.usize_below(stream.len() - 1));
				}
				singles.sort_unstable();
				singles.dedup();
				singles.retain(|x| *x > 0 && *x < stream.len());
			}
			res.probe_n("single_split_points", singles.len() as u64);
			for c in singles {
				let d = deliver(&stream, &[c], v, usize::MAX);
				record(&mut res, &d, &[c], &names);
				if let Some(vv) = compare(&names, &exp, &d, &[c], &stream, v) {
					found = Some(vv);
					break 'outer;
				}
			}
			// random multi-splits
			for _ in 0..(if thorough { 40 } else { 12 }) {
				let k = rng.range(2, 9) as usize;
				let cuts = gen_cuts(&mut rng, stream.len(), k);
				let d = deliver(&stream, &cuts, v, usize::MAX);
				record(&mut res, &d, &cuts, &names);
				if let Some(vv) = compare(&names, &exp, &d, &cuts, &stream, v) {
					found = Some(vv);
					break 'outer;
				}
			}
			// one-byte dribble for short streams
			if stream.len() <= 400 {
				let cuts: Vec<usize> = (1..stream.len()).collect();
				let d = deliver(&stream, &cuts, v, usize::MAX);
				record(&mut res, &d, &cuts, &names);
				res.probe("dribble");
				if let Some(vv) = compare(&names, &exp, &d, &cuts, &stream, v) {
					found = Some(vv);
					break 'outer;
				}
			}
			if res.samples.is_empty() {
				res.samples.push(json!({"sequence": names, "stream_bytes": stream.len(), "expected_messages": exp.iter().map(|e| e.0.clone()).collect::<Vec<_>>() }));
			}
		}
		// (b) header lists of 0, 1, 31, 32, 33 (+ larger) headers between two pings
		let mut counts = vec![0usize, 1, 31, 32, 33];
		if n_headers >= 70 {
			counts.push(65);
		}
		for c in counts {
			let ping = wm(Type::Ping, "ping", &Ping { total_difficulty: Difficulty::from_num(7), height: 9 }, v);
			let seq = vec![ping.clone(), headers_msg(&world, c, v), ping];
			let mut stream = vec![];
			for m in &seq {
				stream.extend(frame(m, v, &scratch));
			}
			let exp = expected(&seq);
			let names = format!("v{} [ping,headers{},ping]", vnum, c);
			let mut cutsets: Vec<Vec<usize>> = vec![vec![]];
			for _ in 0..6 {
				let k = rng.range(1, 5) as usize;
				cutsets.push(gen_cuts(&mut rng, stream.len(), k));
			}
			// cuts around the count field and the first header
			let base = 27 + 11;
			for o in 0..6 {
				cutsets.push(vec![base + o]);
			}
			for cuts in cutsets {
				let d = deliver(&stream, &cuts, v, usize::MAX);
				record(&mut res, &d, &cuts, &names);
				res.probe(&format!("headers_list_{}", c));
				if let Some(vv) = compare(&names, &exp, &d, &cuts, &stream, v) {
					found = Some(vv);
					break 'outer;
				}
			}
		}
		// (c) frames that must be refused having consumed exactly the 11 header bytes
		if let Some(vv) = limit_frames(&mut res, v, &mut rng) {
			found = Some(vv);
			break 'outer;
		}
	}
	// (d) handshake
	if found.is_none() {
		found = handshake_checks(&mut res, &world, &mut rng);
	}
	if let Some(vv) = found {
		res.violations.push(vv);
	}
	world.cleanup();
	let _ = std::fs::remove_dir_all(&scratch);
	res.wall_s = t0.elapsed().as_secs_f64();
	res
}

/// Frame headers with boundary and over-limit lengths for every type, wrong magic, and header
/// lists whose item count disagrees with the length.
fn limit_frames(res: &mut CaseResult, v: ProtocolVersion, rng: &mut SimRng) -> Option<Violation> {
	let trailer = rng.bytes(37);
	for ty in 0u8..=40 {
		let known = <Type as num_from::FromU8>::from(ty).is_some();
		let limit = doc_limit(ty) * 4;
		for (len, must_refuse) in [(limit + 1, true), (limit.saturating_mul(2).max(limit + 2), true), (u64::MAX, true), (u64::MAX / 2, true)] {
			let mut f = vec![];
			f.extend_from_slice(&magic());
			f.push(ty);
			f.extend_from_slice(&len.to_be_bytes());
			f.extend_from_slice(&trailer);
			crate::alloc::reset();
			let d = deliver(&f, &[], v, usize::MAX);
			let (_peak, max_req) = crate::alloc::stats();
			res.runs += 1;
			res.steps += 1;
			res.fault("over_limit_frame");
			res.run_digests.push((fnv64(format!("limit:{}:{}:{}", v.0, ty, len).as_bytes()), true));
			let replay = json!({"engine": "wiresim", "property": "C19", "mode": "limit", "version": v.0, "stream": hexs(&f), "cuts": [], "expect_unread": trailer.len()});
			if d.hung || d.outcome.panicked.is_some() {
				return Some(viol("C19", "limit-frame-hang-or-panic", format!("type {} len {}: reader hung={} panic={:?}", ty, len, d.hung, d.outcome.panicked), replay));
			}
			if must_refuse {
				if d.outcome.error.is_none() || !d.outcome.msgs.is_empty() {
					return Some(viol(
						"C19",
						&format!("over-limit-frame-accepted:type{}", if known { ty.to_string() } else { "unknown".into() }),
						format!("type {} frame announcing {} bytes (limit {}): reader returned {:?} / {:?} instead of refusing it", ty, len, limit, d.outcome.msgs.iter().map(|m| m.0.clone()).collect::<Vec<_>>(), d.outcome.error),
						replay,
					));
				}
				if d.left_unread != trailer.len() as i64 {
					return Some(viol(
						"C19",
						"refused-frame-consumed-body",
						format!("type {} frame announcing {} bytes was refused but {} of the {} bytes behind the header were consumed", ty, len, trailer.len() as i64 - d.left_unread, trailer.len()),
						replay,
					));
				}
				if max_req as u64 > 1_000_000 {
					return Some(viol(
						"C19",
						"refused-frame-allocated",
						format!("type {} frame announcing {} bytes was refused but a single allocation of {} bytes was requested", ty, len, max_req),
						replay,
					));
				}
			}
		}
		// exactly at the limit: the header is accepted (the reader then waits for the body)
		if known && limit > 0 && limit <= 4096 && ty != 0 && ty != 1 && ty != 2 && ty != 9 {
			let mut f = vec![];
			f.extend_from_slice(&magic());
			f.push(ty);
			f.extend_from_slice(&limit.to_be_bytes());
			f.extend(vec![0u8; limit as usize]);
			let d = deliver(&f, &[], v, usize::MAX);
			res.runs += 1;
			res.probe("at_limit_frame");
			let replay = json!({"engine": "wiresim", "property": "C19", "mode": "limit", "version": v.0, "stream": hexs(&f), "cuts": []});
			// the body is zeros: decoding may fail, but the frame must have been read completely
			if d.left_unread != 0 && !d.hung {
				let e = d.outcome.error.clone().unwrap_or_default();
				if e.contains("TooLargeReadErr") && d.left_unread == limit as i64 {
					return Some(viol("C19", "at-limit-frame-refused", format!("type {} frame announcing exactly the limit {} was refused at the header", ty, limit), replay));
				}
			}
		}
	}
	// a Headers frame whose announced length cannot even hold its item count: refused, and nothing
	// behind the announced body is touched (a following frame must still be there)
	for len in [0u64, 1] {
		let mut f = vec![];
		f.extend_from_slice(&magic());
		f.push(Type::Headers as u8);
		f.extend_from_slice(&len.to_be_bytes());
		f.extend(vec![0u8; len as usize]);
		let body_end = f.len();
		// a well-formed ping frame follows
		let ping = sv(&Ping { total_difficulty: grin_core::pow::Difficulty::from_num(7), height: 3 }, v);
		f.extend_from_slice(&magic());
		f.push(Type::Ping as u8);
		f.extend_from_slice(&(ping.len() as u64).to_be_bytes());
		f.extend_from_slice(&ping);
		let following = (f.len() - body_end) as i64;
		let d = deliver(&f, &[], v, usize::MAX);
		res.runs += 1;
		res.steps += 1;
		res.fault("headers_frame_too_short_for_count");
		res.run_digests.push((fnv64(format!("shorthdrs:{}:{}", v.0, len).as_bytes()), true));
		let replay = json!({"engine": "wiresim", "property": "C19", "mode": "limit", "version": v.0, "stream": hexs(&f), "cuts": []});
		if d.hung || d.outcome.panicked.is_some() {
			return Some(viol("C19", "short-headers-frame-hang-or-panic", format!("Headers frame announcing {} bytes: reader hung={} panic={:?}", len, d.hung, d.outcome.panicked), replay));
		}
		let first_is_error = d.outcome.msgs.is_empty() && d.outcome.error.is_some();
		if !first_is_error {
			return Some(viol(
				"C19",
				"short-headers-frame-accepted",
				format!("Headers frame announcing {} bytes (too short for its item count) was not refused: reader returned {:?} / {:?}", len, d.outcome.msgs.iter().map(|m| m.0.clone()).collect::<Vec<_>>(), d.outcome.error),
				replay,
			));
		}
		if d.left_unread != following {
			return Some(viol(
				"C19",
				"short-headers-frame-consumed-next-frame",
				format!("Headers frame announcing {} bytes was refused but {} bytes of the frame behind it were consumed", len, following - d.left_unread),
				replay,
			));
		}
	}
	// wrong magic
	for m in [[0u8, 0u8], [73, 44], [97, 61], [83, 59]] {
		let mut f = vec![];
		f.extend_from_slice(&m);
		f.push(3);
		f.extend_from_slice(&16u64.to_be_bytes());
		f.extend(vec![0u8; 16]);
		let d = deliver(&f, &[], v, usize::MAX);
		res.runs += 1;
		res.fault("wrong_magic");
		let replay = json!({"engine": "wiresim", "property": "C19", "mode": "limit", "version": v.0, "stream": hexs(&f), "cuts": []});
		if d.outcome.error.is_none() || !d.outcome.msgs.is_empty() {
			return Some(viol("C19", "wrong-magic-accepted", format!("frame with magic {:?} was not refused", m), replay));
		}
		if d.left_unread != 16 {
			return Some(viol("C19", "wrong-magic-consumed-body", format!("frame with magic {:?} refused but {} body bytes consumed", m, 16 - d.left_unread), replay));
		}
	}
	None
}

fn handshake_checks(res: &mut CaseResult, world: &World, rng: &mut SimRng) -> Option<Violation> {
	use grin_p2p::handshake::Handshake;
	use grin_p2p::P2PConfig;
	let genesis = world.genesis.hash();
	let local = ProtocolVersion::local().0;
	let replay = json!({"engine": "wiresim", "property": "C19", "mode": "handshake"});
	for remote_v in [1u32, 2, 3, 999, 1000, 1001, 5000] {
		// inbound: simulated remote sends Hand, real accept answers
		let hs = Handshake::new(genesis, P2PConfig::default());
		let (mut w, mut r) = socket_pair();
		let hand = Hand {
			version: ProtocolVersion(remote_v),
			capabilities: Capabilities::default(),
			nonce: rng.next_u64(),
			genesis,
			total_difficulty: Difficulty::from_num(5),
			sender_addr: PeerAddr("127.0.0.1:5000".parse().unwrap()),
			receiver_addr: PeerAddr("127.0.0.1:5001".parse().unwrap()),
			user_agent: "sim".into(),
		};
		let m = Msg::new(Type::Hand, hand, ProtocolVersion::local()).ok()?;
		let mut bytes = vec![];
		msg::write_message(&mut bytes, &m, Arc::new(Tracker::new())).ok()?;
		let cut = 1 + rng.usize_below(bytes.len() - 1);
		let t = std::thread::spawn(move || {
			let _ = w.write_all(&bytes[..cut]);
			let _ = w.flush();
			std::thread::sleep(Duration::from_millis(2));
			let _ = w.write_all(&bytes[cut..]);
			// read the Shake
			let _ = w.set_read_timeout(Some(Duration::from_millis(3000)));
			let shake: Result<Shake, _> = msg::read_message(&mut w, ProtocolVersion(std::cmp::min(remote_v, ProtocolVersion::local().0)), Type::Shake);
			shake.map(|s| s.version.0).ok()
		});
		let info = hs.accept(Capabilities::default(), Difficulty::from_num(9), &mut r);
		let shake_v = t.join().ok().flatten();
		res.runs += 1;
		res.probe("handshake_accept");
		match info {
			Ok(pi) => {
				let want = std::cmp::min(local, remote_v);
				if pi.version.0 != want {
					return Some(viol("C19", "handshake-version", format!("accept: remote version {} local {}: settled on {} instead of {}", remote_v, local, pi.version.0, want), replay));
				}
				if shake_v != Some(local) {
					return Some(viol("C19", "handshake-shake", format!("accept: the Shake sent back carried version {:?}, expected our own {}", shake_v, local), replay));
				}
			}
			Err(e) => return Some(viol("C19", "handshake-accept-failed", format!("accept with remote version {} failed: {:?}", remote_v, e), replay)),
		}
		// outbound: real initiate, simulated remote answers with a Shake
		let hs = Handshake::new(genesis, P2PConfig::default());
		let (mut w, mut r) = socket_pair();
		let t = std::thread::spawn(move || {
			let _ = w.set_read_timeout(Some(Duration::from_millis(3000)));
			let hand: Result<Hand, _> = msg::read_message(&mut w, ProtocolVersion::local(), Type::Hand);
			let shake = Shake {
				version: ProtocolVersion(remote_v),
				capabilities: Capabilities::default(),
				genesis,
				total_difficulty: Difficulty::from_num(5),
				user_agent: "sim".into(),
			};
			let m = Msg::new(Type::Shake, shake, ProtocolVersion::local()).unwrap();
			let mut bytes = vec![];
			msg::write_message(&mut bytes, &m, Arc::new(Tracker::new())).unwrap();
			let _ = w.write_all(&bytes);
			hand.map(|h| h.version.0).ok()
		});
		let info = hs.initiate(Capabilities::default(), Difficulty::from_num(9), PeerAddr("127.0.0.1:5002".parse().unwrap()), &mut r);
		let hand_v = t.join().ok().flatten();
		res.runs += 1;
		res.probe("handshake_initiate");
		match info {
			Ok(pi) => {
				let want = std::cmp::min(local, remote_v);
				if pi.version.0 != want {
					return Some(viol("C19", "handshake-version", format!("initiate: remote version {} local {}: settled on {} instead of {}", remote_v, local, pi.version.0, want), replay));
				}
				if hand_v != Some(local) {
					return Some(viol("C19", "handshake-hand", format!("initiate: the Hand sent carried version {:?}, expected {}", hand_v, local), replay));
				}
			}
			Err(e) => return Some(viol("C19", "handshake-initiate-failed", format!("initiate with remote version {} failed: {:?}", remote_v, e), replay)),
		}
	}
	// different genesis
	{
		let hs = Handshake::new(genesis, P2PConfig::default());
		let other = world.blocks[1].hash;
		let (mut w, mut r) = socket_pair();
		let hand = Hand {
			version: ProtocolVersion::local(),
			capabilities: Capabilities::default(),
			nonce: rng.next_u64(),
			genesis: other,
			total_difficulty: Difficulty::from_num(5),
			sender_addr: PeerAddr("127.0.0.1:5000".parse().unwrap()),
			receiver_addr: PeerAddr("127.0.0.1:5001".parse().unwrap()),
			user_agent: "sim".into(),
		};
		let m = Msg::new(Type::Hand, hand, ProtocolVersion::local()).ok()?;
		let mut bytes = vec![];
		msg::write_message(&mut bytes, &m, Arc::new(Tracker::new())).ok()?;
		let _ = w.write_all(&bytes);
		let info = hs.accept(Capabilities::default(), Difficulty::from_num(9), &mut r);
		res.runs += 1;
		res.fault("genesis_mismatch");
		match info {
			Err(grin_p2p::Error::GenesisMismatch { .. }) => {}
			other => return Some(viol("C19", "genesis-mismatch-not-refused", format!("a Hand with a different genesis gave {:?}", other.map(|p| p.version)), replay)),
		}
	}
	// connection to itself: the same Handshake initiates and accepts
	{
		let hs = Arc::new(Handshake::new(genesis, P2PConfig::default()));
		let (mut a, mut b) = socket_pair();
		let hs2 = hs.clone();
		let t = std::thread::spawn(move || {
			let r = hs2.initiate(Capabilities::default(), Difficulty::from_num(9), PeerAddr("127.0.0.1:5003".parse().unwrap()), &mut a);
			r.is_ok()
		});
		let info = hs.accept(Capabilities::default(), Difficulty::from_num(9), &mut b);
		drop(b);
		let _ = t.join();
		res.runs += 1;
		res.fault("self_connection");
		match info {
			Err(grin_p2p::Error::PeerWithSelf) => {}
			other => return Some(viol("C19", "self-connection-not-refused", format!("accepting our own Hand gave {:?}", other.map(|p| p.version)), replay)),
		}
	}
	// ... and the same for a node that has dialled out often before: the nonces a node has used form a
	// bounded ring (100 entries); whatever the ring has seen, the nonce of the connection that comes back
	// to the node itself must be in it
	// (the node's writer paces its messages 150 ms apart in real time; hook H8 switches that off)
	grin_util::verif::set_pacing_off(true);
	for dials in [100usize, 130] {
		let hs = Arc::new(Handshake::new(genesis, P2PConfig::default()));
		for _ in 0..dials {
			let (mut w, mut r) = socket_pair();
			let t = std::thread::spawn(move || {
				let _ = w.set_read_timeout(Some(Duration::from_millis(3000)));
				let hand: Result<Hand, _> = msg::read_message(&mut w, ProtocolVersion::local(), Type::Hand);
				let shake = Shake {
					version: ProtocolVersion::local(),
					capabilities: Capabilities::default(),
					genesis,
					total_difficulty: Difficulty::from_num(5),
					user_agent: "sim".into(),
				};
				let m = Msg::new(Type::Shake, shake, ProtocolVersion::local()).unwrap();
				let mut bytes = vec![];
				msg::write_message(&mut bytes, &m, Arc::new(Tracker::new())).unwrap();
				let _ = w.write_all(&bytes);
				hand.is_ok()
			});
			let ok = hs.initiate(Capabilities::default(), Difficulty::from_num(9), PeerAddr("127.0.0.1:5002".parse().unwrap()), &mut r).is_ok();
			let _ = t.join();
			if !ok {
				return Some(viol("C19", "handshake-initiate-failed", format!("an outbound handshake of a node that dials out {} times failed", dials), replay));
			}
		}
		let (mut a, mut b) = socket_pair();
		let hs2 = hs.clone();
		let t = std::thread::spawn(move || hs2.initiate(Capabilities::default(), Difficulty::from_num(9), PeerAddr("127.0.0.1:5003".parse().unwrap()), &mut a).is_ok());
		let info = hs.accept(Capabilities::default(), Difficulty::from_num(9), &mut b);
		drop(b);
		let _ = t.join();
		res.runs += 1;
		res.fault("self_connection_after_many_dials");
		match info {
			Err(grin_p2p::Error::PeerWithSelf) => {}
			other => {
				grin_util::verif::set_pacing_off(false);
				return Some(viol("C19", "self-connection-not-refused", format!("a node that had dialled out {} times before accepted its own Hand: {:?}", dials, other.map(|p| p.version)), replay));
			}
		}
	}
	grin_util::verif::set_pacing_off(false);
	None
}

pub fn replay(rp: &Value) -> Result<Option<Violation>, String> {
	let mode = rp["mode"].as_str().unwrap_or("stream");
	let v = ProtocolVersion(rp["version"].as_u64().unwrap_or(1) as u32);
	match mode {
		"stream" => {
			let stream = unhex(rp["stream"].as_str().unwrap_or(""));
			let cuts: Vec<usize> = rp["cuts"].as_array().map(|a| a.iter().filter_map(|x| x.as_u64().map(|y| y as usize)).collect()).unwrap_or_default();
			let exp: Vec<(String, Vec<u8>)> = rp["expected"]
				.as_array()
				.map(|a| a.iter().map(|e| (e[0].as_str().unwrap_or("").to_string(), unhex(e[1].as_str().unwrap_or("")))).collect())
				.unwrap_or_default();
			let d = deliver(&stream, &cuts, v, usize::MAX);
			println!("  read: {:?} error {:?}", d.outcome.msgs.iter().map(|m| m.0.clone()).collect::<Vec<_>>(), d.outcome.error);
			Ok(compare("replay", &exp, &d, &cuts, &stream, v))
		}
		"limit" | "handshake" => {
			// these are deterministic functions of the build: re-run the family
			let mut res = CaseResult::new(0, 0);
			let mut rng = SimRng::new(1);
			if mode == "limit" {
				Ok(limit_frames(&mut res, v, &mut rng))
			} else {
				let mut w = build_world(1, 3)?;
				let r = handshake_checks(&mut res, &w, &mut rng);
				w.cleanup();
				Ok(r)
			}
		}
		_ => Err(format!("unknown wiresim mode {}", mode)),
	}
}

// ------------------------------------------------------------------------------------------
// C11: arbitrary bytes to every decoder reachable from the network or the API

/// Stateless checks the node runs on a decoded value before it touches chain state.
fn post_decode(m: &Message, ah: &BlockHeader) {
	use grin_core::core::transaction::Weighting;
	match m {
		Message::Transaction(t) | Message::StemTransaction(t) => {
			let _ = t.validate_read();
			let _ = t.validate(Weighting::AsTransaction);
		}
		Message::KernelSegment(r) => {
			let _ = r.segment.validate(ah.kernel_mmr_size, None, ah.kernel_root);
		}
		Message::RangeProofSegment(r) => {
			let _ = r.segment.validate(ah.output_mmr_size, None, ah.range_proof_root);
		}
		Message::OutputSegment(r) => {
			let _ = r.response.segment.validate_with(
				ah.output_mmr_size,
				None,
				ah.output_root,
				ah.output_mmr_size,
				r.output_bitmap_root,
				false,
			);
		}
		_ => {}
	}
}

/// Reader for C11: like `reader_thread` but runs the post-decode checks and keeps no payloads.
/// As `hostile_delivery_once`; a run that took more than a second of real time (or hung) is
/// repeated once, so that a stall of the host is not mistaken for a hang of the decoder.
fn hostile_delivery(bytes: &[u8], cut: Option<usize>, v: ProtocolVersion, ah: &BlockHeader) -> (bool, Option<String>, usize, usize) {
	let t0 = Instant::now();
	let r = hostile_delivery_once(bytes, cut, v, ah);
	if t0.elapsed() > Duration::from_millis(1000) {
		return hostile_delivery_once(bytes, cut, v, ah);
	}
	r
}

fn hostile_delivery_once(bytes: &[u8], cut: Option<usize>, v: ProtocolVersion, ah: &BlockHeader) -> (bool, Option<String>, usize, usize) {
	let (mut w, r) = socket_pair();
	let done = Arc::new(AtomicBool::new(false));
	let d2 = done.clone();
	let ah = ah.clone();
	crate::alloc::reset();
	let h = std::thread::spawn(move || {
		grin_core::global::set_local_chain_type(grin_core::global::ChainTypes::AutomatedTesting);
		let res = std::panic::catch_unwind(std::panic::AssertUnwindSafe(|| {
			let mut codec = Codec::new(v, r);
			let mut n = 0usize;
			loop {
				let (res, _) = codec.read();
				match res {
					Ok(m) => {
						post_decode(&m, &ah);
						if let Message::OutputBitmapSegment(r) = m {
							let _ = r.segment.into_segment();
						}
						n += 1;
						if n > 64 {
							break;
						}
					}
					Err(_) => break,
				}
			}
			n
		}));
		d2.store(true, Ordering::SeqCst);
		match res {
			Ok(n) => (None, n),
			Err(p) => {
				let msg = if let Some(s) = p.downcast_ref::<String>() {
					s.clone()
				} else if let Some(s) = p.downcast_ref::<&str>() {
					s.to_string()
				} else {
					"panic".to_string()
				};
				(Some(msg), 0)
			}
		}
	});
	match cut {
		Some(c) if c > 0 && c < bytes.len() => {
			let _ = w.write_all(&bytes[..c]);
			let _ = w.flush();
			std::thread::yield_now();
			let _ = w.write_all(&bytes[c..]);
		}
		_ => {
			let _ = w.write_all(bytes);
		}
	}
	let _ = w.flush();
	drop(w);
	let t0 = Instant::now();
	while !done.load(Ordering::SeqCst) && t0.elapsed() < Duration::from_millis(10_000) {
		std::thread::yield_now();
	}
	if !done.load(Ordering::SeqCst) {
		return (true, None, 0, 0);
	}
	let (panic, n) = h.join().unwrap_or((Some("join failed".into()), 0));
	let (_peak, max_req) = crate::alloc::stats();
	(false, panic, n, max_req)
}

fn refit_header(frame: &mut Vec<u8>, body_len: u64) {
	if frame.len() >= 11 {
		frame[3..11].copy_from_slice(&body_len.to_be_bytes());
	}
}

pub fn c11_case(tier: &str, seed: u64, case: u64) -> CaseResult {
	let t0 = Instant::now();
	let thorough = tier == "thorough";
	let mut res = CaseResult::new(case, seed);
	let scratch = crate::node::fresh_dir("wire-scratch");
	let mut world = match build_world(seed, 34) {
		Ok(w) => w,
		Err(e) => {
			res.harness_error = Some(format!("wire world: {}", e));
			return res;
		}
	};
	let ah = world
		.builder
		.chain()
		.txhashset_archive_header()
		.unwrap_or(world.genesis.header.clone());
	let mut rng = SimRng::new(seed).fork("hostile");
	let versions = [1u32, 2, 3, 1000];
	let boundary: [u64; 9] = [0, 1, 2, 0xff, 0xffff, 0x1_0000, 0xffff_ffff, 0x1_0000_0000, u64::MAX];
	let mut violation: Option<Violation> = None;
	let budget = if thorough { 12_000 } else { 2_500 };
	'outer: for vnum in versions.iter() {
		let v = ProtocolVersion(*vnum);
		let mut all = corpus(&world, v, &mut rng);
		all.extend(segment_msgs(&world, v, &mut rng));
		all.extend(bitmap_block_msgs(&world));
		all.push(headers_msg(&world, 2, v));
		all.push(archive_msg(&world, 64, v, &mut rng));
		for m in all.iter() {
			let base = frame(m, v, &scratch);
			let body_len = base.len() - 11;
			let limit = doc_limit(m.ty) * 4;
			let mut variants: Vec<(String, Vec<u8>)> = vec![];
			// truncation at every offset (sampled for long frames), then EOF
			let step = (base.len() / 120).max(1);
			let mut o = 0;
			while o < base.len() {
				variants.push((format!("truncate@{}", o), base[..o].to_vec()));
				o += step;
			}
			// length / count fields: 8-, 4- and 2-byte windows set to boundary values
			let n_win = if body_len <= 300 { body_len } else { 200 };
			for k in 0..n_win {
				let off = 11 + if body_len <= 300 { k } else { rng.usize_below(body_len) };
				for (w, vals) in [(8usize, &boundary[..]), (4, &boundary[..7]), (2, &boundary[..5])] {
					if off + w > base.len() {
						continue;
					}
					let val = *rng.pick(vals);
					let mut f = base.clone();
					let be = val.to_be_bytes();
					f[off..off + w].copy_from_slice(&be[8 - w..]);
					variants.push((format!("field{}@{}={:#x}", w * 8, off, val), f));
				}
			}
			// structure-aware: windows that look like a count or length field (small non-zero
			// big-endian value) are set to values around the decoders' own caps (read_multi refuses
			// counts above 1 000 000) while the body stays as short as it was; these are always kept
			let mut priority: Vec<(String, Vec<u8>)> = vec![];
			for off in 11..base.len() {
				for w in [8usize, 4, 2] {
					if off + w > base.len() {
						continue;
					}
					let mut be = [0u8; 8];
					be[8 - w..].copy_from_slice(&base[off..off + w]);
					let cur = u64::from_be_bytes(be);
					if w == 8 && cur > 64 && cur <= 8192 {
						// looks like a byte-length prefix (e.g. 675 for a range proof): announce a little
						// more than is there, with the bytes to satisfy it following in the stream
						for val in [cur + 1, cur + 101] {
							let mut f = base.clone();
							f[off..off + 8].copy_from_slice(&val.to_be_bytes());
							priority.push((format!("length64@{}={}", off, val), f));
						}
						continue;
					}
					if cur == 0 || cur > 64 {
						continue;
					}
					// skip windows that are the tail of a wider small field
					if off > 11 && base[off - 1] == 0 && w < 8 {
						continue;
					}
					let cands: &[u64] = match w {
						8 => &[1_000, 65_535, 100_000, 999_999, 1_000_000, 1_000_001],
						4 => &[1_000, 65_535, 100_000, 1_000_000],
						_ => &[1_000, 65_535],
					};
					let val = *rng.pick(cands);
					let mut f = base.clone();
					let vb = val.to_be_bytes();
					f[off..off + w].copy_from_slice(&vb[8 - w..]);
					priority.push((format!("count{}@{}={}", w * 8, off, val), f.clone()));
					// the same with the stream cut shortly after the first items
					let keep = (off + w + rng.range(1, 900) as usize).min(f.len());
					f.truncate(keep);
					priority.push((format!("count{}@{}={}+truncate", w * 8, off, val), f));
				}
			}
			if priority.len() > 80 {
				rng.shuffle(&mut priority);
				priority.truncate(80);
			}
			// segment responses: block hash (32 bytes), then the identifier (height u8, index u64):
			// extreme heights and odd / huge indices reach the position arithmetic of the
			// stateless segment validation
			if m.name.ends_with("seg") && body_len >= 41 {
				for h in [5u8, 31, 62, 63, 64, 65, 127, 128, 200, 255] {
					for idx in [0u64, 1, 2, 3, (1 << 32) + 1, u64::MAX] {
						let mut f = base.clone();
						f[11 + 32] = h;
						f[11 + 33..11 + 41].copy_from_slice(&idx.to_be_bytes());
						priority.push((format!("segid@h{}i{}", h, idx), f));
					}
				}
				// indices at which the first leaf of the segment sits at 2^63 and beyond: the conversion
				// from leaf index to MMR position doubles it
				for h in [0u8, 1, 2, 5, 9, 11, 13] {
					for idx in [1u64 << (63 - h as u32), (1u64 << (63 - h as u32)) - 1, (1u64 << (63 - h as u32)) + 1, 1u64 << 62, (1u64 << 63) - 1] {
						let mut f = base.clone();
						f[11 + 32] = h;
						f[11 + 33..11 + 41].copy_from_slice(&idx.to_be_bytes());
						priority.push((format!("segid@h{}i{}", h, idx), f));
					}
				}
			}
			// single bytes anywhere in the body set to tiny values: size / bit-width parameters such
			// as a proof's edge_bits are one byte wide and only small values reach their lower guards
			for _ in 0..60 {
				if body_len == 0 {
					break;
				}
				let off = 11 + rng.usize_below(body_len);
				let val = *rng.pick(&[1u8, 2, 7]);
				if base[off] != val {
					let mut f = base.clone();
					f[off] = val;
					priority.push((format!("smallbyte@{}={}", off, val), f));
				}
			}
			// tag / feature bytes swept
			for off in 11..(11 + body_len.min(24)) {
				for val in [0u8, 1, 2, 3, 4, 5, 0x7f, 0x80, 0xfe, 0xff] {
					let mut f = base.clone();
					f[off] = val;
					variants.push((format!("byte@{}={}", off, val), f));
				}
			}
			// random bytes behind a valid frame header
			for _ in 0..6 {
				let l = rng.range(0, (limit.min(4096)).max(1)) as usize;
				let mut f = base[..11].to_vec();
				refit_header(&mut f, l as u64);
				f.extend(rng.bytes(l));
				variants.push((format!("random-body[{}]", l), f));
			}
			// announced length disagrees with what follows
			for l in [0u64, 1, body_len.saturating_sub(1) as u64, body_len as u64 + 1, limit] {
				let mut f = base.clone();
				refit_header(&mut f, l);
				variants.push((format!("len={}", l), f));
			}
			// splice: body prefix of this message, suffix of another
			for _ in 0..4 {
				let other = frame(rng.pick(&all), v, &scratch);
				if other.len() > 12 && base.len() > 12 {
					let a = 11 + rng.usize_below(base.len() - 11);
					let b = 11 + rng.usize_below(other.len() - 11);
					let mut f = base[..a].to_vec();
					f.extend_from_slice(&other[b..]);
					let l = (f.len() - 11) as u64;
					if l <= limit {
						refit_header(&mut f, l);
					}
					variants.push((format!("splice@{}+{}", a, b), f));
				}
			}
			rng.shuffle(&mut variants);
			let n_mutated = all.iter().filter(|x| !x.name.starts_with("bitmapblock-")).count();
			let take = (budget / n_mutated.max(1)).max(40);
			variants.truncate(take);
			if m.name.starts_with("bitmapblock-") {
				// the enumerated block encodings are themselves the mutations: delivered as they are
				variants.clear();
				priority.clear();
				variants.push(("enumerated-bitmap-block".into(), base.clone()));
			}
			res.fault_n("mutation:count-length-smallbyte", priority.len() as u64);
			variants.extend(priority);
			for (what, f) in variants.into_iter() {
				let cut = if rng.chance(1, 4) && f.len() > 1 { Some(1 + rng.usize_below(f.len() - 1)) } else { None };
				let (hung, panic, _n, max_req) = hostile_delivery(&f, cut, v, &ah);
				res.runs += 1;
				res.steps += 1;
				let kind = what.split('@').next().unwrap_or("").split('[').next().unwrap_or("").split('=').next().unwrap_or("").to_string();
				if !kind.starts_with("count") && !kind.starts_with("length") && !kind.starts_with("smallbyte") && !kind.starts_with("segid") {
					res.fault(&format!("mutation:{}", kind));
				}
				res.run_digests.push((fnv64(&f), true));
				if std::env::var("VERIF_DEBUG").is_ok() {
					eprintln!("  c11 v{} {} {} base {:016x} frame {:016x}", vnum, m.name, what, fnv64(&base), fnv64(&f));
				}
				let replay = json!({"engine": "wiresim", "property": "C11", "mode": "hostile", "version": v.0, "stream": hexs(&f), "cut": cut, "base": m.name, "mutation": what});
				// the codec reserves the announced body length (refused above 4x the per-type limit)
				// before reading; everything else must stay within a small multiple of what was
				// actually received plus the decoders' fixed pre-allocations
				let announced = if f.len() >= 11 {
					let mut b8 = [0u8; 8];
					b8.copy_from_slice(&f[3..11]);
					let a = u64::from_be_bytes(b8);
					if a <= limit as u64 {
						a as usize
					} else {
						0
					}
				} else {
					0
				};
				let bound = 2 * announced + 16 * f.len() + (256 << 10);
				if hung {
					violation = Some(viol("C11", &format!("decoder-hung:{}", m.name), format!("v{} {} {}: the reader did not return within 10 s after the peer closed", vnum, m.name, what), replay));
					break 'outer;
				}
				if let Some(p) = panic {
					violation = Some(viol("C11", &format!("decoder-panicked:{}", m.name), format!("v{} {} {}: panic: {}", vnum, m.name, what, p), replay));
					break 'outer;
				}
				if max_req > bound {
					violation = Some(viol("C11", &format!("decoder-over-allocated:{}", m.name), format!("v{} {} {}: a single allocation of {} bytes was requested for {} input bytes (bound {})", vnum, m.name, what, max_req, f.len(), bound), replay));
					break 'outer;
				}
			}
			if res.samples.is_empty() {
				res.samples.push(json!({"base_message": m.name, "version": vnum, "frame_bytes": base.len(), "mutations": ["truncate@k", "field64/32/16@k=boundary", "byte@k=v", "random-body[n]", "len=n", "splice@a+b"]}));
			}
		}
	}
	// API-side decoder named by the property: Merkle proofs from hex. Run in a forked child so that
	// an abort (allocation failure) is observed as an exit status.
	if violation.is_none() {
		violation = merkle_proof_hex_checks(&mut res, &mut rng);
	}
	// bare frame headers announcing enormous bodies, for every type byte including the ones no
	// message uses, through both readers (the codec of an established connection and
	// `read_message` of the handshake); forked so that an abort is an exit status
	if violation.is_none() {
		violation = frame_header_sweep(&mut res, &mut rng);
	}
	if let Some(v) = violation {
		res.violations.push(v);
	}
	world.cleanup();
	let _ = std::fs::remove_dir_all(&scratch);
	res.wall_s = t0.elapsed().as_secs_f64();
	res
}

fn merkle_inputs(rng: &mut SimRng) -> Vec<(String, String)> {
	use grin_core::core::merkle_proof::MerkleProof;
	let mut out: Vec<(String, String)> = vec![];
	let good = MerkleProof {
		mmr_size: 11,
		path: vec![Hash::from_vec(&rng.bytes(32)), Hash::from_vec(&rng.bytes(32))],
	};
	let hexgood = hexs(&ser::ser_vec(&good, ProtocolVersion(1)).unwrap());
	out.push(("valid".into(), hexgood.clone()));
	out.push(("empty".into(), "".into()));
	out.push(("odd-length".into(), hexgood[..hexgood.len() - 1].to_string()));
	out.push(("non-hex-char".into(), format!("zz{}", &hexgood[2..])));
	out.push(("non-ascii".into(), format!("a\u{e9}b{}", &hexgood[4..])));
	for (name, path_len) in [("path-len-2^32", 1u64 << 32), ("path-len-2^40", 1u64 << 40), ("path-len-2^60", 1u64 << 60), ("path-len-max", u64::MAX)] {
		let mut b = vec![];
		b.extend_from_slice(&11u64.to_be_bytes());
		b.extend_from_slice(&path_len.to_be_bytes());
		out.push((name.into(), hexs(&b)));
	}
	for k in 0..hexgood.len() / 2 {
		out.push((format!("truncated@{}", k), hexgood[..2 * k].to_string()));
	}
	for _ in 0..40 {
		let n = rng.range(0, 80) as usize;
		out.push(("random".into(), hexs(&rng.bytes(n))));
	}
	out
}

fn merkle_proof_hex_checks(res: &mut CaseResult, rng: &mut SimRng) -> Option<Violation> {
	use grin_core::core::merkle_proof::MerkleProof;
	let inputs = merkle_inputs(rng);
	for (name, hex) in inputs {
		res.runs += 1;
		res.fault(&format!("merkle-hex:{}", name.split('@').next().unwrap_or("")));
		let pid = unsafe { libc::fork() };
		if pid == 0 {
			// child: bound the address space so that a huge allocation fails fast
			let lim = libc::rlimit { rlim_cur: 4 << 30, rlim_max: 4 << 30 };
			unsafe { libc::setrlimit(libc::RLIMIT_AS, &lim) };
			let r = std::panic::catch_unwind(|| {
				let _ = MerkleProof::from_hex(&hex);
			});
			unsafe { libc::_exit(if r.is_ok() { 0 } else { 101 }) }
		}
		let mut status: libc::c_int = 0;
		unsafe { libc::waitpid(pid, &mut status, 0) };
		let replay = json!({"engine": "wiresim", "property": "C11", "mode": "merkle-hex", "name": name, "hex": hex});
		if libc::WIFEXITED(status) {
			let code = libc::WEXITSTATUS(status);
			if code == 101 {
				return Some(viol("C11", &format!("merkle-from-hex-panicked:{}", name.split('@').next().unwrap_or("")), format!("MerkleProof::from_hex panicked on input '{}' ({} hex chars)", name, hex.len()), replay));
			}
		} else {
			return Some(viol("C11", &format!("merkle-from-hex-aborted:{}", name.split('@').next().unwrap_or("")), format!("MerkleProof::from_hex killed the process (signal {}) on input '{}' ({} hex chars): allocation driven by the announced path length", libc::WTERMSIG(status), name, hex.len()), replay));
		}
	}
	None
}

/// One bare frame header in a forked child. Returns None if the reader returned (with a message or
/// an error) without panicking, aborting, hanging or asking for a large allocation.
fn frame_header_child(ty: u8, len: u64, path: &str, trailer: &[u8]) -> Option<String> {
	let mut f = vec![];
	f.extend_from_slice(&magic());
	f.push(ty);
	f.extend_from_slice(&len.to_be_bytes());
	f.extend_from_slice(trailer);
	let path_codec = path == "codec";
	let pid = unsafe { libc::fork() };
	if pid == 0 {
		let lim = libc::rlimit { rlim_cur: 4 << 30, rlim_max: 4 << 30 };
		unsafe { libc::setrlimit(libc::RLIMIT_AS, &lim) };
		grin_core::global::set_local_chain_type(grin_core::global::ChainTypes::AutomatedTesting);
		let (mut w, mut r) = socket_pair();
		let _ = w.write_all(&f);
		let _ = w.flush();
		drop(w);
		crate::alloc::reset();
		let res = std::panic::catch_unwind(std::panic::AssertUnwindSafe(|| {
			if path_codec {
				let mut codec = Codec::new(ProtocolVersion::local(), r);
				for _ in 0..4 {
					let (res, _) = codec.read();
					if res.is_err() {
						break;
					}
				}
			} else {
				let _ = r.set_read_timeout(Some(Duration::from_millis(2000)));
				let _: Result<grin_p2p::msg::Hand, _> = msg::read_message(&mut r, ProtocolVersion::local(), Type::Hand);
			}
		}));
		let (_peak, max_req) = crate::alloc::stats();
		let code = if res.is_err() {
			101
		} else if max_req > (1 << 20) {
			103
		} else {
			0
		};
		unsafe { libc::_exit(code) }
	}
	let mut status: libc::c_int = 0;
	let t0 = Instant::now();
	loop {
		let r = unsafe { libc::waitpid(pid, &mut status, libc::WNOHANG) };
		if r == pid {
			break;
		}
		if t0.elapsed() > Duration::from_secs(20) {
			unsafe { libc::kill(pid, libc::SIGKILL) };
			unsafe { libc::waitpid(pid, &mut status, 0) };
			return Some("hung".into());
		}
		std::thread::sleep(Duration::from_micros(200));
	}
	if libc::WIFEXITED(status) {
		match libc::WEXITSTATUS(status) {
			0 => None,
			101 => Some("panicked".into()),
			103 => Some("over-allocated".into()),
			c => Some(format!("exit{}", c)),
		}
	} else {
		Some(format!("aborted(signal {})", libc::WTERMSIG(status)))
	}
}

fn frame_header_sweep(res: &mut CaseResult, rng: &mut SimRng) -> Option<Violation> {
	let trailer = rng.bytes(40);
	let mut types: Vec<u8> = (0u8..=40).collect();
	types.extend_from_slice(&[99, 127, 128, 200, 254, 255]);
	for ty in types {
		let known = <Type as num_from::FromU8>::from(ty).is_some();
		let limit = doc_limit(ty) * 4;
		for len in [limit + 1, 1u64 << 31, 1u64 << 32, 1u64 << 40, 1u64 << 62, 1u64 << 63, u64::MAX - 7, u64::MAX] {
			for path in ["codec", "read_message"] {
				res.runs += 1;
				res.steps += 1;
				res.fault(&format!("huge_frame_header:{}", path));
				res.run_digests.push((fnv64(format!("hdrsweep:{}:{}:{}", ty, len, path).as_bytes()), true));
				if let Some(how) = frame_header_child(ty, len, path, &trailer) {
					let replay = json!({"engine": "wiresim", "property": "C11", "mode": "frame-header", "type": ty, "len": len.to_string(), "path": path, "trailer": hexs(&trailer)});
					return Some(viol(
						"C11",
						&format!("frame-header-{}:{}", how.split('(').next().unwrap_or(""), if known { format!("type{}", ty) } else { "unknown".into() }),
						format!("an 11 byte frame header of type {} announcing {} bytes made the {} reader: {} (it must answer with an error and ask for no memory)", ty, len, path, how),
						replay,
					));
				}
			}
		}
	}
	None
}

pub fn replay_c11(rp: &Value) -> Result<Option<Violation>, String> {
	match rp["mode"].as_str().unwrap_or("") {
		"hostile" => {
			let mut w = build_world(1, 24)?;
			let ah = w.builder.chain().txhashset_archive_header().unwrap_or(w.genesis.header.clone());
			let v = ProtocolVersion(rp["version"].as_u64().unwrap_or(1) as u32);
			let f = unhex(rp["stream"].as_str().unwrap_or(""));
			let cut = rp["cut"].as_u64().map(|x| x as usize);
			let (hung, panic, n, max_req) = hostile_delivery(&f, cut, v, &ah);
			w.cleanup();
			println!("  hung={} panic={:?} messages={} max single allocation={}", hung, panic, n, max_req);
			if hung || panic.is_some() {
				return Ok(Some(viol("C11", "replayed", format!("hung={} panic={:?}", hung, panic), rp.clone())));
			}
			Ok(None)
		}
		"merkle-hex" => {
			let mut res = CaseResult::new(0, 0);
			let mut rng = SimRng::new(1);
			Ok(merkle_proof_hex_checks(&mut res, &mut rng))
		}
		"frame-header" => {
			let ty = rp["type"].as_u64().unwrap_or(0) as u8;
			let len: u64 = rp["len"].as_str().unwrap_or("0").parse().unwrap_or(0);
			let path = rp["path"].as_str().unwrap_or("codec");
			let trailer = unhex(rp["trailer"].as_str().unwrap_or(""));
			let how = frame_header_child(ty, len, path, &trailer);
			println!("  type {} len {} path {}: {:?}", ty, len, path, how);
			Ok(how.map(|h| viol("C11", "replayed", h, rp.clone())))
		}
		m => Err(format!("unknown C11 replay mode {}", m)),
	}
}
