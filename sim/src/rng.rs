//! Seeded PRNG: xoshiro256** seeded through splitmix64. Every choice of a run
//! is drawn from one of these (or from a sub-stream forked by label).

#[derive(Clone, Debug)]
pub struct SimRng {
	s: [u64; 4],
	pub draws: u64,
}

fn splitmix64(x: &mut u64) -> u64 {
	*x = x.wrapping_add(0x9E37_79B9_7F4A_7C15);
	let mut z = *x;
	z = (z ^ (z >> 30)).wrapping_mul(0xBF58_476D_1CE4_E5B9);
	z = (z ^ (z >> 27)).wrapping_mul(0x94D0_49BB_1331_11EB);
	z ^ (z >> 31)
}

pub fn fnv64(data: &[u8]) -> u64 {
	let mut h: u64 = 0xcbf2_9ce4_8422_2325;
	for b in data {
		h ^= *b as u64;
		h = h.wrapping_mul(0x0000_0100_0000_01B3);
	}
	h
}

impl SimRng {
	pub fn new(seed: u64) -> SimRng {
		let mut x = seed;
		let s = [
			splitmix64(&mut x),
			splitmix64(&mut x),
			splitmix64(&mut x),
			splitmix64(&mut x),
		];
		SimRng { s, draws: 0 }
	}

	/// Independent sub-stream derived from this generator's seed state and a label.
	/// Does not advance `self`.
	pub fn fork(&self, label: &str) -> SimRng {
		let mut x = self.s[0] ^ self.s[2].rotate_left(17) ^ fnv64(label.as_bytes());
		let _ = splitmix64(&mut x);
		SimRng::new(x)
	}

	pub fn next_u64(&mut self) -> u64 {
		self.draws += 1;
		let result = self.s[1].wrapping_mul(5).rotate_left(7).wrapping_mul(9);
		let t = self.s[1] << 17;
		self.s[2] ^= self.s[0];
		self.s[3] ^= self.s[1];
		self.s[1] ^= self.s[2];
		self.s[0] ^= self.s[3];
		self.s[2] ^= t;
		self.s[3] = self.s[3].rotate_left(45);
		result
	}

	/// Uniform in [0, n). n must be > 0.
	pub fn below(&mut self, n: u64) -> u64 {
		assert!(n > 0);
		// multiply-shift, bias negligible for our ranges
		((self.next_u64() as u128 * n as u128) >> 64) as u64
	}

	pub fn usize_below(&mut self, n: usize) -> usize {
		self.below(n as u64) as usize
	}

	/// Uniform in [lo, hi] inclusive.
	pub fn range(&mut self, lo: u64, hi: u64) -> u64 {
		assert!(hi >= lo);
		lo + self.below(hi - lo + 1)
	}

	/// True with probability num/den.
	pub fn chance(&mut self, num: u64, den: u64) -> bool {
		self.below(den) < num
	}

	pub fn pick<'a, T>(&mut self, v: &'a [T]) -> &'a T {
		&v[self.usize_below(v.len())]
	}

	pub fn shuffle<T>(&mut self, v: &mut [T]) {
		for i in (1..v.len()).rev() {
			let j = self.usize_below(i + 1);
			v.swap(i, j);
		}
	}

	pub fn bytes(&mut self, n: usize) -> Vec<u8> {
		let mut out = Vec::with_capacity(n);
		while out.len() < n {
			let x = self.next_u64().to_le_bytes();
			for b in x.iter() {
				if out.len() < n {
					out.push(*b);
				}
			}
		}
		out
	}
}

pub fn hex(b: &[u8]) -> String {
	let mut s = String::with_capacity(b.len() * 2);
	for x in b {
		s.push_str(&format!("{:02x}", x));
	}
	s
}
