//! E4 crashsim: process death at every labelled durable step of a chain operation.
//!
//! For each scenario the parent builds a base directory (chain fed a prefix, then closed), runs the
//! operation once in a forked child that records the crash points it passes, and then, for every
//! point n, forks a child that copies the base directory, opens the chain, performs the operation
//! and `_exit`s at point n. The parent reopens the surviving directory and applies the oracle.
//! Fault model: process death (what was written before the point survives in the page cache).

use crate::node::{copy_dir, fresh_dir, Node, StateDigest};
use crate::rng::SimRng;
use crate::sim::{CaseResult, Violation};
use crate::world::{ckey, OutInfo, World, WorldCfg};
use grin_core::core::hash::Hashed;
use grin_core::core::{BlockHeader, FeeFields, KernelFeatures};
use grin_core::libtx;
use grin_util::verif;
use serde_derive::{Deserialize, Serialize};
use serde_json::{json, Value};
use std::collections::BTreeSet;
use std::path::{Path, PathBuf};
use std::time::Instant;

#[derive(Serialize, Deserialize, Clone, Debug, PartialEq)]
pub enum COp {
	Block(usize),
	Header(usize),
	HeaderBatch(Vec<usize>),
	Compact,
}

#[derive(Clone, Debug)]
pub struct Scenario {
	pub kind: String,
	pub age: String,
	/// blocks fed in order (process_block) to build the base directory
	pub base: Vec<usize>,
	/// compact() the base before closing it
	pub base_compact: bool,
	pub ops: Vec<COp>,
	/// what sync would re-deliver afterwards (headers then blocks, parents first)
	pub redeliver: Vec<COp>,
	pub old_head: usize,
	pub new_head: usize,
	/// tip of the continuation appended to `redeliver` (blocks on top of the scenario's final
	/// head): what an uninterrupted node must end on
	pub cont_tip: Option<usize>,
}

fn perform(node: &Node, world: &World, op: &COp) -> String {
	let c = node.chain();
	let r = match op {
		COp::Block(id) => c
			.process_block(world.blocks[*id].block.clone(), world.opts)
			.map(|_| ()),
		COp::Header(id) => c.process_block_header(&world.blocks[*id].block.header, world.opts),
		COp::HeaderBatch(ids) => {
			let hs: Vec<BlockHeader> = ids.iter().map(|i| world.blocks[*i].block.header.clone()).collect();
			match c.header_head() {
				Ok(sh) => c.sync_block_headers(&hs, sh, world.opts).map(|_| ()),
				Err(e) => Err(e),
			}
		}
		COp::Compact => c.compact(),
	};
	match r {
		Ok(()) => "ok".into(),
		Err(e) => format!("{:?}", e),
	}
}

fn thread_count() -> usize {
	std::fs::read_to_string("/proc/self/status")
		.ok()
		.and_then(|s| {
			s.lines()
				.find(|l| l.starts_with("Threads:"))
				.and_then(|l| l.split_whitespace().nth(1).map(|x| x.parse::<usize>().unwrap_or(1)))
		})
		.unwrap_or(1)
}

/// Fork a child that opens `work`, performs `ops` and either records labels (crash_at == 0) or
/// dies at the crash_at-th crash point. Returns (exit code, labels if recorded).
fn run_child(world: &World, work: &Path, ops: &[COp], crash_at: i64) -> Result<(i32, Vec<String>), String> {
	// wait for transient helper threads (LMDB resize) to finish before forking
	let mut spins = 0;
	while thread_count() > 1 && spins < 500 {
		std::thread::sleep(std::time::Duration::from_millis(2));
		spins += 1;
	}
	let labels_file = work.join("verif-labels.txt");
	let pid = unsafe { libc::fork() };
	if pid < 0 {
		return Err("fork failed".into());
	}
	if pid == 0 {
		// child
		let code = std::panic::catch_unwind(std::panic::AssertUnwindSafe(|| {
			let node = match Node::open_at(work.to_path_buf(), world.genesis.clone(), false) {
				Ok(n) => n,
				Err(_) => return 3,
			};
			if crash_at == 0 {
				verif::start_recording();
			} else {
				verif::set_crash_at(crash_at);
			}
			for op in ops {
				let _ = perform(&node, world, op);
			}
			if crash_at == 0 {
				let labels = verif::take_labels();
				let _ = std::fs::write(&labels_file, labels.join("\n"));
			}
			verif::set_crash_at(-1);
			drop(node);
			0
		}))
		.unwrap_or(4);
		unsafe { libc::_exit(code) }
	}
	let mut status: libc::c_int = 0;
	let r = unsafe { libc::waitpid(pid, &mut status, 0) };
	if r < 0 {
		return Err("waitpid failed".into());
	}
	let code = if libc::WIFEXITED(status) {
		libc::WEXITSTATUS(status)
	} else {
		-(libc::WTERMSIG(status) as i32)
	};
	let labels = if crash_at == 0 {
		let l = std::fs::read_to_string(&labels_file)
			.map(|s| s.lines().map(|x| x.to_string()).collect())
			.unwrap_or_default();
		let _ = std::fs::remove_file(&labels_file);
		l
	} else {
		vec![]
	};
	Ok((code, labels))
}

/// Fork a child that only opens `work` (Chain::init, i.e. the startup recovery) and either records the
/// crash points it passes (crash_at == 0) or dies at the crash_at-th one.
fn run_child_init(world: &World, work: &Path, crash_at: i64) -> Result<(i32, Vec<String>), String> {
	let mut spins = 0;
	while thread_count() > 1 && spins < 500 {
		std::thread::sleep(std::time::Duration::from_millis(2));
		spins += 1;
	}
	let labels_file = work.join("verif-labels.txt");
	let pid = unsafe { libc::fork() };
	if pid < 0 {
		return Err("fork failed".into());
	}
	if pid == 0 {
		let code = std::panic::catch_unwind(std::panic::AssertUnwindSafe(|| {
			if crash_at == 0 {
				verif::start_recording();
			} else {
				verif::set_crash_at(crash_at);
			}
			let node = Node::open_at(work.to_path_buf(), world.genesis.clone(), false);
			if crash_at == 0 {
				let labels = verif::take_labels();
				let _ = std::fs::write(&labels_file, labels.join("\n"));
			}
			verif::set_crash_at(-1);
			match node {
				Ok(n) => {
					drop(n);
					0
				}
				Err(_) => 3,
			}
		}))
		.unwrap_or(4);
		unsafe { libc::_exit(code) }
	}
	let mut status: libc::c_int = 0;
	let r = unsafe { libc::waitpid(pid, &mut status, 0) };
	if r < 0 {
		return Err("waitpid failed".into());
	}
	let code = if libc::WIFEXITED(status) { libc::WEXITSTATUS(status) } else { -(libc::WTERMSIG(status) as i32) };
	let labels = if crash_at == 0 {
		let l = std::fs::read_to_string(&labels_file).map(|s| s.lines().map(|x| x.to_string()).collect()).unwrap_or_default();
		let _ = std::fs::remove_file(&labels_file);
		l
	} else {
		vec![]
	};
	Ok((code, labels))
}

fn build_base(world: &World, sc: &Scenario, tag: &str) -> Result<PathBuf, String> {
	let dir = fresh_dir(tag);
	let mut node = Node::open_at(dir.clone(), world.genesis.clone(), false).map_err(|e| format!("base init: {:?}", e))?;
	for id in &sc.base {
		node.chain()
			.process_block(world.blocks[*id].block.clone(), world.opts)
			.map_err(|e| format!("base block #{}: {:?}", id, e))?;
	}
	if sc.base_compact {
		node.chain().compact().map_err(|e| format!("base compact: {:?}", e))?;
	}
	node.stop();
	Ok(dir)
}

fn viol(key: String, what: String) -> Violation {
	Violation {
		key,
		what,
		replay: Value::Null,
	}
}

/// Apply `redeliver` to a node; duplicates and orphans are expected results.
fn redeliver(node: &Node, world: &World, sc: &Scenario) {
	for op in &sc.redeliver {
		let _ = perform(node, world, op);
	}
}

/// The state an uninterrupted node reaches: base + ops + redelivery.
fn expected_final(world: &World, sc: &Scenario, base: &Path, tag: &str) -> Result<StateDigest, String> {
	let dir = fresh_dir(tag);
	copy_dir(base, &dir).map_err(|e| format!("{}", e))?;
	let mut node = Node::open_at(dir, world.genesis.clone(), false).map_err(|e| format!("twin init: {:?}", e))?;
	for op in &sc.ops {
		let r = perform(&node, world, op);
		if r != "ok" {
			node.destroy();
			return Err(format!("uninterrupted twin: op {:?} failed: {}", op, r));
		}
	}
	redeliver(&node, world, sc);
	let d = node.digest().map_err(|e| format!("{:?}", e));
	node.destroy();
	if let (Ok(d), Some(t)) = (&d, sc.cont_tip) {
		if world.id_of_hash(&d.head) != Some(t) {
			return Err(format!("uninterrupted twin did not reach the continuation tip #{}: {}", t, d.short()));
		}
	}
	d
}

/// Oracle on the directory a killed process left behind.
fn check_survivor(
	world: &World,
	sc: &Scenario,
	dir: &Path,
	label: &str,
	point: usize,
	expect: &StateDigest,
	res: &mut CaseResult,
) -> Option<Violation> {
	let key = |class: &str| format!("C09|{}|{}|{}|{}", class, sc.kind, label, sc.age);
	let ctx = format!("scenario {} (spends {}), killed at crash point {} '{}'", sc.kind, sc.age, point, label);
	let mut node = match Node::open_at(dir.to_path_buf(), world.genesis.clone(), false) {
		Ok(n) => n,
		Err(e) => {
			return Some(viol(
				key("reopen-failed"),
				format!("{}: Chain::init on the surviving directory failed: {:?}", ctx, e),
			))
		}
	};
	let d = match node.digest() {
		Ok(d) => d,
		Err(e) => {
			node.stop();
			return Some(viol(key("digest-failed"), format!("{}: {:?}", ctx, e)));
		}
	};
	// head is the old head, the new head or an ancestor of either
	let head_id = world.id_of_hash(&d.head);
	let ok_head = match head_id {
		Some(h) => world.is_ancestor(h, sc.old_head) || world.is_ancestor(h, sc.new_head),
		None => false,
	};
	if !ok_head {
		node.stop();
		return Some(viol(
			key("head-not-on-accepted-chain"),
			format!("{}: reopened head {}@{} is not the old head, the new head or an ancestor", ctx, d.head, d.head_height),
		));
	}
	let head_id = head_id.unwrap();
	if head_id != sc.old_head && head_id != sc.new_head && sc.kind == "plain-extension" && sc.age == "none" {
		node.stop();
		return Some(viol(
			key("regressed-below-old-head-without-spends"),
			format!("{}: the interrupted block spends nothing, yet the node reopened at #{} (h{}), below the old head #{}: committed blocks were dropped without need", ctx, head_id, d.head_height, sc.old_head),
		));
	}
	if head_id != sc.old_head && head_id != sc.new_head {
		res.probe("reopened_on_ancestor");
	} else if head_id == sc.new_head && sc.new_head != sc.old_head {
		res.probe("reopened_on_new_head");
	} else {
		res.probe("reopened_on_old_head");
	}
	if let Err(e) = node.chain().validate(false) {
		node.stop();
		return Some(viol(
			key("reopened-state-invalid"),
			format!("{}: reopened at #{} (h{}) but Chain::validate(false) fails: {:?}", ctx, head_id, d.head_height, e),
		));
	}
	// unspent view equals the ledger of the reopened head
	let commits = world.all_commits();
	match node.unspent_view(&commits) {
		Ok(view) => {
			let ledger = &world.blocks[head_id].ledger;
			let got: BTreeSet<_> = view.keys().cloned().collect();
			let want: BTreeSet<_> = ledger.keys().cloned().collect();
			if got != want {
				node.stop();
				return Some(viol(
					key("reopened-utxo-differs"),
					format!("{}: reopened at #{} (h{}): unspent set has {} entries, replayed ledger {} ({} missing, {} extra)", ctx, head_id, d.head_height, got.len(), want.len(), want.difference(&got).count(), got.difference(&want).count()),
				));
			}
		}
		Err(e) => {
			node.stop();
			return Some(viol(key("get-unspent-error"), format!("{}: {:?}", ctx, e)));
		}
	}
	// a second reopen gives the same state (no leftovers that change behaviour)
	if let Err(e) = node.restart() {
		node.stop();
		return Some(viol(key("second-reopen-failed"), format!("{}: second Chain::init failed: {:?}", ctx, e)));
	}
	match node.digest() {
		Ok(d2) if d2 == d => {}
		other => {
			node.stop();
			return Some(viol(
				key("second-reopen-differs"),
				format!("{}: second reopen gives {:?}, first {}", ctx, other.map(|x| x.short()), d.short()),
			));
		}
	}
	// re-deliver as sync would: everything above the reopened head (the recovery path may have
	// dropped blocks), then the interrupted input; must converge to the uninterrupted twin
	for id in &sc.base {
		if world.blocks[*id].height > d.head_height {
			let _ = perform(&node, world, &COp::Block(*id));
		}
	}
	for op in &sc.ops {
		let _ = perform(&node, world, op);
	}
	redeliver(&node, world, sc);
	let fin = node.digest();
	let valid = node.chain().validate(false);
	node.stop();
	match fin {
		Ok(f) => {
			if &f != expect {
				return Some(viol(
					key("no-convergence-after-redelivery"),
					format!("{}: after re-delivering the interrupted input the node is at {} but an uninterrupted node is at {}", ctx, f.short(), expect.short()),
				));
			}
		}
		Err(e) => return Some(viol(key("digest-failed"), format!("{}: {:?}", ctx, e))),
	}
	if let Err(e) = valid {
		return Some(viol(
			key("invalid-after-redelivery"),
			format!("{}: state after re-delivery fails validate(false): {:?}", ctx, e),
		));
	}
	None
}

/// Enumerate all crash points of one scenario.
pub fn run_scenario(world: &World, sc: &Scenario, tag: &str, res: &mut CaseResult, only_point: Option<usize>, stride: usize) -> Result<Vec<Violation>, String> {
	run_scenario2(world, sc, tag, res, only_point, stride, 0, None)
}

/// `double_budget`: for how many first-level crash points whose survivor needs real recovery work
/// the startup recovery itself is killed at every one of *its* crash points (crash during recovery).
pub fn run_scenario2(world: &World, sc: &Scenario, tag: &str, res: &mut CaseResult, only_point: Option<usize>, stride: usize, double_budget: usize, only_second: Option<usize>) -> Result<Vec<Violation>, String> {
	let base = build_base(world, sc, &format!("{}-base", tag))?;
	let expect = expected_final(world, sc, &base, &format!("{}-twin", tag))?;
	// crash points of a startup on a cleanly closed directory: the baseline a recovery is compared with
	let clean_init: Vec<String> = {
		let work = fresh_dir(&format!("{}-cleaninit", tag));
		copy_dir(&base, &work).map_err(|e| format!("{}", e))?;
		let (_, l) = run_child_init(world, &work, 0)?;
		let _ = std::fs::remove_dir_all(&work);
		l
	};
	let mut double_left = double_budget;
	// counting run
	let work = fresh_dir(&format!("{}-count", tag));
	copy_dir(&base, &work).map_err(|e| format!("{}", e))?;
	let (code, labels) = run_child(world, &work, &sc.ops, 0)?;
	let _ = std::fs::remove_dir_all(&work);
	if code != 0 {
		let _ = std::fs::remove_dir_all(&base);
		return Err(format!("counting child exited with {}", code));
	}
	*res.extra.entry("crash_points_total".into()).or_insert(json!(0)) = json!(res.extra.get("crash_points_total").and_then(|v| v.as_u64()).unwrap_or(0) + labels.len() as u64);
	let mut out = vec![];
	let mut seen_keys = BTreeSet::new();
	// qualify each label with the last structural step before it, so that e.g. an append-only file
	// flush of the header MMR and one of the output MMR are different crash windows
	let mut phase = "start".to_string();
	let mut qualified: Vec<String> = vec![];
	for l in &labels {
		qualified.push(format!("{}/{}", phase, l));
		if l.starts_with("ext:") || l.starts_with("hext:") || l.starts_with("chain:") || l.starts_with("compact:") || l.starts_with("lmdb:") {
			phase = l.clone();
		}
	}
	let labels = qualified;
	for (i, label) in labels.iter().enumerate() {
		let n = i + 1;
		if let Some(p) = only_point {
			if p != n {
				continue;
			}
		} else if stride > 1 && n % stride != 0 && n != labels.len() {
			continue;
		}
		let work = fresh_dir(&format!("{}-p{}", tag, n));
		copy_dir(&base, &work).map_err(|e| format!("{}", e))?;
		let (code, _) = run_child(world, &work, &sc.ops, n as i64)?;
		if code != verif::CRASH_EXIT_CODE {
			let _ = std::fs::remove_dir_all(&work);
			let _ = std::fs::remove_dir_all(&base);
			return Err(format!("child for crash point {} ('{}') exited with {} instead of dying there (schedule of crash points not deterministic?)", n, label, code));
		}
		res.runs += 1;
		res.steps += 1;
		res.fault(&format!("kill@{}", label));
		*res.extra.entry("crash_points_enumerated".into()).or_insert(json!(0)) = json!(res.extra.get("crash_points_enumerated").and_then(|v| v.as_u64()).unwrap_or(0) + 1);
		// keep a copy of what the killed process left behind for the crash-during-recovery pass
		let snap = if double_left > 0 || only_second.is_some() {
			let d = fresh_dir(&format!("{}-p{}snap", tag, n));
			copy_dir(&work, &d).map_err(|e| format!("{}", e))?;
			Some(d)
		} else {
			None
		};
		let v = if only_second.is_some() { None } else { check_survivor(world, sc, &work, label, n, &expect, res) };
		let _ = std::fs::remove_dir_all(&work);
		if let (None, Some(snap)) = (&v, &snap) {
			// second level: kill the recovery of this survivor at each of its own crash points
			let cnt = fresh_dir(&format!("{}-p{}icount", tag, n));
			copy_dir(snap, &cnt).map_err(|e| format!("{}", e))?;
			let (_, init_labels) = run_child_init(world, &cnt, 0)?;
			let _ = std::fs::remove_dir_all(&cnt);
			if init_labels != clean_init || only_second.is_some() {
				double_left = double_left.saturating_sub(1);
				res.probe("recovery_with_work_found");
				// long recoveries (a walk back over many blocks) are sampled evenly
				let cap = if double_budget > 3 { 60 } else { 24 };
				let stride2 = (init_labels.len() + cap - 1) / cap;
				for (j, l2) in init_labels.iter().enumerate() {
					let m = j + 1;
					if let Some(o) = only_second {
						if o != m {
							continue;
						}
					} else if stride2 > 1 && m % stride2 != 0 && m != init_labels.len() {
						continue;
					}
					let w2 = fresh_dir(&format!("{}-p{}i{}", tag, n, m));
					copy_dir(snap, &w2).map_err(|e| format!("{}", e))?;
					let (code, _) = run_child_init(world, &w2, m as i64)?;
					if code != verif::CRASH_EXIT_CODE {
						let _ = std::fs::remove_dir_all(&w2);
						continue;
					}
					res.runs += 1;
					res.steps += 1;
					res.fault(&format!("kill-during-recovery@{}", l2));
					res.probe("killed_during_recovery");
					let label2 = format!("{}+init:{}", label, l2);
					let v2 = check_survivor(world, sc, &w2, &label2, n, &expect, res);
					let _ = std::fs::remove_dir_all(&w2);
					res.run_digests.push((crate::rng::fnv64(format!("{}:{}:{}:{}:{}:{}", world.seed, sc.kind, sc.age, n, m, label2).as_bytes()), true));
					if let Some(mut v2) = v2 {
						if seen_keys.insert(v2.key.clone()) {
							v2.replay = json!({
								"engine": "crashsim",
								"property": "C09",
								"scenario_kind": sc.kind,
								"scenario_age": sc.age,
								"crash_point": n,
								"second_crash_point": m,
								"label": label2,
								"ops": serde_json::to_value(&sc.ops).unwrap(),
							});
							out.push(v2);
						}
					}
				}
			}
		}
		if let Some(snap) = &snap {
			let _ = std::fs::remove_dir_all(snap);
		}
		res.run_digests.push((crate::rng::fnv64(format!("{}:{}:{}:{}:{}", world.seed, sc.kind, sc.age, n, label).as_bytes()), true));
		if let Some(mut v) = v {
			if seen_keys.insert(v.key.clone()) {
				v.replay = json!({
					"engine": "crashsim",
					"property": "C09",
					"scenario_kind": sc.kind,
					"scenario_age": sc.age,
					"crash_point": n,
					"label": label,
					"ops": serde_json::to_value(&sc.ops).unwrap(),
				});
				out.push(v);
			}
		}
	}
	let _ = std::fs::remove_dir_all(&base);
	Ok(out)
}

// ------------------------------------------------------------------------------------------
// world and scenarios

fn extend_with_spend(world: &mut World, parent: usize, age: &str, tail_height: u64) -> Option<usize> {
	world.extend_with_spend(parent, age, tail_height)
}

pub struct CrashWorld {
	pub world: World,
	pub scenarios: Vec<Scenario>,
}

pub fn build(seed: u64, long: bool) -> Result<CrashWorld, String> {
	let mut r = SimRng::new(seed).fork("cfg");
	let mut cfg = WorldCfg::draw(&mut r, true);
	cfg.free_difficulty = false;
	cfg.nrd = false;
	cfg.branches = 0;
	cfg.tx_pct = if long { 30 } else { 75 };
	cfg.max_txs = 2;
	cfg.trunk = if long { r.range(84, 90) } else { r.range(12, 22) };
	let mut w = World::new(seed, cfg, "C09-w");
	// trunk
	let mut tip = 0usize;
	let trunk_len = w.cfg.trunk;
	let mut trunk = vec![];
	for _ in 0..trunk_len {
		tip = w.extend(tip, 0)?;
		trunk.push(tip);
	}
	let mut scenarios = vec![];
	let l = trunk.len();
	if !long {
		// side branch forking k blocks below the tip, extended until it overtakes
		let k = r.range(1, 4) as usize;
		let fp = trunk[l - 1 - k];
		let mut side = vec![];
		let mut p = fp;
		let target = w.blocks[tip].total_difficulty;
		let mut guard = 0;
		while w.blocks[p].total_difficulty <= target && guard < 12 {
			p = w.extend(p, 1)?;
			side.push(p);
			guard += 1;
		}
		if w.blocks[p].total_difficulty <= target {
			return Err("side branch did not overtake".into());
		}
		let m = side.len();
		// S1 plain extension (the trunk tip itself) and age-classed spends
		scenarios.push(Scenario {
			kind: "plain-extension".into(),
			age: "as-drawn".into(),
			base: trunk[..l - 1].to_vec(),
			base_compact: false,
			ops: vec![COp::Block(trunk[l - 1])],
			redeliver: vec![],
			old_head: trunk[l - 2],
			new_head: trunk[l - 1],
			cont_tip: None,
		});
		for age in ["recent", "pre-hf3"] {
			if let Some(x) = extend_with_spend(&mut w, tip, age, 0) {
				scenarios.push(Scenario {
					kind: "plain-extension".into(),
					age: age.into(),
					base: trunk.clone(),
					base_compact: false,
					ops: vec![COp::Block(x)],
					redeliver: vec![],
					old_head: tip,
					new_head: x,
					cont_tip: None,
				});
			}
		}
		// a block that spends nothing: whatever the kill point, nothing was removed from the leaf
		// sets, so the recovery has no reason to fall back below the old head
		if let Ok(x) = w.extend_empty(tip, 0) {
			scenarios.push(Scenario {
				kind: "plain-extension".into(),
				age: "none".into(),
				base: trunk.clone(),
				base_compact: false,
				ops: vec![COp::Block(x)],
				redeliver: vec![],
				old_head: tip,
				new_head: x,
				cont_tip: None,
			});
		}
		// S7 header first, then the block
		scenarios.push(Scenario {
			kind: "header-then-block".into(),
			age: "as-drawn".into(),
			base: trunk[..l - 1].to_vec(),
			base_compact: false,
			ops: vec![COp::Header(trunk[l - 1]), COp::Block(trunk[l - 1])],
			redeliver: vec![],
			old_head: trunk[l - 2],
			new_head: trunk[l - 1],
			cont_tip: None,
		});
		// S2 fork block that does not win
		scenarios.push(Scenario {
			kind: "fork-block".into(),
			age: "as-drawn".into(),
			base: trunk.clone(),
			base_compact: false,
			ops: vec![COp::Block(side[0])],
			redeliver: vec![],
			old_head: tip,
			new_head: tip,
			cont_tip: None,
		});
		// S3 reorg with spends on both sides
		let mut base = trunk.clone();
		base.extend_from_slice(&side[..m - 1]);
		scenarios.push(Scenario {
			kind: "reorg".into(),
			age: "as-drawn".into(),
			base,
			base_compact: false,
			ops: vec![COp::Block(side[m - 1])],
			redeliver: side.iter().map(|i| COp::Block(*i)).collect(),
			old_head: tip,
			new_head: side[m - 1],
			cont_tip: None,
		});
		// S4 header-only reorg through sync_block_headers
		scenarios.push(Scenario {
			kind: "header-reorg".into(),
			age: "none".into(),
			base: trunk.clone(),
			base_compact: false,
			ops: vec![COp::HeaderBatch(side.clone())],
			redeliver: vec![],
			old_head: tip,
			new_head: tip,
			cont_tip: None,
		});
	} else {
		// compaction scenarios: tail ends up around height l-20 rounded down to a multiple of 10
		let tail_h = ((l as u64).saturating_sub(20) / 10) * 10;
		scenarios.push(Scenario {
			kind: "compaction".into(),
			age: "none".into(),
			base: trunk.clone(),
			base_compact: false,
			ops: vec![COp::Compact],
			redeliver: vec![],
			old_head: tip,
			new_head: tip,
			cont_tip: None,
		});
		for age in ["below-tail", "recent"] {
			if let Some(x) = extend_with_spend(&mut w, tip, age, tail_h.saturating_sub(2)) {
				scenarios.push(Scenario {
					kind: "compaction-then-block".into(),
					age: age.into(),
					base: trunk.clone(),
					base_compact: false,
					ops: vec![COp::Compact, COp::Block(x)],
					redeliver: vec![],
					old_head: tip,
					new_head: x,
					cont_tip: None,
				});
				scenarios.push(Scenario {
					kind: "block-after-compaction".into(),
					age: age.into(),
					base: trunk.clone(),
					base_compact: true,
					ops: vec![COp::Block(x)],
					redeliver: vec![],
					old_head: tip,
					new_head: x,
					cont_tip: None,
				});
			}
		}
	}
	// continuation: three more blocks on whatever head the scenario ends on, delivered after the
	// re-delivery. Leftovers of the interrupted step that only matter for later appends (a stale
	// tail behind the logical end of an MMR file, say) show here and nowhere earlier.
	for sc in scenarios.iter_mut() {
		let fin = match sc.kind.as_str() {
			"fork-block" | "header-reorg" | "compaction" => sc.old_head,
			_ => sc.new_head,
		};
		let mut p = fin;
		let mut cont = vec![];
		for _ in 0..3 {
			match w.extend(p, 2) {
				Ok(c) => {
					p = c;
					cont.push(c);
				}
				Err(_) => break,
			}
		}
		if cont.len() == 3 {
			sc.redeliver.extend(cont.iter().map(|c| COp::Block(*c)));
			sc.cont_tip = Some(p);
		}
	}
	Ok(CrashWorld { world: w, scenarios })
}

pub fn case(tier: &str, seed: u64, case: u64) -> CaseResult {
	let t0 = Instant::now();
	let mut res = CaseResult::new(case, seed);
	let long = case % 4 == 3;
	let cw = match build(seed, long) {
		Ok(c) => c,
		Err(e) => {
			res.harness_error = Some(format!("crash world: {}", e));
			return res;
		}
	};
	let mut cw = cw;
	res.extra.insert("scenarios".into(), json!(cw.scenarios.len()));
	let stride = if tier == "thorough" { 1 } else { 1 };
	for (i, sc) in cw.scenarios.clone().iter().enumerate() {
		let double_budget = if tier == "thorough" { 12 } else { 3 };
		match run_scenario2(&cw.world, sc, &format!("C09-c{}s{}", case, i), &mut res, None, stride, double_budget, None) {
			Ok(vs) => {
				for mut v in vs {
					if let Value::Object(ref mut m) = v.replay {
						m.insert("case_seed".into(), json!(seed));
						m.insert("long".into(), json!(long));
						m.insert("scenario".into(), json!(i));
					}
					res.violations.push(v);
				}
			}
			Err(e) => {
				res.harness_error = Some(format!("scenario {} {}: {}", sc.kind, sc.age, e));
				break;
			}
		}
		if res.samples.len() < 2 {
			res.samples.push(json!({
				"scenario": sc.kind,
				"spends": sc.age,
				"base_blocks": sc.base.len(),
				"ops": format!("{:?}", sc.ops),
				"world_seed": seed,
			}));
		}
	}
	cw.world.cleanup();
	res.wall_s = t0.elapsed().as_secs_f64();
	res
}

pub fn replay(rp: &Value) -> Result<Option<Violation>, String> {
	let seed = rp["case_seed"].as_u64().ok_or("no case_seed")?;
	let long = rp["long"].as_bool().unwrap_or(false);
	let si = rp["scenario"].as_u64().ok_or("no scenario")? as usize;
	let point = rp["crash_point"].as_u64().ok_or("no crash_point")? as usize;
	let mut cw = build(seed, long)?;
	let sc = cw.scenarios.get(si).ok_or("scenario index out of range")?.clone();
	let mut res = CaseResult::new(0, seed);
	let second = rp["second_crash_point"].as_u64().map(|x| x as usize);
	let vs = run_scenario2(&cw.world, &sc, "C09-replay", &mut res, Some(point), 1, 0, second)?;
	cw.world.cleanup();
	Ok(vs.into_iter().next())
}
