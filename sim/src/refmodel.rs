//! Small executable reference models written independently of the code under test.
//! They use only the hash primitive (`hash_with_index`, i.e. blake2b over index ‖ data).

use grin_core::core::hash::{DefaultHashable, Hash, ZERO_HASH};
use grin_core::core::pmmr::segment::SegmentIdentifier;
use grin_core::ser::{PMMRIndexHashable, Writeable};

/// An unpruned in-memory MMR built the defining way: a stack of perfect subtrees.
/// Positions are 0-based insertion positions in post-order.
#[derive(Clone, Default)]
pub struct RefMmr {
	/// (height, hash, position) of the current peaks, left to right
	peaks: Vec<(u32, Hash, u64)>,
	/// every node hash by position
	pub nodes: Vec<Hash>,
	/// leaf positions by leaf index
	pub leaf_pos: Vec<u64>,
}

impl RefMmr {
	pub fn new() -> RefMmr {
		RefMmr::default()
	}

	pub fn size(&self) -> u64 {
		self.nodes.len() as u64
	}

	pub fn n_leaves(&self) -> u64 {
		self.leaf_pos.len() as u64
	}

	pub fn push<T: Writeable + DefaultHashable>(&mut self, elmt: &T) -> u64 {
		let pos = self.nodes.len() as u64;
		let h = elmt.hash_with_index(pos);
		self.push_leaf_hash(h)
	}

	pub fn push_leaf_hash(&mut self, h: Hash) -> u64 {
		let pos = self.nodes.len() as u64;
		self.nodes.push(h);
		self.leaf_pos.push(pos);
		self.peaks.push((0, h, pos));
		// merge equal-height neighbours
		while self.peaks.len() >= 2 {
			let n = self.peaks.len();
			if self.peaks[n - 1].0 != self.peaks[n - 2].0 {
				break;
			}
			let (hr, right, _) = self.peaks.pop().unwrap();
			let (_, left, _) = self.peaks.pop().unwrap();
			let ppos = self.nodes.len() as u64;
			let ph = (left, right).hash_with_index(ppos);
			self.nodes.push(ph);
			self.peaks.push((hr + 1, ph, ppos));
		}
		pos
	}

	/// Bag the peaks right to left with the MMR size.
	pub fn root(&self) -> Hash {
		if self.peaks.is_empty() {
			return ZERO_HASH;
		}
		let size = self.size();
		let mut acc: Option<Hash> = None;
		for (_, h, _) in self.peaks.iter().rev() {
			acc = Some(match acc {
				None => *h,
				Some(r) => (*h, r).hash_with_index(size),
			});
		}
		acc.unwrap()
	}

	/// Truncate to the first `n` leaves (rebuild; reference code favours clarity over speed).
	pub fn truncated(&self, leaf_hashes: &[Hash], n: usize) -> RefMmr {
		let mut m = RefMmr::new();
		for h in leaf_hashes.iter().take(n) {
			m.push_leaf_hash(*h);
		}
		m
	}
}

/// Root of the unspent-output bitmap commitment computed from first principles:
/// the bitmap is cut into 1024-bit chunks (bit i of a chunk is bit 7-(i%8) of byte i/8),
/// chunks up to the last one holding a set bit are the MMR leaves.
pub fn bitmap_root(sorted_unspent_leaf_idx: &[u64], size_leaves: u64) -> Hash {
	let idx: Vec<u64> = sorted_unspent_leaf_idx
		.iter()
		.cloned()
		.filter(|i| *i < size_leaves)
		.collect();
	let mut mmr = RefMmr::new();
	let last = match idx.last() {
		Some(l) => *l,
		None => return ZERO_HASH,
	};
	let n_chunks = last / 1024 + 1;
	let mut it = idx.iter().peekable();
	for c in 0..n_chunks {
		let mut bytes = vec![0u8; 128];
		while let Some(&&i) = it.peek() {
			if i / 1024 != c {
				break;
			}
			let bit = (i % 1024) as usize;
			bytes[bit / 8] |= 0x80 >> (bit % 8);
			it.next();
		}
		mmr.push(&bytes);
	}
	mmr.root()
}

#[allow(dead_code)]
pub fn unused(_: SegmentIdentifier) {}

// ---------------------------------------------------------------------------------------------
// difficulty retarget, re-implemented from the protocol description

#[derive(Clone, Debug)]
pub struct DiffInfo {
	pub ts: u64,
	pub diff: u64,
	pub scaling: u32,
	pub secondary: bool,
}

const BLOCK_TIME_SEC: u64 = 60;
const DMA_WINDOW: u64 = 60;
const YEAR_HEIGHT: u64 = 52 * 7 * 24 * 60;
const WTEMA_HALF_LIFE: u64 = 4 * 3600;

fn damp(actual: u64, goal: u64, f: u64) -> u64 {
	(actual + (f - 1) * goal) / f
}
fn clamp(actual: u64, goal: u64, f: u64) -> u64 {
	std::cmp::max(goal / f, std::cmp::min(actual, goal * f))
}

/// `hist` runs from the parent of the header being targeted back towards genesis.
/// Returns (difficulty, secondary_scaling) plus the envelope (lo, hi) the result must sit in.
pub fn ref_next_difficulty(
	height: u64,
	header_version: u16,
	hist: &[DiffInfo],
	initial_graph_weight: u32,
	min_wtema: u64,
) -> (u64, u32, u64, u64) {
	if header_version >= 5 {
		let last = &hist[0];
		let prev = &hist[1];
		let t = last.ts - prev.ts;
		let next = last.diff * WTEMA_HALF_LIFE / (WTEMA_HALF_LIFE - BLOCK_TIME_SEC + t);
		let d = std::cmp::max(min_wtema, next);
		// timestamps strictly increase, so t >= 1: growth is bounded by HL/(HL-59)
		let hi = std::cmp::max(min_wtema, last.diff * WTEMA_HALF_LIFE / (WTEMA_HALF_LIFE - BLOCK_TIME_SEC + 1));
		return (d, 0, min_wtema, hi);
	}
	let needed = DMA_WINDOW as usize + 1;
	let mut v: Vec<DiffInfo> = hist.iter().take(needed).cloned().collect();
	let n = v.len();
	if n < needed {
		let delta = if n > 1 { v[0].ts - v[1].ts } else { BLOCK_TIME_SEC };
		let last_diff = v[0].diff;
		let mut ts = v[n - 1].ts;
		for _ in n..needed {
			ts = ts.saturating_sub(delta);
			v.push(DiffInfo {
				ts,
				diff: last_diff,
				scaling: initial_graph_weight,
				secondary: true,
			});
		}
	}
	v.reverse();
	let ts_delta = v[DMA_WINDOW as usize].ts - v[0].ts;
	let diff_sum: u64 = v.iter().skip(1).map(|d| d.diff).sum();
	let goal = DMA_WINDOW * BLOCK_TIME_SEC;
	let adj = clamp(damp(ts_delta, goal, 3), goal, 2);
	let d = std::cmp::max(3, diff_sum * BLOCK_TIME_SEC / adj);
	// secondary scaling
	let w = &v[1..];
	let scale_sum: u64 = w.iter().map(|d| d.scaling as u64).sum();
	let target_pct = 90u64.saturating_sub(height / (2 * YEAR_HEIGHT / 90));
	let target_count = DMA_WINDOW * target_pct;
	let ar = 100 * w.iter().filter(|d| d.secondary).count() as u64;
	let adj_count = clamp(damp(ar, target_count, 13), target_count, 2);
	let scale = scale_sum * target_pct / std::cmp::max(1, adj_count);
	let s = std::cmp::max(13, scale) as u32;
	// envelope: adjusted window time within [goal/2, 2*goal]
	let lo = std::cmp::max(3, diff_sum * BLOCK_TIME_SEC / (goal * 2));
	let hi = std::cmp::max(3, diff_sum * BLOCK_TIME_SEC / (goal / 2));
	(d, s, lo, hi)
}
