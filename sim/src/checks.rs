//! Per-property check definitions: how many cases, which engine, which oracles, which workload.

use crate::chainsim::{self, Op, Oracles, SchedCfg};
use grin_keychain::Keychain;
use crate::rng::SimRng;
use crate::sim::{CaseResult, CheckSpec, Violation};
use crate::world::{World, WorldCfg};
use serde_json::{json, Value};
use std::time::Instant;

pub const CHAINSIM_PROPS: &[&str] = &["C01", "C02", "C03", "C04", "C06", "C13", "C15"];

fn chain_real() -> Vec<String> {
	vec![
		"grin_core consensus/validation (blocks, transactions, PoW cuckatoo edge_bits 10)".into(),
		"grin_keychain + secp256k1zkp (real range proofs and signatures)".into(),
		"grin_chain::Chain, pipe, TxHashSet, ChainStore".into(),
		"grin_store PMMR backend files and LMDB on tmpfs".into(),
	]
}

fn chain_stub() -> Vec<String> {
	vec![
		"p2p network (simulated transport delivering typed blocks/headers)".into(),
		"servers::NetToChainAdapter (harness calls process_block / process_block_header / sync_block_headers with the same Options)".into(),
		"wallet (deterministic harness wallet over libtx)".into(),
		"miner (harness miner over Block::from_reward / set_txhashset_roots / pow_size)".into(),
	]
}

pub fn net_real() -> Vec<String> {
	vec![
		"E11 netsim cases: grin_p2p Peers, Peer (+ TrackingAdapter), Handshake, conn::listen reader/writer threads, Codec, Protocol, write_message - one real node's complete p2p stack over loopback sockets".into(),
		"E11 netsim cases: grin_servers NetToChainAdapter, ChainToPoolAndNetAdapter, PoolToNetAdapter, PoolToChainAdapter, real TransactionPool and SyncState, wired as servers::Server::new wires them".into(),
	]
}

pub fn net_stub() -> Vec<String> {
	vec![
		"E11 netsim cases: the remote peers (simulated: they own the other end of every socket, keep one message in flight and answer the node's requests by seeded policy)".into(),
		"E11 netsim cases: p2p::Server accept/connect loops, the servers sync / seed / Dandelion monitor loops (not run: no timers in a netsim run)".into(),
	]
}

pub fn spec(property: &str, tier: &str) -> Option<CheckSpec> {
	let mut sp = spec_inner(property, tier)?;
	if property == "C03" || property == "C06" {
		sp.engine = "chainsim+netsim".to_string();
		sp.rule.push_str("; every fourth case is an E11 netsim case: the same kind of world (real PoW, forks inside the horizon) reaches one real node through its real p2p stack from 2-3 simulated honest peers (inbound and outbound connections) and, when the world has invalid blocks, a byzantine one that comes back under a new address after every ban: header-first announcements, unsolicited compact and full blocks, children before parents, duplicates, reconnects, requests the peers leave unanswered; the node's own requests (compact block after a header, full block after a failed hydration, parent of an orphan) are answered by seeded policy. One message in flight (ping/pong barrier on every connection), so the event log is a function of the seed. Oracles per step: head is an accepted honest block of greatest total difficulty and its work never decreases; an orphaned block is connected once its parent is; invalid input leaves the state digest untouched and is never reported accepted; honest peers are never banned or disconnected; no node thread panics, no connection stalls. At quiescence (an honest peer offers the winning chain) head, roots and sizes equal a node that applied the winning chain alone and validate(false) passes");
		sp.real_components.extend(net_real());
		sp.stub_components.extend(net_stub());
		sp.required_probes.push("netsim_runs".to_string());
		sp.required_probes.push("net_final_head_is_winner".to_string());
		sp.required_probes.push("net_headers_synced_through_adapter".to_string());
		if property == "C06" {
			sp.required_probes.push("losing_fork_block_delivered_with_pool_watch".to_string());
			sp.rule.push_str("; every eighth case is a poolsim case judged for C06's pool clauses only: no submission, accepted or refused, changes the chain fingerprint, and a block accepted onto a fork that does not become the head leaves the set of pooled (txpool and stempool) kernels exactly as it was");
		}
		if property == "C03" {
			sp.required_probes.push("mesh_mesh_converged".to_string());
			sp.rule.push_str("; every eighth case is an E11 mesh case: 2, 3 or 4 (ring) real nodes with their complete p2p stacks, the simulator being every wire between them (frames relayed in seeded link order, held while a link is partitioned and delivered on heal); blocks are mined on a node from that node's own pool and enter the network as a miner's block does (process_block with MINE -> compact block broadcast, header-first relay onwards, compact block / full block / transaction requests between the real nodes), transactions are pushed to a node as the API pushes them and travel on by the nodes' own relay (fluff broadcast by kernel hash, Dandelion stem to the one outbound peer); per step every node's head work never decreases and is a mined block; at quiescence (all links up, one more block on the best head) all nodes have the same head - the most-work block mined - and the same state, equal to the block builder's, and validate(false) passes");
		}
		sp.rule.push_str("; one netsim run in four starts with the node far behind: HeaderSync status and Headers messages in chunks (NetToChainAdapter::headers_received -> sync_block_headers), then BodySync status with the first three fifths of the winning chain requested by hash through the real Peer::send_block_request(SYNC) and answered out of order and not always (the TrackingAdapter hands the SYNC option back when the block arrives), before the ordinary traffic continues");
		if property == "C06" {
			sp.required_probes.push("net_byzantine_peer_banned".to_string());
		}
	}
	Some(sp)
}

fn spec_inner(property: &str, tier: &str) -> Option<CheckSpec> {
	let quick = tier != "thorough";
	let s = |engine: &str, level: &str, cases: u64, rule: &str, assumptions: Vec<&str>, probes: Vec<&str>| CheckSpec {
		property: property.to_string(),
		engine: engine.to_string(),
		level: level.to_string(),
		cases,
		rule: rule.to_string(),
		assumptions: assumptions.into_iter().map(|s| s.to_string()).collect(),
		real_components: chain_real(),
		stub_components: chain_stub(),
		case_timeout_s: if quick { 900 } else { 3600 },
		required_probes: probes.into_iter().map(|s| s.to_string()).collect(),
	};
	match property {
		"C03" => Some(s(
			"chainsim",
			"exploration",
			if quick { 16 } else { 160 },
			"case = one generated fork tree (seeded); run = one seeded delivery schedule (headers first or mixed, bodies permuted, duplicates, child-before-parent, clean restarts) over 1-3 replicas; distinct = distinct event-log digests (op, result class, node state digest per step); non-trivial = the schedule reordered bodies, orphaned a block, crossed a reorg or injected a fault",
			vec![
				"AutomatedTesting chain parameters (all five header versions within 15 blocks)",
				"maximum total difficulty is unique by construction (ties re-drawn)",
				"orphans stay far below the pool capacity of 200",
				"one world in four has a 56-66 block trunk with forks leaving it at heights 1-4 (side branches delivered after the trunk in two of three schedules)",
			],
			vec!["reorg", "orphaned", "fork_block", "block_accepted_50_below_head"],
		)),
		"C02" => Some(s(
			"chainsim",
			"exploration",
			if quick { 16 } else { 160 },
			"case = one generated spend-heavy fork tree plus byzantine blocks (double spend, never-created input, fork-foreign input, duplicate unspent commitment); run = one seeded delivery schedule; after every delivery the node's get_unspent over every commitment ever created and its paged enumeration are compared with the ledger replayed from the node's own head; distinct/non-trivial as for C03",
			vec![
				"AutomatedTesting chain parameters",
				"reference ledger is computed from block contents only (inputs removed, outputs added) along the node's current best chain",
			],
			vec!["reorg", "fork_block"],
		)),
		"C01" => Some(s(
			"chainsim",
			"exploration",
			if quick { 16 } else { 128 },
			"case = one generated fork tree with fees, multi-kernel blocks, all kernel variants and non-zero offsets, plus one byzantine block per value-corruption class (inflated coinbase, value-creating tx, fee changed with/without re-signing, offset changed, kernel dropped/foreign, coinbase flag moved, proof/signature swapped, amount re-proved), each re-rooted and re-mined; run = seeded delivery schedule; after every head change the stored block sums are compared with sums recomputed over the full state, Chain::validate runs, and the wallet-known values of the unspent set must equal REWARD*(height+1); every corrupted block must be refused",
			vec![
				"AutomatedTesting chain parameters",
				"amount-level conservation relies on the harness wallet knowing the value of every output it created",
			],
			vec!["reorg"],
		)),
		"C13" => Some(s(
			"chainsim",
			"exploration",
			if quick { 16 } else { 128 },
			"case = fork tree whose honest spends/locks are biased to sit exactly on the thresholds (coinbase spent at creation+maturity, lock_height == height, NRD duplicate at exactly relative_height, on every fork) plus byzantine blocks one step inside each threshold (maturity-1/-2, lock_height+1, NRD distance-1), evaluated on the fork being extended and re-evaluated across reorgs; honest blocks must be accepted (including through rewind_and_apply_fork), byzantine ones refused. Every fourth case runs the pool clause instead (poolsim): seeded interleavings of submissions that spend a coinbase one block before / exactly at maturity and carry lock heights of next block / beyond, blocks that move the thresholds and reorgs that change the fork they refer to; add_to_pool must refuse / accept exactly as the rule model says",
			vec!["AutomatedTesting chain parameters (coinbase maturity 3, NRD from header version 4)"],
			vec!["reorg", "fork_block", "just_mature_coinbase_submitted", "immature_coinbase_submitted", "lock_next_submitted", "lock_future_submitted"],
		)),
		"C04" => Some(s(
			"chainsim",
			"exploration",
			if quick { 16 } else { 128 },
			"case = real-PoW header/block tree mined by simulated miners with skewed and jumping clocks across all five header versions and both retarget algorithms, plus one single-field mutation per header field (height, timestamp, version, prev_root, total_difficulty, secondary_scaling, nonce, edge_bits, proof nonce, mmr sizes), re-mined where the pre-PoW changed; each mutation is delivered through process_block, process_block_header and at the end of a sync_block_headers batch and must be refused without being stored; for every honest header the network difficulty is recomputed by an independent re-implementation of the retarget and compared with consensus::next_difficulty (>= minimum, within damp/clamp envelope)",
			vec!["AutomatedTesting chain parameters; retarget clause covers only windows that simulated clocks produce on this chain type", "future-time-limit case uses a one hour margin from the real clock"],
			vec!["fork_block"],
		)),
		"C06" => Some(s(
			"chainsim",
			"exploration",
			if quick { 16 } else { 128 },
			"case = fork tree plus byzantine inputs failing at every pipeline stage (PoW, each header rule, body validation, maturity, lock height, NRD, UTXO checks, sums, and late root/size mismatches detected only after the block was applied to the working MMRs) and valid losing-fork blocks; run = seeded schedule delivered to a node and to a twin that never sees the byzantine inputs; after each failing call head/roots/sizes/unspent view must be unchanged, and every later result and state digest must equal the twin's",
			vec!["a header that is itself valid may be remembered (header_head of node and twin may then differ)", "Next-vs-Reorg status labels are not compared (they depend on the header chain)"],
			vec!["fork_block", "valid_header_of_bad_block_remembered"],
		)),
		"C15" => Some(s(
			"chainsim",
			"exploration",
			if quick { 15 } else { 96 },
			"chain-level clause: after every delivery (forks, reorgs, restarts) the committed bitmap root must equal both an accumulator initialised from scratch over the unspent set the node reports and an independent re-implementation (chunk bytes + MMR bagging); a block whose output root commits to a bitmap with one bit flipped (re-mined) must be refused. The multi-chunk clause is checked by the txhsim engine (see coverage.txhsim)",
			vec!["real blocks stay within one 1024-bit chunk; several chunks are covered by txhsim (every third case) with synthetic outputs: fake commitments and zero proofs, which nothing on the TxHashSet path verifies"],
			vec!["reorg", "multi_chunk_state", "rewind_shrinks_across_chunk_boundary"],
		)),
		"C19" => {
			let mut sp = s(
				"wiresim",
				"fault_enumeration",
				if quick { 8 } else { 32 },
				"case = one real chain (36-70 blocks, real PoW headers) from which every message type is encoded by the real write_message at protocol versions 1, 2, 3 and 1000; evaluation = one delivery of a byte stream to the real Codec over a lock-stepped loopback socket: message sequences over all types (incl. header lists of 0/1/31/32/33/65 headers, TxHashSetArchive followed by a streamed attachment, unknown type bytes with bodies) delivered unfragmented, at every single split point (all of them for streams up to 1.5 KB, frame-header neighbourhoods plus a spread beyond), with random multi-splits and as a one-byte dribble; frame headers of every type with length limit*4+1, 2*limit*4, 2^63, 2^64-1 and wrong magic, which must be refused having consumed exactly the 11 header bytes and without a large allocation; Handshake::accept/initiate against a simulated remote at versions 1,2,3,999,1000,1001,5000, a different genesis and a self connection. Oracle: the reader returns exactly the written sequence (headers re-batched by 32, attachment bytes in 48 KB chunks)",
				vec!["gaps between fragments stay far below the 2 s / 60 s I/O timeouts", "documented per-type limits are a copy of msg.rs::max_msg_size kept in the harness"],
				vec!["single_split_points", "dribble", "handshake_accept", "handshake_initiate", "headers_list_33"],
			);
			sp.real_components = vec![
				"grin_p2p Codec::read, write_message, read_message, MsgHeaderWrapper::read, Handshake::accept/initiate".into(),
				"grin_core ser (all message bodies), UntrustedBlock/Header/CompactBlock read-time checks, real PoW verification of received headers".into(),
				"kernel TCP loopback sockets".into(),
			];
			sp.stub_components = vec!["the remote peer (simulator owns the other end of the socket and the fragmentation)".into(), "p2p::Protocol/Peer (the reader loop mirrors conn::poll: stop at the first error; expect_attachment after TxHashSetArchive)".into()];
			sp.engine = "wiresim+netsim".to_string();
			sp.rule.push_str(". One case in four (E11 netsim, versions): a complete real node with connections that settled on protocol versions 1, 2, 3 and 1000 (one of them dialled by the node and therefore its Dandelion relay; most without the kernel-hash capability, so that full transactions are relayed); transactions (fluff, stem) and blocks enter through a further connection or are mined on the node (compact-block broadcast), members of the audience ask for blocks, compact blocks and headers; every frame the node writes - through Peer::send and through Protocol's responses - must decode at the version of its connection and be a transaction, kernel, block or header the node was given; no honest connection may be lost");
			sp.real_components.extend(net_real());
			sp.stub_components.extend(net_stub());
			for p in ["net_versions_runs", "node_sent_tx_at_v1", "node_sent_tx_at_v2", "node_sent_compact_block_at_v2", "node_sent_tx_at_v3"] {
				sp.required_probes.push(p.to_string());
			}
			Some(sp)
		}
		"C18" => {
			let mut sp = s(
				"dbsim",
				"exploration",
				if quick { 16 } else { 64 },
				"case = (a) 30 (thorough 150) sequential histories of 10-120 top-level batches over three key spaces with put/delete/get/exists/iter inside nested batches (depth <= 3, commit or drop at every level), reads on a fresh read transaction while the batch is open, clean reopen, value sizes up to 20 KB and key spaces of 8/40/300 keys so that the map is enlarged one or more times; the store is compared with a nested-transaction map model after every operation and in full (every key space by iterator, get_ser, exists) after every top-level batch; (b) 30 (thorough 120) seeded schedules of 1-2 writer threads committing versioned groups of six keys per batch (half of them through a child batch, dropped children and dropped batches interleaved) and 1-3 reader/iterator threads on the same store under the baton scheduler, payloads up to 30 KB so that resizes happen while readers are active; oracle: one iterator shows one version per group, never a dropped child's value, never less than what was committed before it started, versions never go back, no operation fails, no deadlock, final contents = last committed; first schedule of each case replayed from its choice list; (c) 6 (thorough 24) batches (puts, deletes, committed and dropped children) killed at every crash point inside Batch::commit (child and top level): the reopened store must equal the pre-batch map (before the top-level commit) or the post-batch map (after it)",
				vec!["batches stay below 5% of the allocation chunk (1 MiB in test mode), the documented usage limit of the resize policy", "fault model for (c) is process death; the OS keeps written pages"],
				vec!["child_dropped", "child_committed", "batch_dropped", "map_grew", "outside_read_during_batch", "iter_in_batch", "reopen", "map_resized_under_concurrency", "replay_identical", "reopened_post_batch", "reopened_pre_batch"],
			);
			sp.real_components = vec!["grin_store::lmdb Store/Batch/DatabaseIterator (enter_tx, TxCounter, maybe_resize, needs_resize), heed and LMDB itself on tmpfs".into(), "real OS threads under the baton scheduler (hooks H1/H2), forked children for schedules and crash points".into()];
			sp.stub_components = vec!["chain::store::ChainStore (its batches are exercised by C03/C09/C17; here the wrapper is driven directly)".into()];
			sp.case_timeout_s = 900;
			Some(sp)
		}
		"C17" => {
			let mut sp = s(
				"schedsim",
				"exploration",
				if quick { 16 } else { 64 },
				"case = one generated two-to-three-branch world (every fourth case an 87-92 block chain with a fork at the tip whose first 81+ blocks are in place before the threads start, so that the compactor thread really compacts while blocks arrive) and two (thorough: six) thread plans; run = one seeded schedule of a fixed multiset of operations over 4-8 simulated threads: 2-3 peers submitting the bodies of competing forks (headers pre-delivered, duplicates, locally swapped orders), 1-2 readers (head, get_block(head), header by height, get_unspent), optionally a template builder (set_txhashset_roots), a segment server (segmenter + kernel/output segment) and a compactor (compact + validate). Threads are real OS threads released one at a time by a seeded baton scheduler at every grin_util lock acquire/release, at the LMDB writer token, at the labelled durable steps and at sleeps. Oracle: no deadlock (all live threads blocked), no panic, every observed head names a stored block of the same height/difficulty, head difficulty never decreases per reader, no read returns an error; at join the head is the unique most-work block (what every sequential order of the same submissions yields), validate(false) passes and the unspent view equals the replayed ledger. distinct = distinct context-switch sequences (hash of (thread, label) at every switch); the first run of every case is replayed from its recorded choice list and must reproduce the identical trace",
				vec!["scheduling points are lock operations, durable steps and sleeps: data races inside a critical section are out of reach", "all headers are delivered before the threads start so that every submission order is a legal history"],
				vec!["context_switches", "reader_observations", "replay_identical", "compaction_moved_tail_under_concurrency"],
			);
			sp.real_components = vec![
				"grin_chain::Chain (process_block, readers, set_txhashset_roots, segmenter, compact, validate), pipe, TxHashSet, OrphanBlockPool".into(),
				"grin_store LMDB wrapper (batches, enter_tx, resize gate) and PMMR backends; heed/LMDB itself".into(),
				"real OS threads, thread-locals and thread-affine LMDB transactions".into(),
			];
			sp.stub_components = vec![
				"parking_lot blocking: replaced by try-lock + scheduler yield with parking_lot's writer-preference rule modelled (hook H1)".into(),
				"LMDB writer mutex: shadowed by a scheduler-aware token (hook H2)".into(),
				"p2p / servers threads (the harness threads call the same Chain API)".into(),
			];
			sp.case_timeout_s = 1500;
			Some(sp)
		}
		"C16" => {
			let mut sp = s(
				"pibdsim",
				"exploration",
				if quick { 12 } else { 48 },
				"case = one generated chain with spends (every 4th case an 86+ block chain whose serving node is compacted first; every 8th a 121-127 block chain with 11 outputs per block, so that the archive header commits to more than 1024 outputs and the unspent bitmap MMR has several leaves; one world in eight ends in 32 transaction-free blocks, so that nothing is spent between the archive header and the serving head). Per world first a hostile requester: every segment type x 30 heights (0..=255 sampled) x 12 indices (0..3, around the last segment, 2^32+1, 2^63, 2^64-1) is requested from the real Segmenter on a helper thread: each answer is an error or a segment within 20 s, no panic, and a kernel segment handed out validates against the archive header. Then run = one state sync of a fresh headers-only receiver from the serving node: a harness loop mirroring StateSync::continue_pibd asks the real Segmenter for the segments the real Desegmenter wants (plus the harness's own enumeration of missing segments), responses travel serialized over a simulated network that reorders, duplicates, drops (re-requested) and corrupts one element (leaf data, leaf position, pruned-subtree hash, proof hash, identifier, omitted leaf, companion root, bitmap chunk bits); segment heights 0-4 through the cfg(grin_verif) override so that 45-90 block chains need several segments per MMR; one run in six (and the second run of every other world) uses txhashset_read -> zip -> txhashset_write instead, preceded in faulty runs by eight byzantine archives (three drawn at random, then one byte flip in each of the three hash files and in the output and kernel data files): the honest archive unpacked, one thing changed (a byte flipped - three in four inside the part the archive header commits to -, a file truncated, removed, extended with junk, a quarter of it repeated, the two leaf sets swapped or emptied, or the zip itself cut / replaced by noise) and re-zipped; each is refused with the receiver's state unchanged, or accepted with exactly the reference state; never a panic. Oracle: honest segments validate (once the bitmap is assembled), corrupted ones are refused by add_*_segment, assembly completes within a bounded number of fault-free rounds, and the finalized head/roots/sizes/unspent set/validate(false) and the Merkle proof of every unspent output (up to 200) equal those of a node that processed every block to the archive header; then the remaining blocks are accepted, the tip state equals the server's and a restart succeeds",
				vec!["liveness bound = 120 faulty rounds, then a benign network (request order, >= 8 deliveries per round) and at most 60 + 3 x (number of segments at the drawn heights) / deliveries per round further rounds (at least 400 in total)", "corruption of hashes the root does not depend on is not expected to be refused (statement); covered by the final-state clause"],
				vec!["sync_completed", "multi_segment_sync", "corrupt_segment_refused", "zip_mode", "server_compacted", "multi_chunk_bitmap_archive", "quiet_tail_world", "hostile_request_served", "hostile_request_refused", "hostile_archive_refused"],
			);
			sp.real_components = vec![
				"grin_chain Segmenter, Desegmenter (add/apply/next_desired/check_progress/validate_complete_state), txhashset_read/txhashset_write, Chain on tmpfs".into(),
				"grin_core Segment / SegmentProof / BitmapSegment (de)serialization and validation".into(),
			];
			sp.stub_components = vec![
				"servers::StateSync loop (mirrored in the harness: apply_next_segments, check_progress, next_desired_segments, request, completion calls)".into(),
				"typed-delivery runs: NetToChainAdapter::receive_*_segment and the p2p transport (simulated: reorder/duplicate/drop/corrupt one element)".into(),
				"wire runs: only the wire itself (the simulator relays frames between the two nodes' sockets and may lose, duplicate, delay or corrupt them)".into(),
			];
			sp.engine = "pibdsim+netsim".to_string();
			sp.rule.push_str(". Per world (except the compacted and the 1000-output worlds, whose default-height segments exceed the 62 KB frame limit that AutomatedTesting's block weight implies) two further runs between two real nodes with their complete p2p stacks (E11 netsim), the simulator being the wire: the receiver gets its headers as Headers messages in HeaderSync status, its requests leave through the real Peer::send_*_segment_request of its outbound connection, reach the serving node's real Protocol / NetToChainAdapter::get_*_segment / Segmenter, and the answers come back into the receiver's real Protocol / receive_*_segment / Desegmenter; one run is fault free, in the other the wire loses requests and answers, duplicates, delays (reorders) and flips one byte of answers for 40 rounds (a frame the receiver cannot decode makes it hang up; the peer dials again). Oracle: completion within 80 fault-free rounds, validate_complete_state, then head/roots/sizes/unspent set/validate(false) equal to a node that processed every block to the archive header; the remaining blocks arrive as Block messages and the tip state equals the serving node's; no node thread panics");
			sp.real_components.extend(net_real());
			sp.rule.push_str(". A third wire run per small world syncs from the state archive: the receiver's real Peer::send_txhashset_request puts the request on the wire, the serving node's real Protocol answers with TxHashSetArchive and streams the zip behind it, the simulator carries message and attachment (in seeded write sizes from 1 to 100 000 bytes, around the 8 000-byte writer and 48 000-byte reader chunks) into the receiver, whose real connection reader stores the attachment and whose Protocol hands the file to txhashset_write; in every other world the first attempt carries one flipped byte or is cut short by the peer hanging up (refused, state unchanged - or, if accepted, exactly the reference state), then the honest archive must be accepted");
			sp.required_probes.push("archive_sync_completed_over_the_wire".to_string());
			sp.required_probes.push("bad_archive_refused_state_unchanged".to_string());
			sp.required_probes.push("sync_completed_over_the_wire".to_string());
			sp.required_probes.push("netsim_runs".to_string());
			sp.case_timeout_s = 1500;
			Some(sp)
		}
		"C14" => {
			let mut sp = s(
				"poolsim",
				"exploration",
				if quick { 16 } else { 64 },
				"case = one generated chain; run = one seeded interleaving of submissions (valid, dependent on pooled outputs, conflicting with pooled inputs, duplicates, aggregates of pooled transactions, under-fee, immature / just-mature coinbase spends, future / next-block lock heights, non-existent inputs; stem and fluff), blocks mined from prepare_mineable_transactions, blocks with arbitrary pool subsets and conflicting spends, empty blocks, reorgs of depth 1-3 by a competing branch with its own spends, and capacity shrinks forcing eviction; after EVERY operation: no two pooled transactions share an input, every entry validates standalone, pays shifted_fee >= weight*accept_fee_base and is within the weight limit, aggregate(txpool) and aggregate(txpool+stempool) validate, pass Chain::validate_tx and balance against the head's block sums, the mineable set aggregates and applies; blocks built from the mineable set must assemble within the weight limit and be accepted by the chain; clear-cut submissions must be accepted/refused as the rule model says (C13 pool clause: maturity and lock height at -1/0)",
				vec!["a block connection is atomic for the oracle: process_block including the real ChainToPoolAndNetAdapter::block_accepted it calls", "reorg-cache ageing is driven by an explicit cutoff (nothing ages out within a run)"],
				vec!["reorg_reconciled", "dependent_chain_submitted", "conflicting_submitted", "mined_from_pool_nonempty", "block_with_conflicting_spend", "stem_accepted", "underfee_submitted_at_capacity", "compact_block_hydrated_from_pool", "compact_block_fell_back_to_full_block", "block_delivered_header_first"],
			);
			sp.real_components = vec![
				"grin_pool::TransactionPool / Pool (add_to_pool, reconcile, reconcile_block, reorg cache, eviction, bucket_transactions, prepare_mineable_transactions)".into(),
				"grin_chain::Chain (validate_tx, verify_coinbase_maturity, verify_tx_lock_height, process_block) on tmpfs".into(),
				"grin_core transaction aggregation/validation, real proofs, signatures and PoW".into(),
				"grin_servers PoolToChainAdapter and ChainToPoolAndNetAdapter (block_accepted: reconcile_block, reorg cache, broadcast), wired as Server::new wires them".into(),
				"grin_servers NetToChainAdapter::block_received / header_received / compact_block_received (hydration from the pool, fallback to the full block): three of four mined blocks reach the node through them".into(),
			];
			sp.stub_components = vec![
				"direct-mode runs: NetToChainAdapter::transaction_received (the harness calls add_to_pool with the head header as it does, to see the error class), the peer behind the adapter's requests, p2p connections (Peers without peers), simulated Dandelion relay".into(),
				"network-mode runs: the remote peers (simulated, lock-stepped: one message in flight)".into(),
				"wallet, the miner that extends the chain (the node's own mine_block::get_block is run and judged, but the blocks that enter the history are built by the deterministic harness miner), Dandelion monitor (embargo expiry and epoch changes do not happen within a run)".into(),
			];
			sp.engine = "poolsim+netsim".to_string();
			sp.rule.push_str("; every other run is a network run (E11 netsim): the node is assembled with its complete p2p stack and the real PoolToNetAdapter; submissions arrive as Transaction / StemTransaction messages or announced by kernel hash (TransactionKernel, answered to the node's GetTransaction), blocks as Block / CompactBlock / header-first messages with the node's requests served by the simulated peer; three network runs in four have an outbound peer, which the node's Dandelion epoch uses as stem relay (the others exercise the fall-back to fluff); acceptance is read from the pool's contents. In those runs every MinePool operation first runs the node's own servers::mining::mine_block::get_block (hook H9): it must return within 20 s with a block inside the weight limit, and a replica opened on a copy of the node's data directory must accept that block once its proof of work is solved");
			sp.real_components.extend(net_real());
			sp.real_components.push("network-mode runs: servers::mining::mine_block::get_block / build_block (coinbase burn, difficulty, roots) over the node's chain and pool".into());
			sp.rule.push_str(". Every fourth case is an E11 mesh case (2-4 real nodes gossiping over simulated wires with partitions, see C03): after every operation every node's txpool, and txpool + stempool, must apply together on that node's own head, while transactions and blocks reach it only through the other nodes' relay");
			sp.required_probes.push("mesh_node_pool_nonempty_checked".to_string());
			sp.required_probes.push("mesh_relayed:StemTransaction".to_string());
			for p in ["netsim_runs", "real_mine_block_built", "real_mine_block_with_transactions", "net_tx_announced_by_kernel_hash", "net_stem_relayed_to_peer", "net_mode_without_relay_peer"] {
				sp.required_probes.push(p.to_string());
			}
			Some(sp)
		}
		"C11" => {
			let mut sp = s(
				"wiresim+apisim",
				"exploration",
				if quick { 10 } else { 40 },
				"four cases in five (wiresim): one real chain from which every message type (incl. real segments, header lists, an archive message) is encoded at protocol versions 1, 2, 3, 1000; evaluation = one hostile byte stream delivered to the real Codec over a loopback socket (optionally split once) followed by connection close: truncation at every (sampled) offset, 64/32/16-bit windows at every body offset set to boundary values (0, 1, 2, 0xff, 0xffff, 2^16, 2^32-1, 2^32, 2^64-1), count and length fields set to large values with and without truncation, segment identifiers with extreme heights and indices, single bytes set to tiny values, tag/feature bytes swept, random bodies behind a valid header, announced lengths disagreeing with the content, bodies spliced from two messages; decoded values are passed to the stateless checks (validate_read / validate, Segment::validate / validate_with against the archive header, BitmapSegment::into_segment). Oracle: the reader thread never panics, returns within 10 s of EOF, and no single allocation exceeds 2 x the announced (accepted) length + 16 x input length + 256 KiB. Bare 11-byte frame headers of 47 type bytes (all known ones and unused ones) announcing limit+1 .. 2^64-1 bytes go through the Codec and through read_message (handshake path), each in a forked child with a 4 GiB address-space cap: panic, abort, hang and an allocation above 1 MiB are exit statuses. MerkleProof::from_hex is driven in a forked child likewise with valid, truncated, non-hex, non-ASCII, random and huge-path-length inputs. One case in five (apisim): one real chain + real transaction pool + peer store behind the real grin_api Foreign and Owner JSON-RPC dispatch (handle_request, then to_string_pretty, as the v2 handlers do) on a handler thread; every method is sent a valid request built from the chain (must be answered Ok), then envelope mutations (method/params/id/jsonrpc, batches), every node of the params tree replaced by boundary numbers, wrong types, hex strings of odd / short / long / over-long lengths, unknown enum names, dropped and extra keys, huge and deeply nested arrays, and mutated request text that still parses; the Ok replies are mutated the same way and fed to the typed decoders API consumers use (BlockPrintable, OutputPrintable with its Merkle proof from hex, OutputListing, LocatedTxKernel, Tip, Status, PeerData, PoolEntry, Transaction). Oracle: no panic, an answer within 20 s, no single allocation above 64 x document length + 2 x reply length + 4 MiB",
				vec!["release build of the harness (shipped arithmetic: overflow checks off)", "allocation is measured process-wide with a counting global allocator; harness-side buffers are bounded by the input length", "the HTTP layer (hyper, TLS, basic auth, body size handling) is not run: documents enter at handle_request exactly as parse_body hands them over"],
				vec!["mutation:truncate", "mutation:field64", "mutation:splice", "merkle-hex:random", "huge_frame_header:codec", "huge_frame_header:read_message", "api-request:hexlen", "api-request:u64max", "api-response-mutation"],
			);
			sp.required_probes = ["api_valid:push_transaction", "api_valid:get_unspent_outputs", "api_valid:get_status", "api_mutant_answered_ok", "api_response_mutant_decoded", "net_hostile_node_alive_afterwards", "net_hostile_connection_closed_by_node", "net_hostile_node_answered"].iter().map(|s| s.to_string()).collect();
			sp.engine = "wiresim+apisim+netsim".to_string();
			sp.rule.push_str(". One case in five (E11 netsim, hostile peer): a complete real node (chain with 34 real-PoW blocks, pool, adapters, Peers, a real Peer per connection with its reader / writer threads and Protocol) receives from a simulated peer every message of the wire corpus, real segment answers, and well-formed requests and answers naming things that are not there (unknown hashes in GetHeaders / GetBlock / GetCompactBlock / GetTransaction / TransactionKernel / TxHashSetRequest, segment requests for 4 types x 10 heights x 3 indices and two block hashes, unsolicited TxHashSetArchive announcing 0 and 2^40 bytes, Ping with 2^64-1), each valid and in ~20 (thorough ~60) length-consistent mutations (bit flips, boundary values in 64/32/16-bit windows, small bytes, segment identifier sweeps, random and shortened bodies); one run in three with the node in PIBD status. One message in flight (ping/pong barrier); a connection the node closes is replaced by a new one. Oracle: no panic on any node thread, every message is followed by a Pong or a closed connection within 30 s, no single allocation above 18 x frame length + 4 MiB while the node handles it, and afterwards an honest peer's GetBlock for the head is answered");
			sp.real_components.extend(net_real());
			sp.stub_components.extend(net_stub());
			sp.real_components = vec![
				"grin_p2p Codec::read / decode_message / MsgHeaderWrapper::read / read_message".into(),
				"grin_core ser readers for every message body, UntrustedBlock/Header/CompactBlock, TransactionBody::read, Segment/SegmentProof/BitmapSegment readers, MerkleProof::read/from_hex".into(),
				"grin_api Foreign / Owner with their easy-jsonrpc dispatch, handlers (blocks_api, chain_api, pool_api, transactions_api, peers_api, server_api), printable types and their serde decoders; grin_core / grin_keychain serde helpers (secp_ser, BlindingFactor::from_hex)".into(),
				"grin_chain::Chain, grin_pool::TransactionPool, grin_p2p::Peers + PeerStore behind the API".into(),
			];
			sp.stub_components = vec!["the hostile peer / API client".into(), "hyper router, TLS and authentication in front of the JSON-RPC handlers".into(), "NetToChainAdapter (transactions enter through the API push_transaction path)".into()];
			Some(sp)
		}
		"C09" => {
			let mut sp = s(
				"crashsim",
				"fault_enumeration",
				if quick { 16 } else { 96 },
				"case = one generated chain (every 4th case an 85+ block chain for compaction) with scenarios: plain extension (spending recent / pre-header-v3 outputs), header-then-block, fork block that does not win, reorg with spends, header-only reorg via sync_block_headers, compaction, compaction followed by a block, block after a completed compaction (spending outputs older than the compaction tail / recent); evaluation = one labelled crash point: a forked child copies the base directory, opens the chain, runs the operation and _exits at that point, the parent reopens the directory and checks: Chain::init Ok, head is old/new/ancestor, validate(false), unspent set == ledger of the reopened head, second reopen identical, re-delivery converges to the uninterrupted twin. Every crash point of every scenario is enumerated (coverage.crash_points_enumerated == crash_points_total); distinct = (world, scenario, point)",
				vec![
					"fault model: process death; data written before the point survives (page cache). Power-loss semantics are stronger than the property and are not an alarm source",
					"crash points are the cfg(grin_verif) hooks after each durable step (temp-file create/write/fsync/rename, append-only file truncate/append/fsync, file replace remove/rename, compaction steps, LMDB commit, txhashset extension syncs, chain batch commits)",
				],
				vec!["reopened_on_old_head", "reopened_on_new_head"],
			);
			sp.case_timeout_s = if quick { 1500 } else { 3600 };
			Some(sp)
		}
		"C08" => {
			let mut sp = s(
				"storesim+chainsim",
				"exploration",
				if quick { 16 } else { 64 },
				"store level: run = one generated history of units of work (optional boundary-by-boundary rewind with the per-unit spent bitmap, appends, removals by pattern: random, siblings, whole subtree, whole peak, alternating, everything before a boundary, leaves re-added by the rewind; then sync or discard) interleaved with check_compact at any earlier boundary and with drop+reopen, for fixed-size and variable-size elements; after every step root, size, data and hash of every unspent leaf, leaf_pos_iter, n_unpruned_leaves and Merkle proofs are compared with an unpruned in-memory reference MMR written independently; distinct = distinct step logs; non-trivial = the history contains both a compaction and a rewind. chain level (coverage.chain_*): chains long enough for Chain::compact to act, compact() at random points, state digest/unspent view/validate(false) unchanged and a fork inside the horizon still reorganises",
				vec![
					"workload obeys the store usage protocol of TxHashSet::compact / Extension::rewind (rewind only to block boundaries above the last compaction cutoff, rewind_rm_pos = positions spent by the rewound units, one removal per leaf)",
				],
				vec!["compact", "rewind", "reopen", "discard", "compaction_removed_data", "leaves_readded_by_rewind", "compaction_moved_tail"],
			);
			sp.real_components = vec![
				"grin_store::pmmr::PMMRBackend, PruneList, LeafSet, AppendOnlyFile/DataFile on tmpfs files".into(),
				"grin_core PMMR (push, prune, rewind, root, merkle_proof) and MerkleProof::verify".into(),
			];
			sp.stub_components = vec!["TxHashSet/Extension (their call protocol is reproduced by the workload generator)".into()];
			Some(sp)
		}
		_ => None,
	}
}

fn world_cfg_for(property: &str, rng: &mut SimRng, quick: bool) -> WorldCfg {
	let mut cfg = WorldCfg::draw(rng, quick);
	match property {
		"C03" => {
			cfg.free_difficulty = rng.chance(1, 2);
			cfg.tx_pct = rng.range(20, 60);
			cfg.branches = rng.range(1, 4) as usize;
			if rng.chance(1, 4) {
				// a fork that leaves the trunk more than 50 blocks below its tip (the distance at which
				// the "old block" shortcut for already stored blocks starts to apply)
				cfg.free_difficulty = true;
				cfg.trunk = rng.range(56, 66);
				cfg.tx_pct = 5;
				cfg.branches = rng.range(1, 2) as usize;
				cfg.max_branch_depth = rng.range(2, 4);
				cfg.fork_deep = true;
			}
		}
		"C02" => {
			if rng.chance(1, 4) {
				// long chain: compaction and a reorg of the block that was head when it ran
				cfg.trunk = rng.range(88, 94);
				cfg.tx_pct = 45;
				cfg.max_txs = 2;
				cfg.nrd = false;
				cfg.branches = 1;
				cfg.max_branch_depth = rng.range(1, 4);
				cfg.fork_near_tip = 8;
				cfg.sibling_bias = true;
			} else {
				cfg.tx_pct = 90;
				cfg.max_txs = 3;
				cfg.branches = rng.range(2, 4) as usize;
				// competing blocks of identical shape that spend different outputs
				cfg.uniform_txs = rng.chance(1, 3);
			}
		}
		"C01" => {
			cfg.tx_pct = 85;
			cfg.nrd = rng.chance(1, 2);
		}
		"C13" => {
			cfg.tx_pct = 90;
			cfg.max_txs = 2;
			cfg.nrd = rng.chance(2, 3);
			cfg.boundary_bias = true;
			cfg.trunk = cfg.trunk.max(14);
			cfg.branches = rng.range(2, 4) as usize;
			cfg.max_branch_depth = cfg.max_branch_depth.max(3);
		}
		"C04" => {
			cfg.free_difficulty = false;
			cfg.tx_pct = 25;
			cfg.trunk = if quick { rng.range(14, 26) } else { rng.range(14, 60) };
		}
		"C06" => {
			cfg.tx_pct = 80;
			cfg.nrd = rng.chance(1, 2);
			cfg.uniform_txs = rng.chance(1, 3);
			// spends sitting exactly on the maturity threshold: what a wrong cutoff header would misjudge
			cfg.boundary_bias = !cfg.uniform_txs && rng.chance(1, 2);
		}
		"C15" => {
			cfg.tx_pct = 90;
			cfg.max_txs = 3;
			cfg.trunk = cfg.trunk.max(12);
		}
		"C08" => {
			// long enough for Chain::compact to act (head >= tail + horizon 20 + 60)
			cfg.trunk = rng.range(88, 96);
			cfg.tx_pct = 45;
			cfg.max_txs = 2;
			cfg.nrd = false;
			cfg.branches = rng.range(1, 2) as usize;
			cfg.max_branch_depth = rng.range(1, 5);
			cfg.fork_near_tip = 8;
			cfg.sibling_bias = true;
			cfg.reorg_pct = 80;
		}
		_ => {}
	}
	cfg
}

fn oracles_for(property: &str) -> Oracles {
	let mut o = Oracles::default();
	match property {
		"C03" => {
			o.head = true;
		}
		"C02" => {
			o.utxo = true;
			o.head = true;
			o.reject_bad = true;
		}
		"C01" => {
			o.sums = true;
			o.reject_bad = true;
		}
		"C13" => {
			o.head = true;
			o.reject_bad = true;
		}
		"C04" => {
			o.head = true;
			o.reject_bad = true;
		}
		"C06" => {
			o.twin = true;
		}
		"C15" => {
			o.bitmap = true;
			o.reject_bad = true;
		}
		"C08" => {
			o.stable_ops = true;
			o.utxo = true;
			o.head = true;
		}
		_ => {}
	}
	o
}

fn bad_kinds_for(property: &str, rng: &mut SimRng) -> (Vec<&'static str>, usize) {
	use crate::badgen::*;
	match property {
		"C02" => (C02_KINDS.to_vec(), 2),
		"C01" => (C01_KINDS.to_vec(), 1),
		"C13" => (C13_KINDS.to_vec(), 3),
		"C04" => (C04_KINDS.to_vec(), 1),
		"C15" => (C15_KINDS.to_vec(), 3),
		"C06" => {
			let mut all: Vec<&'static str> = vec![];
			all.extend_from_slice(C02_KINDS);
			all.extend_from_slice(C01_KINDS);
			all.extend_from_slice(C13_KINDS);
			all.extend_from_slice(C04_KINDS);
			all.extend_from_slice(LATE_KINDS);
			all.extend_from_slice(C15_KINDS);
			rng.shuffle(&mut all);
			// late failures are the interesting ones: always present
			let mut pick: Vec<&'static str> = LATE_KINDS.to_vec();
			for k in all {
				if pick.len() >= 14 {
					break;
				}
				if !pick.contains(&k) {
					pick.push(k);
				}
			}
			(pick, 1)
		}
		_ => (vec![], 0),
	}
}

fn uses_twin(property: &str) -> bool {
	property == "C06"
}

pub fn build_world(property: &str, tier: &str, seed: u64) -> Result<World, String> {
	build_world_with(property, tier, seed, |_| {})
}

/// Same as `build_world`, with the drawn configuration adjusted by the caller before generation.
pub fn build_world_with(property: &str, tier: &str, seed: u64, tweak: impl FnOnce(&mut WorldCfg)) -> Result<World, String> {
	let quick = tier != "thorough";
	let mut r = SimRng::new(seed).fork("cfg");
	let mut cfg = world_cfg_for(property, &mut r, quick);
	tweak(&mut cfg);
	let mut w = World::new(seed, cfg, &format!("{}-w", property));
	w.generate_tree()?;
	let (kinds, per) = bad_kinds_for(property, &mut r);
	if w.cfg.trunk < 85 {
		w.gen_bad(&kinds, per);
		if property == "C06" {
			// header-only forks on top of up to three rejected blocks whose header is valid
			let cands: Vec<usize> = (0..w.bad.len()).filter(|i| !w.bad[*i].header_bad).collect();
			let mut made = 0;
			for i in cands {
				if made >= 3 {
					break;
				}
				if w.gen_ghost_headers(i) {
					made += 1;
				}
			}
		}
	}
	if property == "C08" || (property == "C02" && w.cfg.trunk >= 85) {
		build_compaction_reorg_scenario(&mut w);
		build_horizon_block_scenario(&mut w);
		build_max_depth_reorg_scenario(&mut w);
	}
	Ok(w)
}

fn schedules_per_world(property: &str, quick: bool) -> u64 {
	match (property, quick) {
		("C08", true) => 3,
		("C08", false) => 10,
		("C02", true) => 5,
		(_, true) => 6,
		(_, false) => 20,
	}
}

/// Run one case of a chainsim-based property.
pub fn chainsim_case(property: &str, tier: &str, seed: u64, case: u64) -> CaseResult {
	let t0 = Instant::now();
	let quick = tier != "thorough";
	let mut res = CaseResult::new(case, seed);
	let world = match build_world(property, tier, seed) {
		Ok(w) => w,
		Err(e) => {
			// honest blocks refused while generating the world
			if property == "C03" || property == "C13" {
				res.violations.push(Violation {
					key: format!("{}:honest-block-refused-by-builder", property),
					what: e,
					replay: json!({"engine": "chainsim", "property": property, "tier": tier, "case_seed": seed, "world_only": true}),
				});
			} else {
				res.harness_error = Some(format!("world generation failed: {}", e));
			}
			res.wall_s = t0.elapsed().as_secs_f64();
			return res;
		}
	};
	let mut world = world;
	// C08/C02 long chains: an explicit "compact while the head spends an old output whose sibling is
	// already spent, then reorganise that head away" scenario, built on top of the generated tree
	let scenario_ops: Option<Vec<Op>> = compaction_reorg_ops(&world);
	if scenario_ops.is_some() {
		res.probe("compaction_reorg_scenario_built");
	}
	let scenario2_ops: Option<Vec<Op>> = scenario_ops_of(&world, &world.scenario2);
	if scenario2_ops.is_some() {
		res.probe("horizon_block_scenario_built");
	}
	let scenario3_ops: Option<Vec<Op>> = scenario_ops_of(&world, &world.scenario3);
	if scenario3_ops.is_some() {
		res.probe("max_depth_reorg_scenario_built");
	}
	if property == "C04" {
		match check_retarget(&world) {
			Ok(n) => res.probe_n("retarget_headers_checked", n),
			Err(v) => {
				res.violations.push(Violation {
					key: format!("C04:{}", v.0),
					what: v.1,
					replay: json!({"engine": "chainsim", "property": property, "tier": tier, "case_seed": seed, "retarget_only": true}),
				});
			}
		}
		match check_ftl(&world) {
			Ok(n) => res.probe_n("ftl_decodes_checked", n),
			Err(v) => {
				res.violations.push(Violation {
					key: format!("C04:{}", v.0),
					what: v.1,
					replay: json!({"engine": "chainsim", "property": property, "tier": tier, "case_seed": seed, "retarget_only": true}),
				});
			}
		}
	}
	if property == "C01" {
		match check_tx_matrix(&mut world) {
			Ok(n) => res.probe_n("tx_level_corruptions_refused", n),
			Err(v) => {
				res.violations.push(Violation {
					key: format!("C01:{}", v.0),
					what: v.1,
					replay: json!({"engine": "chainsim", "property": property, "tier": tier, "case_seed": seed, "tx_matrix_only": true}),
				});
			}
		}
	}
	let oracles = oracles_for(property);
	let mut srng = SimRng::new(seed).fork("schedules");
	let k = schedules_per_world(property, quick);
	res.extra.insert("worlds".into(), json!(1));
	for (k, v) in &world.stats {
		res.probe_n(k, *v);
	}
	res.extra.insert("world_blocks".into(), json!(world.blocks.len()));
	res.extra.insert("bad_blocks".into(), json!(world.bad.len()));
	for run in 0..k {
		let mut rr = srng.fork(&format!("run{}", run));
		let mut scfg = SchedCfg::draw(&mut rr);
		if !world.bad.is_empty() {
			scfg.bad_pct = 30;
		}
		if uses_twin(property) {
			scfg.n_nodes = 1;
			if world.bad.iter().any(|b| !b.ghosts.is_empty()) && run % 2 == 1 {
				// the header-only forks arrive while the honest chain is still below them
				scfg.headers_first = false;
				scfg.ghosts_early = true;
			}
		}
		if world.cfg.fork_deep {
			scfg.side_branches_last = rr.chance(2, 3);
			scfg.n_nodes = scfg.n_nodes.min(2);
		}
		if property == "C08" || (property == "C02" && world.cfg.trunk >= 85) {
			scfg.n_nodes = 1;
			scfg.headers_first = true;
			scfg.shuffle_window = *rr.pick(&[1usize, 3, 6]);
			if rr.chance(2, 3) {
				// one compaction while the head is a block the later reorg will rewind
				scfg.compact_once_near_tip = true;
				scfg.compact_pct = 0;
				scfg.shuffle_window = 1;
			} else {
				scfg.compact_pct = *rr.pick(&[3u64, 6, 10]);
			}
			scfg.restart_pct = *rr.pick(&[0u64, 3, 6]);
			scfg.validate_pct = 1;
			scfg.dup_pct = *rr.pick(&[0u64, 5]);
		}
		let twin = uses_twin(property);
		let (mut ops, reorders) = chainsim::gen_schedule(&world, &scfg, &mut rr);
		if run == 0 {
			if let Some(so) = &scenario_ops {
				ops = so.clone();
				scfg.n_nodes = 1;
			}
		}
		if run == 1 {
			if let Some(so) = &scenario2_ops {
				ops = so.clone();
				scfg.n_nodes = 1;
			}
		}
		if run == 2 {
			if let Some(so) = &scenario3_ops {
				ops = so.clone();
				scfg.n_nodes = 1;
			}
		}
		let out = chainsim::run_ops(
			&world,
			property,
			&oracles,
			scfg.n_nodes,
			twin,
			&ops,
			true,
			&format!("{}-c{}r{}", property, case, run),
			reorders,
			Some(&mut res),
		);
		res.runs += 1;
		res.steps += out.steps;
		res.run_digests.push((out.log_digest, out.nontrivial));
		// simulated time: span of block timestamps delivered
		if res.samples.len() < 1 {
			res.samples.push(json!({
				"world_seed": seed,
				"world_blocks": world.blocks.len(),
				"sched": format!("{:?}", scfg),
				"ops_head": chainsim::sample_of(&ops, 25),
				"log_tail": out.log.iter().rev().take(3).cloned().collect::<Vec<_>>(),
			}));
		}
		if let Some((idx, v)) = out.violation {
			let v = minimise(&world, property, tier, seed, &oracles, scfg.n_nodes, twin, &ops, idx, v);
			res.violations.push(v);
			break;
		}
	}
	let t_first = world.blocks[0].block.header.timestamp;
	let t_last = world.blocks.iter().map(|b| b.block.header.timestamp).max().unwrap();
	res.sim_time_s = (t_last - t_first).num_seconds() as f64 * res.runs as f64;
	world.cleanup();
	res.wall_s = t0.elapsed().as_secs_f64();
	res
}

/// Adds to the world: H (on the most-work tip, spending an old output whose MMR sibling is already
/// spent) and a competing branch from the same parent that overtakes H. Recorded in
/// `world.scenario` as [H, F1, F2, ..].
fn build_compaction_reorg_scenario(world: &mut World) {
	let mut base = world.winner();
	if world.blocks[base].height < 82 {
		return;
	}
	// make sure a half-spent old pair exists: G spends one leaf of an old pair whose other leaf is alive
	// (the spend of the first leaf has to be older than the horizon when compaction runs: spends inside
	// the rewindable window are protected from compaction)
	if let Some(g) = world.extend_with_spend(base, "pair-starting", 0) {
		base = g;
		for _ in 0..(global_horizon() + 1) {
			base = match world.extend_empty(base, 0) {
				Ok(x) => x,
				Err(_) => return,
			};
		}
	}
	let n_before = world.blocks.len();
	let h = match world.extend_with_spend(base, "pair-completing", 0).or_else(|| world.extend_with_spend(base, "any", 0)) {
		Some(h) => h,
		None => return,
	};
	let mut fork = vec![];
	let mut f = base;
	let mut guard = 0;
	while (fork.is_empty() || world.blocks[f].total_difficulty <= world.blocks[h].total_difficulty) && guard < 6 {
		f = match world.extend_empty(f, 7) {
			Ok(x) => x,
			Err(_) => return,
		};
		fork.push(f);
		guard += 1;
	}
	if world.blocks[f].total_difficulty <= world.blocks[h].total_difficulty {
		return;
	}
	let mut sc = vec![n_before, h];
	sc.extend(fork);
	world.scenario = sc;
}

/// Second scenario for the long worlds: block X creates a sibling pair of outputs; exactly
/// `horizon` blocks later S spends both; compaction runs while S is head (X is then the horizon
/// block: what it created and a later block spent must survive compaction, because a rewind of S
/// brings it back); a competing branch from S's parent then overtakes S.
/// `world.scenario2` = [number of blocks before S, S, F1, F2, ..].
fn build_horizon_block_scenario(world: &mut World) {
	let mut base = world.winner();
	if world.blocks[base].height < 82 {
		return;
	}
	let x = match world.extend_with_spend(base, "any", 0) {
		Some(x) => x,
		None => return,
	};
	let xh = world.blocks[x].height;
	base = x;
	for _ in 0..(global_horizon() - 1) {
		base = match world.extend_empty(base, 0) {
			Ok(b) => b,
			Err(_) => return,
		};
	}
	let n_before = world.blocks.len();
	let s = match world.extend_with_pair_spend(base, xh) {
		Some(s) => s,
		None => return,
	};
	if world.blocks[s].height != xh + global_horizon() {
		return;
	}
	let mut fork = vec![];
	let mut f = base;
	let mut guard = 0;
	while (fork.is_empty() || world.blocks[f].total_difficulty <= world.blocks[s].total_difficulty) && guard < 6 {
		f = match world.extend_empty(f, 8) {
			Ok(b) => b,
			Err(_) => return,
		};
		fork.push(f);
		guard += 1;
	}
	if world.blocks[f].total_difficulty <= world.blocks[s].total_difficulty {
		return;
	}
	let mut sc = vec![n_before, s];
	sc.extend(fork);
	world.scenario2 = sc;
}

/// `world.scenario3` = [number of blocks before S, S, F1, F2, ..]: S is a head whose height is a
/// multiple of 10 - compacting there, the tail of the block db coincides with the horizon block (as it
/// always does with mainnet's parameters) - and the fork leaves from the horizon block itself, head - 20:
/// the deepest reorganisation that stays inside the horizon. It needs the horizon block's own body,
/// running sums and spend record, i.e. compaction must keep the tail block.
fn build_max_depth_reorg_scenario(world: &mut World) {
	let mut base = world.winner();
	if world.blocks[base].height < 82 {
		return;
	}
	while (world.blocks[base].height + 1) % 10 != 0 {
		base = match world.extend_empty(base, 0) {
			Ok(b) => b,
			Err(_) => return,
		};
	}
	let n_before = world.blocks.len();
	let s = match world.extend_empty(base, 0) {
		Ok(s) => s,
		Err(_) => return,
	};
	let sh = world.blocks[s].height;
	let mut fp = s;
	while world.blocks[fp].height + global_horizon() > sh {
		fp = match world.blocks[fp].parent {
			Some(p) => p,
			None => return,
		};
	}
	let mut fork = vec![];
	let mut f = fp;
	let mut guard = 0;
	while (fork.is_empty() || world.blocks[f].total_difficulty <= world.blocks[s].total_difficulty) && guard < 45 {
		f = match world.extend_empty(f, 9) {
			Ok(b) => b,
			Err(_) => return,
		};
		fork.push(f);
		guard += 1;
	}
	if world.blocks[f].total_difficulty <= world.blocks[s].total_difficulty {
		return;
	}
	let mut sc = vec![n_before, s];
	sc.extend(fork);
	world.scenario3 = sc;
}

fn global_horizon() -> u64 {
	grin_core::global::cut_through_horizon() as u64
}

/// Ops of the scenario: the generated tree parents first, H, compact, restart, the fork, validate.
fn compaction_reorg_ops(world: &World) -> Option<Vec<Op>> {
	scenario_ops_of(world, &world.scenario)
}

fn scenario_ops_of(world: &World, scenario: &[usize]) -> Option<Vec<Op>> {
	if scenario.len() < 3 {
		return None;
	}
	let n_before = scenario[0];
	let mut ops: Vec<Op> = vec![];
	let mut order: Vec<usize> = (1..n_before).collect();
	order.sort_by_key(|i| (world.blocks[*i].height, *i));
	for id in &order {
		ops.push(Op::Block { node: 0, id: *id });
	}
	ops.push(Op::Block { node: 0, id: scenario[1] });
	ops.push(Op::Compact { node: 0 });
	ops.push(Op::Restart { node: 0 });
	for id in &scenario[2..] {
		ops.push(Op::Block { node: 0, id: *id });
	}
	ops.push(Op::Validate { node: 0, fast: false });
	Some(ops)
}

/// C01 transaction-level clause: honest transactions of several shapes (ordinary, output-less with
/// everything burned as fee, multi-kernel aggregates) validate; every single-field corruption of
/// them (signature, fee, excess, offset, proof, input, output commitment) is refused by
/// Transaction::validate.
pub fn check_tx_matrix(world: &mut World) -> Result<u64, (String, String)> {
	use grin_core::core::transaction::{self, Weighting};
	use grin_core::core::{FeeFields, KernelFeatures, Transaction};
	let mut shapes: Vec<(String, Transaction)> = vec![];
	let tip = world.winner();
	let height = world.blocks[tip].height + 1;
	let mut pool = World::spendable(&world.blocks[tip].ledger, height);
	world.rng.shuffle(&mut pool);
	// ordinary
	if let Some(x) = pool.pop() {
		let fee = grin_core::libtx::tx_fee(1, 2, 1);
		if x.value > fee + 10 {
			let a = world.rng.range(1, x.value - fee - 1);
			let (t, _) = world.wallet.build_tx(&[x.clone()], &[a, x.value - fee - a], None, KernelFeatures::Plain { fee: FeeFields::new(0, fee).unwrap() });
			shapes.push(("ordinary".into(), t));
		}
	}
	// output-less: the whole input is paid as fee
	if let Some(x) = pool.pop() {
		if let Ok(ff) = FeeFields::new(0, x.value) {
			let (t, _) = world.wallet.build_tx(&[x.clone()], &[], None, KernelFeatures::Plain { fee: ff });
			shapes.push(("output-less".into(), t));
		}
	}
	// height-locked, single output
	if let Some(x) = pool.pop() {
		let fee = grin_core::libtx::tx_fee(1, 1, 1);
		if x.value > fee + 1 {
			let (t, _) = world.wallet.build_tx(&[x.clone()], &[x.value - fee], None, KernelFeatures::HeightLocked { fee: FeeFields::new(0, fee).unwrap(), lock_height: height });
			shapes.push(("height-locked".into(), t));
		}
	}
	// fee with a priority shift: the shift is a mempool hint only, the balance uses the full fee.
	// The honest one must validate; one that pays only `fee >> shift` while declaring `fee` must not.
	let mut extra_bad: Vec<(String, Transaction)> = vec![];
	for _ in 0..2 {
		if let Some(x) = pool.pop() {
			let shift = world.rng.range(1, 8);
			let fee = (grin_core::libtx::tx_fee(1, 1, 1) << shift) | 1;
			if x.value > fee + 1 {
				let ff = FeeFields::new(shift, fee).unwrap();
				if shapes.iter().all(|(n, _)| n != "fee-shifted") {
					let (t, _) = world.wallet.build_tx(&[x.clone()], &[x.value - fee], None, KernelFeatures::Plain { fee: ff });
					shapes.push(("fee-shifted".into(), t));
				} else {
					let (t, _) = world.wallet.build_tx(&[x.clone()], &[x.value - (fee >> shift)], None, KernelFeatures::Plain { fee: ff });
					extra_bad.push(("declares a fee with a priority shift but pays-only-shifted-fee".into(), t));
				}
			}
		}
	}
	// a fee field as only the wire can deliver it: the 20 reserved bits above the fee and its shift
	// set. They carry no value: a transaction whose outputs exceed its inputs by what those bits would
	// be worth as a (wrapped, negative) fee creates coins.
	if let Some(x) = pool.pop() {
		let fee = grin_core::libtx::tx_fee(1, 1, 1);
		let raw: u64 = 0xffff_f000_0000_0000 | fee;
		let ff: Result<FeeFields, _> = grin_core::ser::deserialize(&mut &raw.to_be_bytes()[..], grin_core::ser::ProtocolVersion::local(), grin_core::ser::DeserializationMode::default());
		if let Ok(ff) = ff {
			// 2^64 - (raw fee field read as a fee) = 2^44 - fee more than the inputs hold
			let created = (1u64 << 44) - fee;
			let (t, _) = world.wallet.build_tx(&[x.clone()], &[x.value + created], None, KernelFeatures::Plain { fee: ff });
			extra_bad.push(("has reserved fee-field bits set and outputs worth 2^44 nanogrin more than its inputs".into(), t));
		}
	}
	for (vname, t) in &extra_bad {
		if t.validate(Weighting::AsTransaction).is_ok() {
			return Err((format!("corrupted-tx-accepted:{}", vname), format!("a transaction that {} passes Transaction::validate", vname)));
		}
	}
	// multi-kernel aggregate
	if shapes.len() >= 2 {
		if let Ok(a) = transaction::aggregate(&[shapes[0].1.clone(), shapes[shapes.len() - 1].1.clone()]) {
			shapes.push(("aggregate".into(), a));
		}
	}
	let mut n = 0u64;
	for (name, tx) in &shapes {
		if let Err(e) = tx.validate(Weighting::AsTransaction) {
			return Err(("honest-tx-refused".into(), format!("honest {} transaction fails Transaction::validate: {:?}", name, e)));
		}
		let mut variants: Vec<(String, Transaction)> = vec![];
		for k in 0..tx.body.kernels.len() {
			let mut t = tx.clone();
			let mut raw = [0u8; 64];
			raw.copy_from_slice(&world.rng.bytes(64));
			if let Ok(sig) = grin_util::secp::Signature::from_raw_data(&raw) {
				t.body.kernels[k].excess_sig = sig;
				variants.push((format!("kernel{}-garbage-signature", k), t));
			}
			let mut t = tx.clone();
			let other = world.wallet.secret();
			t.body.kernels[k].excess = world.wallet.keychain.secp().commit(0, other).unwrap();
			variants.push((format!("kernel{}-excess-replaced", k), t));
			let mut t = tx.clone();
			let f = t.body.kernels[k].features;
			let extra = 1 + world.rng.below(1000);
			let bump = |ff: FeeFields| FeeFields::new(ff.fee_shift() as u64, ff.fee() + extra).unwrap();
			t.body.kernels[k].features = match f {
				KernelFeatures::Plain { fee } => KernelFeatures::Plain { fee: bump(fee) },
				KernelFeatures::HeightLocked { fee, lock_height } => KernelFeatures::HeightLocked { fee: bump(fee), lock_height },
				other => other,
			};
			variants.push((format!("kernel{}-fee-changed", k), t));
			if let KernelFeatures::HeightLocked { fee, lock_height } = f {
				let mut t = tx.clone();
				t.body.kernels[k].features = KernelFeatures::HeightLocked { fee, lock_height: lock_height + 1 };
				variants.push((format!("kernel{}-lock-height-changed", k), t));
			}
		}
		{
			let mut t = tx.clone();
			t.offset = grin_keychain::BlindingFactor::from_secret_key(world.wallet.secret());
			variants.push(("offset-replaced".into(), t));
		}
		if tx.body.outputs.len() >= 2 {
			let mut t = tx.clone();
			let p = t.body.outputs[0].proof;
			t.body.outputs[0].proof = t.body.outputs[1].proof;
			t.body.outputs[1].proof = p;
			variants.push(("proofs-swapped".into(), t));
		}
		if !tx.body.outputs.is_empty() {
			let mut t = tx.clone();
			let k = world.wallet.fresh_key();
			t.body.outputs[0].identifier.commit = world.wallet.commit(12345, &k);
			t.body.sort();
			variants.push(("output-commitment-replaced".into(), t));
		}
		{
			// spend somebody else's output instead
			let mut t = tx.clone();
			if let Some(o) = pool.last() {
				let ins: Vec<grin_core::core::CommitWrapper> = vec![o.commit.into()];
				t.body.inputs = grin_core::core::Inputs::CommitOnly(ins);
				variants.push(("input-replaced".into(), t));
			}
		}
		for (vname, t) in variants {
			if t.validate(Weighting::AsTransaction).is_ok() {
				return Err((
					format!("corrupted-tx-accepted:{}", vname.trim_start_matches(|c: char| c.is_ascii_digit())),
					format!("{} transaction with {} passes Transaction::validate", name, vname),
				));
			}
			n += 1;
		}
	}
	Ok(n)
}

/// C04 in-run invariant: for every honest header the network difficulty (and secondary scaling
/// before the last hard fork) equals an independent re-implementation of the retarget, is at least
/// the minimum and sits inside the damp/clamp envelope.
pub fn check_retarget(world: &World) -> Result<u64, (String, String)> {
	use crate::refmodel::{ref_next_difficulty, DiffInfo};
	use grin_core::consensus;
	use grin_core::global;
	if world.cfg.free_difficulty {
		return Ok(0);
	}
	let mut n = 0;
	for b in world.blocks.iter().skip(1) {
		// ancestry newest -> oldest
		let mut hist = vec![];
		let mut cur = b.parent;
		while let Some(id) = cur {
			let w = &world.blocks[id];
			let prev_td = w.parent.map(|p| world.blocks[p].total_difficulty).unwrap_or(0);
			hist.push(DiffInfo {
				ts: w.block.header.timestamp.timestamp() as u64,
				diff: w.total_difficulty - prev_td,
				scaling: w.block.header.pow.secondary_scaling,
				secondary: w.block.header.pow.is_secondary(),
			});
			cur = w.parent;
		}
		let hv = consensus::header_version(b.height).0;
		let (d, s, lo, hi) = ref_next_difficulty(
			b.height,
			hv,
			&hist,
			global::initial_graph_weight(),
			global::min_wtema_graph_weight(),
		);
		let actual = b.total_difficulty - world.blocks[b.parent.unwrap()].total_difficulty;
		if actual != d {
			return Err((
				"retarget-differs".into(),
				format!("block #{} h{} (header v{}): accepted network difficulty {} but the reference retarget gives {}", b.id, b.height, hv, actual, d),
			));
		}
		if hv < 5 && b.block.header.pow.secondary_scaling != s {
			return Err((
				"secondary-scaling-differs".into(),
				format!("block #{} h{}: accepted secondary scaling {} but the reference gives {}", b.id, b.height, b.block.header.pow.secondary_scaling, s),
			));
		}
		if actual < lo || actual > hi {
			return Err((
				"retarget-outside-envelope".into(),
				format!("block #{} h{}: difficulty {} outside [{}, {}]", b.id, b.height, actual, lo, hi),
			));
		}
		n += 1;
	}
	Ok(n)
}

/// C04 read-time clause: a header from the network beyond the future-time limit is refused by
/// the untrusted decoder, one inside it decodes.
pub fn check_ftl(world: &World) -> Result<u64, (String, String)> {
	use grin_core::core::block::UntrustedBlockHeader;
	use grin_core::ser::{self, ProtocolVersion};
	let mut n = 0;
	let tip = &world.blocks[world.winner()].block.header;
	let ftl = grin_core::global::get_future_time_limit() as i64;
	let now = chrono::Utc::now();
	for (off, want_ok) in [(ftl + 3600, false), (ftl - 3600, true), (-3600 * 24, true)] {
		let mut h = tip.clone();
		h.timestamp = now + chrono::Duration::seconds(off);
		// second resolution, as the wire format carries
		let ts = h.timestamp.timestamp();
		h.timestamp = chrono::DateTime::<chrono::Utc>::from_timestamp(ts, 0).unwrap();
		// the decoder also verifies the cycle: re-mine after touching the pre-PoW
		h.pow.nonce = 0;
		grin_core::pow::pow_size(&mut h, grin_core::pow::Difficulty::from_num(1), grin_core::global::proofsize(), grin_core::global::min_edge_bits())
			.map_err(|e| ("pow-error".to_string(), format!("{:?}", e)))?;
		for v in [1u32, 2, 3] {
			let bytes = ser::ser_vec(&h, ProtocolVersion(v)).map_err(|e| ("ser-error".to_string(), format!("{:?}", e)))?;
			let r: Result<UntrustedBlockHeader, _> = ser::deserialize(&mut &bytes[..], ProtocolVersion(v), ser::DeserializationMode::default());
			if r.is_ok() != want_ok {
				return Err((
					"future-time-limit".into(),
					format!("header with timestamp now{:+}s (limit {}s) decoded ok={} at protocol version {}, expected ok={}", off, ftl, r.is_ok(), v, want_ok),
				));
			}
			n += 1;
			// the same header inside a full block and a compact block message (what a peer relays):
			// a header beyond the limit must be refused on every path, whatever else the body says
			if !want_ok {
				use grin_core::core::block::UntrustedBlock;
				use grin_core::core::compact_block::UntrustedCompactBlock;
				let mut b = world.blocks[world.winner()].block.clone();
				b.header = h.clone();
				// (commit-only inputs cannot be written at versions 1 and 2: those are skipped)
				if let Ok(bytes) = ser::ser_vec(&b, ProtocolVersion(v)) {
					let rb: Result<UntrustedBlock, _> = ser::deserialize(&mut &bytes[..], ProtocolVersion(v), ser::DeserializationMode::default());
					if rb.is_ok() {
						return Err(("future-time-limit".into(), format!("a full block whose header is stamped now{:+}s (limit {}s) was decoded at protocol version {}", off, ftl, v)));
					}
					n += 1;
				}
				let cb: grin_core::core::CompactBlock = b.clone().into();
				if let Ok(bytes) = ser::ser_vec(&cb, ProtocolVersion(v)) {
					let rc: Result<UntrustedCompactBlock, _> = ser::deserialize(&mut &bytes[..], ProtocolVersion(v), ser::DeserializationMode::default());
					if rc.is_ok() {
						return Err(("future-time-limit".into(), format!("a compact block whose header is stamped now{:+}s (limit {}s) was decoded at protocol version {}", off, ftl, v)));
					}
					n += 1;
				}
			}
		}
	}
	Ok(n)
}

/// Shrink the failing op list while the same violation key persists; attach the replay payload.
pub fn minimise(
	world: &World,
	property: &str,
	tier: &str,
	seed: u64,
	oracles: &Oracles,
	n_nodes: usize,
	twin: bool,
	ops: &[Op],
	idx: usize,
	v: Violation,
) -> Violation {
	let final_checks = idx >= ops.len();
	let prefix: Vec<Op> = if final_checks {
		ops.to_vec()
	} else {
		ops[..=idx].to_vec()
	};
	let key = v.key.clone();
	let mut counter = 0;
	let min_ops = crate::sim::ddmin(
		&prefix,
		|cand| {
			counter += 1;
			let out = chainsim::run_ops(
				world,
				property,
				oracles,
				n_nodes,
				twin,
				cand,
				final_checks,
				&format!("{}-min{}", property, counter),
				0,
				None,
			);
			match out.violation {
				Some((_, v2)) => v2.key == key,
				None => false,
			}
		},
		60,
	);
	// re-run the minimised list to get its own message
	let out = chainsim::run_ops(
		world,
		property,
		oracles,
		n_nodes,
		twin,
		&min_ops,
		final_checks,
		&format!("{}-minfinal", property),
		0,
		None,
	);
	let what = match &out.violation {
		Some((_, v2)) if v2.key == key => v2.what.clone(),
		_ => v.what.clone(),
	};
	Violation {
		key: v.key,
		what: format!("{} [minimised from {} to {} ops]", what, prefix.len(), min_ops.len()),
		replay: json!({
			"engine": "chainsim",
			"property": property,
			"tier": tier,
			"case_seed": seed,
			"world_digest": format!("{:016x}", world.digest()),
			"n_nodes": n_nodes,
			"twin": twin,
			"final_checks": final_checks,
			"ops": chainsim::ops_to_json(&min_ops),
			"log": out.log,
		}),
	}
}

/// Re-execute a replay payload; returns the violation if it reproduces.
pub fn replay_chainsim(rp: &Value) -> Result<Option<Violation>, String> {
	let property = rp["property"].as_str().ok_or("no property")?;
	let tier = rp["tier"].as_str().unwrap_or("quick");
	let seed = rp["case_seed"].as_u64().ok_or("no case_seed")?;
	let world = build_world(property, tier, seed);
	if rp["world_only"].as_bool().unwrap_or(false) {
		return match world {
			Ok(mut w) => {
				w.cleanup();
				Ok(None)
			}
			Err(e) => Ok(Some(Violation {
				key: format!("{}:honest-block-refused-by-builder", property),
				what: e,
				replay: rp.clone(),
			})),
		};
	}
	let mut world = world?;
	if rp["tx_matrix_only"].as_bool().unwrap_or(false) {
		let r = check_tx_matrix(&mut world);
		world.cleanup();
		return Ok(r.err().map(|(k, w)| Violation { key: format!("{}:{}", property, k), what: w, replay: rp.clone() }));
	}
	if rp["retarget_only"].as_bool().unwrap_or(false) {
		let r = check_retarget(&world).and_then(|_| check_ftl(&world));
		world.cleanup();
		return Ok(r.err().map(|(k, w)| Violation { key: format!("{}:{}", property, k), what: w, replay: rp.clone() }));
	}
	let wd = format!("{:016x}", world.digest());
	if let Some(want) = rp["world_digest"].as_str() {
		if want != wd {
			eprintln!("note: regenerated world digest {} differs from recorded {}", wd, want);
		}
	}
	let ops = chainsim::ops_from_json(&rp["ops"]);
	let oracles = oracles_for(property);
	let out = chainsim::run_ops(
		&world,
		property,
		&oracles,
		rp["n_nodes"].as_u64().unwrap_or(1) as usize,
		rp["twin"].as_bool().unwrap_or(false),
		&ops,
		rp["final_checks"].as_bool().unwrap_or(false),
		"replay",
		0,
		None,
	);
	for l in &out.log {
		println!("  {}", l);
	}
	world.cleanup();
	Ok(out.violation.map(|(_, v)| v))
}

pub fn run_case(property: &str, tier: &str, seed: u64, case: u64) -> CaseResult {
	match property {
		"C09" => crate::crashsim::case(tier, seed, case),
		"C19" => {
			// one case in four: what a complete node itself writes, at every negotiated protocol version
			if case % 4 == 3 {
				crate::netsim::versions_case(tier, seed, case)
			} else {
				crate::wiresim::c19_case(tier, seed, case)
			}
		}
		"C11" => {
			if case % 5 == 4 {
				crate::apisim::case(tier, seed, case)
			} else if case % 5 == 2 {
				// a hostile peer against the complete node: decoders *and* the handlers behind them
				crate::netsim::hostile_case(tier, seed, case)
			} else {
				crate::wiresim::c11_case(tier, seed, case)
			}
		}
		"C14" => {
			if case % 4 == 2 {
				crate::netsim::mesh_case(property, tier, seed, case)
			} else {
				crate::poolsim::case(tier, seed, case)
			}
		}
		"C16" => crate::pibdsim::case(tier, seed, case),
		"C17" => crate::schedsim::case(tier, seed, case),
		"C18" => crate::dbsim::case(tier, seed, case),
		"C15" => {
			if case % 3 == 2 {
				let mut r = crate::txhsim::case(tier, seed, case);
				let runs = r.runs;
				r.extra.insert("txhsim_runs".into(), json!(runs));
				r
			} else {
				chainsim_case(property, tier, seed, case)
			}
		}
		"C08" => {
			if case % 4 == 3 {
				let mut r = chainsim_case(property, tier, seed, case);
				// report chain-level counters under their own names
				let runs = r.runs;
				r.extra.insert("chain_level_runs".into(), json!(runs));
				r
			} else {
				crate::storesim::case(tier, seed, case)
			}
		}
		"C13" => {
			// pool clause (add_to_pool refuses immature spends / future lock heights, accepts at the
			// boundary) on every fourth case
			if case % 4 == 3 {
				crate::poolsim::case_c13(tier, seed, case)
			} else {
				chainsim_case(property, tier, seed, case)
			}
		}
		"C03" | "C06" => {
			// every fourth case delivers the world through the real p2p stack (E11 netsim); for C03 every
			// eighth is a mesh of real nodes gossiping among themselves
			if property == "C03" && case % 8 == 1 {
				// the world reaches the node through its own sync loop (E12)
				crate::syncsim::case_c03(tier, seed, case)
			} else if property == "C03" && case % 8 == 5 {
				crate::netsim::mesh_case(property, tier, seed, case)
			} else if property == "C06" && case % 8 == 5 {
				// the pool clauses of C06 (submissions never change chain state; a losing fork block leaves
				// the pool alone)
				crate::poolsim::case_c06(tier, seed, case)
			} else if case % 4 == 3 {
				crate::netsim::relay_case(property, tier, seed, case)
			} else {
				chainsim_case(property, tier, seed, case)
			}
		}
		p if CHAINSIM_PROPS.contains(&p) => chainsim_case(property, tier, seed, case),
		_ => {
			let mut r = CaseResult::new(case, seed);
			r.harness_error = Some(format!("no engine for property {}", property));
			r
		}
	}
}
