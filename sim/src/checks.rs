//! Per-property check definitions: how many cases, which engine, which oracles, which workload.

use crate::chainsim::{self, Op, Oracles, SchedCfg};
use crate::rng::SimRng;
use crate::sim::{CaseResult, CheckSpec, Violation};
use crate::world::{World, WorldCfg};
use serde_json::{json, Value};
use std::time::Instant;

pub const CLAIMED: &[&str] = &["C02", "C03"];

fn chain_real() -> Vec<String> {
	vec![
		"grin_core consensus/validation (blocks, transactions, PoW cuckatoo edge_bits 10)".into(),
		"grin_keychain + secp256k1zkp (real range proofs and signatures)".into(),
		"grin_chain::Chain, pipe, TxHashSet, ChainStore".into(),
		"grin_store PMMR backend files and LMDB on tmpfs".into(),
	]
}

fn chain_stub() -> Vec<String> {
	vec![
		"p2p network (simulated transport delivering typed blocks/headers)".into(),
		"servers::NetToChainAdapter (harness calls process_block / process_block_header / sync_block_headers with the same Options)".into(),
		"wallet (deterministic harness wallet over libtx)".into(),
		"miner (harness miner over Block::from_reward / set_txhashset_roots / pow_size)".into(),
	]
}

pub fn spec(property: &str, tier: &str) -> Option<CheckSpec> {
	let quick = tier != "thorough";
	let s = |engine: &str, level: &str, cases: u64, rule: &str, assumptions: Vec<&str>, probes: Vec<&str>| CheckSpec {
		property: property.to_string(),
		engine: engine.to_string(),
		level: level.to_string(),
		cases,
		rule: rule.to_string(),
		assumptions: assumptions.into_iter().map(|s| s.to_string()).collect(),
		real_components: chain_real(),
		stub_components: chain_stub(),
		case_timeout_s: if quick { 900 } else { 3600 },
		required_probes: probes.into_iter().map(|s| s.to_string()).collect(),
	};
	match property {
		"C03" => Some(s(
			"chainsim",
			"exploration",
			if quick { 16 } else { 160 },
			"case = one generated fork tree (seeded); run = one seeded delivery schedule (headers first or mixed, bodies permuted, duplicates, child-before-parent, clean restarts) over 1-3 replicas; distinct = distinct event-log digests (op, result class, node state digest per step); non-trivial = the schedule reordered bodies, orphaned a block, crossed a reorg or injected a fault",
			vec![
				"AutomatedTesting chain parameters (all five header versions within 15 blocks)",
				"maximum total difficulty is unique by construction (ties re-drawn)",
				"orphans stay far below the pool capacity of 200",
			],
			vec!["reorg", "orphaned", "fork_block"],
		)),
		"C02" => Some(s(
			"chainsim",
			"exploration",
			if quick { 16 } else { 160 },
			"case = one generated spend-heavy fork tree plus byzantine blocks (double spend, never-created input, fork-foreign input, duplicate unspent commitment); run = one seeded delivery schedule; after every delivery the node's get_unspent over every commitment ever created and its paged enumeration are compared with the ledger replayed from the node's own head; distinct/non-trivial as for C03",
			vec![
				"AutomatedTesting chain parameters",
				"reference ledger is computed from block contents only (inputs removed, outputs added) along the node's current best chain",
			],
			vec!["reorg", "fork_block"],
		)),
		_ => None,
	}
}

fn world_cfg_for(property: &str, rng: &mut SimRng, quick: bool) -> WorldCfg {
	let mut cfg = WorldCfg::draw(rng, quick);
	match property {
		"C03" => {
			cfg.free_difficulty = rng.chance(1, 2);
			cfg.tx_pct = rng.range(20, 60);
			cfg.branches = rng.range(1, 4) as usize;
		}
		"C02" => {
			cfg.tx_pct = 90;
			cfg.max_txs = 3;
		}
		_ => {}
	}
	cfg
}

fn oracles_for(property: &str) -> Oracles {
	let mut o = Oracles::default();
	match property {
		"C03" => {
			o.head = true;
		}
		"C02" => {
			o.utxo = true;
			o.head = true;
			o.reject_bad = true;
		}
		_ => {}
	}
	o
}

pub fn build_world(property: &str, tier: &str, seed: u64) -> Result<World, String> {
	let quick = tier != "thorough";
	let mut r = SimRng::new(seed).fork("cfg");
	let cfg = world_cfg_for(property, &mut r, quick);
	let mut w = World::new(seed, cfg, &format!("{}-w", property));
	w.generate_tree()?;
	Ok(w)
}

fn schedules_per_world(property: &str, quick: bool) -> u64 {
	match (property, quick) {
		(_, true) => 6,
		(_, false) => 20,
	}
}

/// Run one case of a chainsim-based property.
pub fn chainsim_case(property: &str, tier: &str, seed: u64, case: u64) -> CaseResult {
	let t0 = Instant::now();
	let quick = tier != "thorough";
	let mut res = CaseResult::new(case, seed);
	let world = match build_world(property, tier, seed) {
		Ok(w) => w,
		Err(e) => {
			// honest blocks refused while generating the world
			if property == "C03" || property == "C13" {
				res.violations.push(Violation {
					key: format!("{}:honest-block-refused-by-builder", property),
					what: e,
					replay: json!({"engine": "chainsim", "property": property, "tier": tier, "case_seed": seed, "world_only": true}),
				});
			} else {
				res.harness_error = Some(format!("world generation failed: {}", e));
			}
			res.wall_s = t0.elapsed().as_secs_f64();
			return res;
		}
	};
	let mut world = world;
	let oracles = oracles_for(property);
	let mut srng = SimRng::new(seed).fork("schedules");
	let k = schedules_per_world(property, quick);
	res.extra.insert("worlds".into(), json!(1));
	res.extra.insert("world_blocks".into(), json!(world.blocks.len()));
	res.extra.insert("bad_blocks".into(), json!(world.bad.len()));
	for run in 0..k {
		let mut rr = srng.fork(&format!("run{}", run));
		let mut scfg = SchedCfg::draw(&mut rr);
		if !world.bad.is_empty() {
			scfg.bad_pct = 20;
		}
		let (ops, reorders) = chainsim::gen_schedule(&world, &scfg, &mut rr);
		let out = chainsim::run_ops(
			&world,
			property,
			&oracles,
			scfg.n_nodes,
			false,
			&ops,
			true,
			&format!("{}-c{}r{}", property, case, run),
			reorders,
			Some(&mut res),
		);
		res.runs += 1;
		res.steps += out.steps;
		res.run_digests.push((out.log_digest, out.nontrivial));
		// simulated time: span of block timestamps delivered
		if res.samples.len() < 1 {
			res.samples.push(json!({
				"world_seed": seed,
				"world_blocks": world.blocks.len(),
				"sched": format!("{:?}", scfg),
				"ops_head": chainsim::sample_of(&ops, 25),
				"log_tail": out.log.iter().rev().take(3).cloned().collect::<Vec<_>>(),
			}));
		}
		if let Some((idx, v)) = out.violation {
			let v = minimise(&world, property, tier, seed, &oracles, scfg.n_nodes, false, &ops, idx, v);
			res.violations.push(v);
			break;
		}
	}
	let t_first = world.blocks[0].block.header.timestamp;
	let t_last = world.blocks.iter().map(|b| b.block.header.timestamp).max().unwrap();
	res.sim_time_s = (t_last - t_first).num_seconds() as f64 * res.runs as f64;
	world.cleanup();
	res.wall_s = t0.elapsed().as_secs_f64();
	res
}

/// Shrink the failing op list while the same violation key persists; attach the replay payload.
pub fn minimise(
	world: &World,
	property: &str,
	tier: &str,
	seed: u64,
	oracles: &Oracles,
	n_nodes: usize,
	twin: bool,
	ops: &[Op],
	idx: usize,
	v: Violation,
) -> Violation {
	let final_checks = idx >= ops.len();
	let prefix: Vec<Op> = if final_checks {
		ops.to_vec()
	} else {
		ops[..=idx].to_vec()
	};
	let key = v.key.clone();
	let mut counter = 0;
	let min_ops = crate::sim::ddmin(
		&prefix,
		|cand| {
			counter += 1;
			let out = chainsim::run_ops(
				world,
				property,
				oracles,
				n_nodes,
				twin,
				cand,
				final_checks,
				&format!("{}-min{}", property, counter),
				0,
				None,
			);
			match out.violation {
				Some((_, v2)) => v2.key == key,
				None => false,
			}
		},
		60,
	);
	// re-run the minimised list to get its own message
	let out = chainsim::run_ops(
		world,
		property,
		oracles,
		n_nodes,
		twin,
		&min_ops,
		final_checks,
		&format!("{}-minfinal", property),
		0,
		None,
	);
	let what = match &out.violation {
		Some((_, v2)) if v2.key == key => v2.what.clone(),
		_ => v.what.clone(),
	};
	Violation {
		key: v.key,
		what: format!("{} [minimised from {} to {} ops]", what, prefix.len(), min_ops.len()),
		replay: json!({
			"engine": "chainsim",
			"property": property,
			"tier": tier,
			"case_seed": seed,
			"world_digest": format!("{:016x}", world.digest()),
			"n_nodes": n_nodes,
			"twin": twin,
			"final_checks": final_checks,
			"ops": chainsim::ops_to_json(&min_ops),
			"log": out.log,
		}),
	}
}

/// Re-execute a replay payload; returns the violation if it reproduces.
pub fn replay_chainsim(rp: &Value) -> Result<Option<Violation>, String> {
	let property = rp["property"].as_str().ok_or("no property")?;
	let tier = rp["tier"].as_str().unwrap_or("quick");
	let seed = rp["case_seed"].as_u64().ok_or("no case_seed")?;
	let world = build_world(property, tier, seed);
	if rp["world_only"].as_bool().unwrap_or(false) {
		return match world {
			Ok(mut w) => {
				w.cleanup();
				Ok(None)
			}
			Err(e) => Ok(Some(Violation {
				key: format!("{}:honest-block-refused-by-builder", property),
				what: e,
				replay: rp.clone(),
			})),
		};
	}
	let mut world = world?;
	let wd = format!("{:016x}", world.digest());
	if let Some(want) = rp["world_digest"].as_str() {
		if want != wd {
			eprintln!("note: regenerated world digest {} differs from recorded {}", wd, want);
		}
	}
	let ops = chainsim::ops_from_json(&rp["ops"]);
	let oracles = oracles_for(property);
	let out = chainsim::run_ops(
		&world,
		property,
		&oracles,
		rp["n_nodes"].as_u64().unwrap_or(1) as usize,
		rp["twin"].as_bool().unwrap_or(false),
		&ops,
		rp["final_checks"].as_bool().unwrap_or(false),
		"replay",
		0,
		None,
	);
	for l in &out.log {
		println!("  {}", l);
	}
	world.cleanup();
	Ok(out.violation.map(|(_, v)| v))
}

pub fn run_case(property: &str, tier: &str, seed: u64, case: u64) -> CaseResult {
	match property {
		"C02" | "C03" => chainsim_case(property, tier, seed, case),
		_ => {
			let mut r = CaseResult::new(case, seed);
			r.harness_error = Some(format!("no engine for property {}", property));
			r
		}
	}
}
