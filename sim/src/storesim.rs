//! E2 storesim: one prunable MMR file backend driven with generated histories of units of work
//! (optional rewind to an earlier boundary, appends, removals, commit or discard), compactions at
//! any earlier boundary and reopen, compared after every step with an unpruned in-memory
//! reference holding the same leaf history.
//!
//! The workload obeys the store's usage protocol exactly as `TxHashSet::compact` and
//! `Extension::rewind` use it: rewinds go block boundary by block boundary with that block's spent
//! positions as `rewind_rm_pos` (1-based), never below the most recent compaction cutoff;
//! `check_compact(cutoff, rm)` takes a synced boundary and the positions spent after it; a leaf is
//! removed at most once; nothing is compacted inside an open unit.

use crate::node::fresh_dir;
use crate::refmodel::RefMmr;
use crate::rng::{fnv64, SimRng};
use crate::sim::{CaseResult, Violation};
use croaring::Bitmap;
use grin_core::core::hash::{DefaultHashable, Hash};
use grin_core::core::pmmr::{ReadablePMMR, PMMR};
use grin_core::ser::{
	Error as SerError, PMMRIndexHashable, PMMRable, ProtocolVersion, Readable, Reader, Writeable, Writer,
};
use grin_store::pmmr::PMMRBackend;
use serde_derive::{Deserialize, Serialize};
use serde_json::{json, Value};
use std::path::PathBuf;
use std::time::Instant;

// ------------------------------------------------------------------------------------------
// element types

pub trait SimElem: PMMRable<E = Self> + PartialEq + Sized {
	fn make(seed: u64, variable_len: usize) -> Self;
	fn name() -> &'static str;
}

#[derive(Clone, Debug, PartialEq)]
pub struct FixElem(pub [u8; 33]);
impl DefaultHashable for FixElem {}
impl PMMRable for FixElem {
	type E = Self;
	fn as_elmt(&self) -> Self {
		self.clone()
	}
	fn elmt_size() -> Option<u16> {
		Some(33)
	}
}
impl Writeable for FixElem {
	fn write<W: Writer>(&self, w: &mut W) -> Result<(), SerError> {
		w.write_fixed_bytes(&self.0[..])
	}
}
impl Readable for FixElem {
	fn read<R: Reader>(r: &mut R) -> Result<FixElem, SerError> {
		let v = r.read_fixed_bytes(33)?;
		let mut a = [0u8; 33];
		a.copy_from_slice(&v);
		Ok(FixElem(a))
	}
}
impl SimElem for FixElem {
	fn make(seed: u64, _l: usize) -> Self {
		let mut r = SimRng::new(seed);
		let b = r.bytes(33);
		let mut a = [0u8; 33];
		a.copy_from_slice(&b);
		FixElem(a)
	}
	fn name() -> &'static str {
		"fixed33"
	}
}

#[derive(Clone, Debug, PartialEq)]
pub struct VarElem(pub Vec<u8>);
impl DefaultHashable for VarElem {}
impl PMMRable for VarElem {
	type E = Self;
	fn as_elmt(&self) -> Self {
		self.clone()
	}
	fn elmt_size() -> Option<u16> {
		None
	}
}
impl Writeable for VarElem {
	fn write<W: Writer>(&self, w: &mut W) -> Result<(), SerError> {
		w.write_u16(self.0.len() as u16)?;
		w.write_fixed_bytes(&self.0[..])
	}
}
impl Readable for VarElem {
	fn read<R: Reader>(r: &mut R) -> Result<VarElem, SerError> {
		let n = r.read_u16()? as usize;
		Ok(VarElem(r.read_fixed_bytes(n)?))
	}
}
impl SimElem for VarElem {
	fn make(seed: u64, l: usize) -> Self {
		let mut r = SimRng::new(seed);
		VarElem(r.bytes(l))
	}
	fn name() -> &'static str {
		"variable"
	}
}

// ------------------------------------------------------------------------------------------
// ops

#[derive(Serialize, Deserialize, Clone, Debug, PartialEq)]
pub enum RemovePattern {
	/// k random unspent leaves
	Random(u64),
	/// both leaves of a random sibling pair
	Siblings,
	/// every unspent leaf of an aligned subtree of 2^k leaves
	Subtree(u32),
	/// every unspent leaf under the largest (leftmost) peak
	Peak,
	/// every other unspent leaf
	Alternate,
	/// every unspent leaf created before the given synced boundary
	AllBefore(usize),
	/// the leaves re-added by this unit's rewind
	Readded,
	None,
}

#[derive(Serialize, Deserialize, Clone, Debug, PartialEq)]
pub enum Op {
	Unit {
		/// rewind first to this many synced units back (0 = none)
		rewind_back: usize,
		appends: u64,
		remove: RemovePattern,
		commit: bool,
		/// PRNG value for element contents and random picks
		r: u64,
	},
	/// compact at the boundary `back` units before the last synced one
	Compact { back: usize },
	Reopen,
}

#[derive(Clone)]
struct UnitRec {
	size_before: u64,
	size_after: u64,
	/// pos0 of leaves this unit removed
	spent: Vec<u64>,
}

#[derive(Clone)]
struct Model<T: SimElem> {
	/// every leaf currently in the MMR: (pos0, element, alive)
	leaves: Vec<(u64, T, bool)>,
	units: Vec<UnitRec>,
	/// index into `units` of the most recent compaction cutoff (rewinds may not go below)
	floor: usize,
}

impl<T: SimElem> Model<T> {
	fn size(&self) -> u64 {
		self.units.last().map(|u| u.size_after).unwrap_or(0)
	}
	fn reference(&self) -> RefMmr {
		let mut m = RefMmr::new();
		for (_, e, _) in &self.leaves {
			m.push(e);
		}
		m
	}
}

pub struct StoreSim<T: SimElem> {
	dir: PathBuf,
	backend: Option<PMMRBackend<T>>,
	model: Model<T>,
	size: u64,
	pub log: Vec<String>,
	pub step: u64,
	pub probes: std::collections::BTreeMap<String, u64>,
	elem_ctr: u64,
}

fn viol(key: &str, what: String) -> Violation {
	Violation {
		key: format!("C08:{}", key),
		what,
		replay: Value::Null,
	}
}

impl<T: SimElem> StoreSim<T> {
	pub fn new(tag: &str) -> StoreSim<T> {
		let dir = fresh_dir(tag);
		let backend = PMMRBackend::new(&dir, true, ProtocolVersion(1), None).expect("backend");
		let mut model = Model {
			leaves: vec![],
			units: vec![],
			floor: 0,
		};
		// unit 0: the empty MMR (so that "boundary 0" exists)
		model.units.push(UnitRec {
			size_before: 0,
			size_after: 0,
			spent: vec![],
		});
		StoreSim {
			dir,
			backend: Some(backend),
			model,
			size: 0,
			log: vec![],
			step: 0,
			probes: Default::default(),
			elem_ctr: 0,
		}
	}

	pub fn destroy(&mut self) {
		self.backend = None;
		let _ = std::fs::remove_dir_all(&self.dir);
	}

	fn probe(&mut self, k: &str) {
		*self.probes.entry(k.to_string()).or_insert(0) += 1;
	}

	fn backend(&mut self) -> &mut PMMRBackend<T> {
		self.backend.as_mut().unwrap()
	}

	pub fn exec(&mut self, op: &Op) -> Result<(), Violation> {
		self.step += 1;
		match op {
			Op::Unit {
				rewind_back,
				appends,
				remove,
				commit,
				r,
			} => self.unit(*rewind_back, *appends, remove, *commit, *r)?,
			Op::Compact { back } => self.compact(*back)?,
			Op::Reopen => {
				self.backend = None;
				let b = PMMRBackend::new(&self.dir, true, ProtocolVersion(1), None)
					.map_err(|e| viol("reopen-failed", format!("step {}: reopen failed: {:?}", self.step, e)))?;
				let sz = b.unpruned_size();
				self.backend = Some(b);
				if sz != self.size {
					return Err(viol(
						"reopen-size",
						format!("step {}: size after reopen {} != synced size {}", self.step, sz, self.size),
					));
				}
				self.probe("reopen");
			}
		}
		self.check(&format!("{:?}", op))
	}

	fn unit(
		&mut self,
		rewind_back: usize,
		appends: u64,
		remove: &RemovePattern,
		commit: bool,
		r: u64,
	) -> Result<(), Violation> {
		let mut rng = SimRng::new(r);
		let snapshot = self.model.clone();
		let snapshot_size = self.size;
		let step = self.step;
		let mut size = self.size;
		let mut readded: Vec<u64> = vec![];
		// 1. rewind, boundary by boundary
		let last = self.model.units.len() - 1;
		let target = last.saturating_sub(rewind_back).max(self.model.floor);
		if target < last {
			self.probe("rewind");
			for i in ((target + 1)..=last).rev() {
				let u = self.model.units[i].clone();
				let bitmap: Bitmap = u.spent.iter().map(|p| (*p + 1) as u32).collect();
				let backend = self.backend.as_mut().unwrap();
				let mut pmmr: PMMR<'_, T, _> = PMMR::at(backend, size);
				pmmr.rewind(u.size_before, &bitmap)
					.map_err(|e| viol("rewind-error", format!("step {}: rewind failed: {}", step, e)))?;
				size = pmmr.unpruned_size();
				// model
				self.model.leaves.retain(|(p, _, _)| *p < u.size_before);
				for (p, _, alive) in self.model.leaves.iter_mut() {
					if u.spent.contains(p) {
						*alive = true;
						readded.push(*p);
					}
				}
			}
			self.model.units.truncate(target + 1);
			readded.retain(|p| self.model.leaves.iter().any(|(q, _, a)| q == p && *a));
			if !readded.is_empty() {
				self.probe("leaves_readded_by_rewind");
			}
		}
		let size_before = size;
		// 2. removals of existing unspent leaves
		let alive: Vec<u64> = self
			.model
			.leaves
			.iter()
			.filter(|(_, _, a)| *a)
			.map(|(p, _, _)| *p)
			.collect();
		let mut to_remove: Vec<u64> = vec![];
		match remove {
			RemovePattern::None => {}
			RemovePattern::Random(k) => {
				let mut a = alive.clone();
				rng.shuffle(&mut a);
				to_remove = a.into_iter().take(*k as usize).collect();
			}
			RemovePattern::Siblings => {
				// leaf indices 2i, 2i+1
				let n = self.model.leaves.len();
				if n >= 2 {
					let i = rng.usize_below(n / 2) * 2;
					for j in [i, i + 1] {
						if self.model.leaves[j].2 {
							to_remove.push(self.model.leaves[j].0);
						}
					}
				}
			}
			RemovePattern::Subtree(k) => {
				let w = 1usize << k;
				let n = self.model.leaves.len();
				if n >= w {
					let i = rng.usize_below(n / w) * w;
					for j in i..i + w {
						if self.model.leaves[j].2 {
							to_remove.push(self.model.leaves[j].0);
						}
					}
				}
			}
			RemovePattern::Peak => {
				let n = self.model.leaves.len();
				if n > 0 {
					let w = 1usize << (usize::BITS - 1 - n.leading_zeros());
					for j in 0..w {
						if self.model.leaves[j].2 {
							to_remove.push(self.model.leaves[j].0);
						}
					}
				}
			}
			RemovePattern::Alternate => {
				to_remove = alive.iter().step_by(2).cloned().collect();
			}
			RemovePattern::AllBefore(back) => {
				let last = self.model.units.len() - 1;
				let b = last.saturating_sub(*back);
				let cutoff = self.model.units[b].size_after;
				to_remove = alive.iter().filter(|p| **p < cutoff).cloned().collect();
			}
			RemovePattern::Readded => {
				to_remove = readded.clone();
			}
		}
		if to_remove.len() as u64 >= 1 {
			self.probe("removals");
		}
		{
			let backend = self.backend.as_mut().unwrap();
			let mut pmmr: PMMR<'_, T, _> = PMMR::at(backend, size);
			for p in &to_remove {
				match pmmr.prune(*p) {
					Ok(true) => {}
					Ok(false) => {
						return Err(viol(
							"prune-false",
							format!("step {}: prune({}) of a leaf the reference holds unspent returned false", step, p),
						))
					}
					Err(e) => return Err(viol("prune-error", format!("step {}: prune({}) failed: {}", step, p, e))),
				}
			}
			// 3. appends
			for _ in 0..appends {
				self.elem_ctr += 1;
				let e = T::make(rng.next_u64() ^ self.elem_ctr, 1 + rng.usize_below(90));
				let pos = pmmr
					.push(&e)
					.map_err(|er| viol("push-error", format!("step {}: push failed: {}", step, er)))?;
				self.model.leaves.push((pos, e, true));
			}
			size = pmmr.unpruned_size();
		}
		for (p, _, a) in self.model.leaves.iter_mut() {
			if to_remove.contains(p) {
				*a = false;
			}
		}
		// in-unit check (uncommitted state must read back too)
		self.size = size;
		self.model.units.push(UnitRec {
			size_before,
			size_after: size,
			spent: to_remove.clone(),
		});
		self.check("in-unit")?;
		// 4. commit or discard
		if commit {
			self.backend()
				.sync()
				.map_err(|e| viol("sync-error", format!("step {}: sync failed: {:?}", step, e)))?;
			self.probe("commit");
		} else {
			self.backend().discard();
			self.model = snapshot;
			self.size = snapshot_size;
			self.probe("discard");
		}
		Ok(())
	}

	fn compact(&mut self, back: usize) -> Result<(), Violation> {
		let last = self.model.units.len() - 1;
		let b = last.saturating_sub(back).max(self.model.floor);
		let cutoff = self.model.units[b].size_after;
		let mut rm = Bitmap::new();
		for u in self.model.units.iter().skip(b + 1) {
			for p in &u.spent {
				rm.add((*p + 1) as u32);
			}
		}
		let step = self.step;
		let before_data = self.backend().data_size();
		self.backend()
			.check_compact(cutoff, &rm)
			.map_err(|e| viol("compact-error", format!("step {}: check_compact failed: {:?}", step, e)))?;
		let after_data = self.backend().data_size();
		if after_data < before_data {
			self.probe("compaction_removed_data");
		}
		self.model.floor = b;
		self.probe("compact");
		Ok(())
	}

	/// Compare the backend with the unpruned reference.
	fn check(&mut self, ctx: &str) -> Result<(), Violation> {
		let step = self.step;
		let size = self.size;
		let reference = self.model.reference();
		let want_root = reference.root();
		let leaves = self.model.leaves.clone();
		let backend = self.backend.as_mut().unwrap();
		let pmmr: PMMR<'_, T, _> = PMMR::at(backend, size);
		if size != reference.size() {
			return Err(viol(
				"size-differs",
				format!("step {} ({}): MMR size {} but reference {}", step, ctx, size, reference.size()),
			));
		}
		let root = pmmr
			.root()
			.map_err(|e| viol("root-error", format!("step {} ({}): root() failed: {}", step, ctx, e)))?;
		if root != want_root {
			return Err(viol(
				"root-differs",
				format!("step {} ({}): root {} but unpruned reference {}", step, ctx, root, want_root),
			));
		}
		let mut alive_pos = vec![];
		for (i, (p, e, alive)) in leaves.iter().enumerate() {
			if *alive {
				alive_pos.push(*p);
				match pmmr.get_data(*p) {
					Some(d) if &d == e => {}
					other => {
						return Err(viol(
							"data-differs",
							format!("step {} ({}): get_data({}) of unspent leaf #{} = {:?}, reference {:?}", step, ctx, p, i, other, e),
						))
					}
				}
				let want_h = reference.nodes[*p as usize];
				if pmmr.get_hash(*p) != Some(want_h) {
					return Err(viol(
						"hash-differs",
						format!("step {} ({}): get_hash({}) of unspent leaf = {:?}, reference {}", step, ctx, p, pmmr.get_hash(*p), want_h),
					));
				}
			} else if pmmr.get_data(*p).is_some() {
				return Err(viol(
					"spent-leaf-readable",
					format!("step {} ({}): get_data({}) returns data for a removed leaf", step, ctx, p),
				));
			}
		}
		let got: Vec<u64> = pmmr.leaf_pos_iter().collect();
		if got != alive_pos {
			return Err(viol(
				"leaf-set-differs",
				format!("step {} ({}): leaf_pos_iter has {} entries, reference unspent set {}", step, ctx, got.len(), alive_pos.len()),
			));
		}
		if pmmr.n_unpruned_leaves() != alive_pos.len() as u64 {
			return Err(viol(
				"n-unpruned-leaves",
				format!("step {} ({}): n_unpruned_leaves {} != {}", step, ctx, pmmr.n_unpruned_leaves(), alive_pos.len()),
			));
		}
		// Merkle proofs of (a sample of) unspent leaves
		let stride = (alive_pos.len() / 24).max(1);
		for (i, (p, e, alive)) in leaves.iter().enumerate() {
			if !*alive || i % stride != 0 {
				continue;
			}
			match pmmr.merkle_proof(*p) {
				Ok(proof) => {
					if proof.verify(root, e, *p).is_err() {
						return Err(viol(
							"merkle-proof-invalid",
							format!("step {} ({}): merkle proof of unspent leaf at {} does not verify against the root", step, ctx, p),
						));
					}
				}
				Err(er) => {
					return Err(viol(
						"merkle-proof-missing",
						format!("step {} ({}): no merkle proof for unspent leaf at {}: {}", step, ctx, p, er),
					))
				}
			}
		}
		if ctx != "in-unit" {
			self.log.push(format!("{} {} -> size {} root {} unspent {}", step, ctx, size, root, alive_pos.len()));
		}
		Ok(())
	}
}

// ------------------------------------------------------------------------------------------
// schedule generation and case runner

pub fn gen_ops(rng: &mut SimRng) -> Vec<Op> {
	let n = rng.range(5, 60);
	let max_app = *rng.pick(&[3u64, 8, 20, 40]);
	let mut ops = vec![];
	let mut synced_units = 0usize;
	for _ in 0..n {
		let k = rng.below(100);
		if k < 10 && synced_units > 1 {
			ops.push(Op::Compact {
				back: rng.usize_below(synced_units.min(8)),
			});
		} else if k < 17 {
			ops.push(Op::Reopen);
		} else {
			let rewind_back = if rng.chance(1, 5) { rng.range(1, 4) as usize } else { 0 };
			let remove = match rng.below(12) {
				0 | 1 | 2 => RemovePattern::Random(rng.range(1, 6)),
				3 => RemovePattern::Siblings,
				4 => RemovePattern::Subtree(rng.range(1, 4) as u32),
				5 => RemovePattern::Peak,
				6 => RemovePattern::Alternate,
				7 => RemovePattern::AllBefore(rng.usize_below(6)),
				8 if rewind_back > 0 => RemovePattern::Readded,
				9 => RemovePattern::None,
				_ => RemovePattern::Random(rng.range(1, 3)),
			};
			let commit = !rng.chance(1, 6);
			if commit {
				synced_units += 1;
			}
			ops.push(Op::Unit {
				rewind_back,
				appends: rng.range(0, max_app),
				remove,
				commit,
				r: rng.next_u64(),
			});
		}
	}
	ops
}

pub fn run_ops<T: SimElem>(ops: &[Op], tag: &str, acc: Option<&mut CaseResult>) -> (Option<Violation>, u64, Vec<String>, u64) {
	let mut sim: StoreSim<T> = StoreSim::new(tag);
	let mut v = None;
	for op in ops {
		if let Err(e) = sim.exec(op) {
			v = Some(e);
			break;
		}
	}
	let digest = fnv64(sim.log.join("\n").as_bytes());
	if let Some(acc) = acc {
		for (k, n) in &sim.probes {
			acc.probe_n(k, *n);
		}
	}
	let steps = sim.step;
	let log = sim.log.clone();
	sim.destroy();
	(v, digest, log, steps)
}

fn run_variant(variable: bool, ops: &[Op], tag: &str, acc: Option<&mut CaseResult>) -> (Option<Violation>, u64, Vec<String>, u64) {
	if variable {
		run_ops::<VarElem>(ops, tag, acc)
	} else {
		run_ops::<FixElem>(ops, tag, acc)
	}
}

pub fn case(tier: &str, seed: u64, case: u64) -> CaseResult {
	let t0 = Instant::now();
	let mut res = CaseResult::new(case, seed);
	let runs = if tier == "thorough" { 8000 } else { 500 };
	let mut rng = SimRng::new(seed);
	for run in 0..runs {
		let mut rr = rng.fork(&format!("run{}", run));
		let variable = rr.chance(1, 2);
		let ops = gen_ops(&mut rr);
		let (v, digest, log, steps) = run_variant(variable, &ops, &format!("st-c{}r{}", case, run), Some(&mut res));
		res.runs += 1;
		res.steps += steps;
		let nontrivial = ops.iter().any(|o| matches!(o, Op::Compact { .. })) && ops.iter().any(|o| matches!(o, Op::Unit { rewind_back, .. } if *rewind_back > 0));
		res.run_digests.push((digest, nontrivial));
		res.fault_n("discard_instead_of_sync", ops.iter().filter(|o| matches!(o, Op::Unit { commit: false, .. })).count() as u64);
		res.fault_n("reopen", ops.iter().filter(|o| matches!(o, Op::Reopen)).count() as u64);
		res.fault_n("compaction", ops.iter().filter(|o| matches!(o, Op::Compact { .. })).count() as u64);
		if res.samples.is_empty() {
			res.samples.push(json!({
				"element": if variable { "variable" } else { "fixed33" },
				"ops": ops.iter().take(12).map(|o| format!("{:?}", o)).collect::<Vec<_>>(),
				"log_tail": log.iter().rev().take(3).cloned().collect::<Vec<_>>(),
			}));
		}
		if let Some(v) = v {
			// minimise
			let key = v.key.clone();
			let mut n = 0;
			let min_ops = crate::sim::ddmin(
				&ops,
				|cand| {
					n += 1;
					let (v2, _, _, _) = run_variant(variable, cand, &format!("st-min{}", n), None);
					v2.map(|x| x.key == key).unwrap_or(false)
				},
				300,
			);
			let (v3, _, log3, _) = run_variant(variable, &min_ops, "st-minfinal", None);
			let what = v3.map(|x| x.what).unwrap_or(v.what.clone());
			res.violations.push(Violation {
				key: v.key,
				what: format!("{} [{} elements; minimised from {} to {} ops]", what, if variable { "variable" } else { "fixed" }, ops.len(), min_ops.len()),
				replay: json!({
					"engine": "storesim",
					"property": "C08",
					"variable": variable,
					"ops": serde_json::to_value(&min_ops).unwrap(),
					"log": log3,
				}),
			});
			break;
		}
	}
	res.wall_s = t0.elapsed().as_secs_f64();
	res
}

pub fn replay(rp: &Value) -> Result<Option<Violation>, String> {
	let ops: Vec<Op> = serde_json::from_value(rp["ops"].clone()).map_err(|e| format!("{}", e))?;
	let variable = rp["variable"].as_bool().unwrap_or(false);
	let (v, _, log, _) = run_variant(variable, &ops, "st-replay", None);
	for l in log {
		println!("  {}", l);
	}
	Ok(v)
}

#[allow(dead_code)]
fn _unused(_: Hash, _: &dyn PMMRIndexHashable) {}
