//! A real `grin_chain::Chain` on its own data directory (tmpfs), with a recording adapter
//! and a state digest used by the oracles and the event log.

use crate::world::{ckey, CommitKey};
use grin_chain::types::{BlockStatus, ChainAdapter, Options};
use grin_chain::{Chain, Error};
use grin_core::core::hash::{Hash, Hashed};
use grin_core::core::Block;
use grin_core::pow;
use grin_util::secp::pedersen::Commitment;
use std::collections::BTreeMap;
use std::path::{Path, PathBuf};
use std::sync::atomic::{AtomicU64, Ordering};
use std::sync::{Arc, Mutex};

pub fn quiet_logs() {
	// no logger is installed: `log` macros are no-ops
}

static DIR_COUNTER: AtomicU64 = AtomicU64::new(0);

/// Root under which every scratch directory of this process lives.
pub fn scratch_root() -> PathBuf {
	let base = if Path::new("/dev/shm").is_dir() {
		PathBuf::from("/dev/shm")
	} else {
		std::env::temp_dir()
	};
	base.join("verif-sim").join(format!("p{}", std::process::id()))
}

pub fn fresh_dir(tag: &str) -> PathBuf {
	let n = DIR_COUNTER.fetch_add(1, Ordering::SeqCst);
	let d = scratch_root().join(format!("{}-{}", tag, n));
	let _ = std::fs::remove_dir_all(&d);
	std::fs::create_dir_all(&d).expect("create scratch dir");
	d
}

/// Remove scratch directories left behind by processes that no longer exist (a killed run).
pub fn gc_stale_scratch() {
	let base = match scratch_root().parent() {
		Some(b) => b.to_path_buf(),
		None => return,
	};
	if let Ok(rd) = std::fs::read_dir(&base) {
		for e in rd.flatten() {
			let name = e.file_name().to_string_lossy().to_string();
			if let Some(pid) = name.strip_prefix('p').and_then(|x| x.parse::<u32>().ok()) {
				if !Path::new(&format!("/proc/{}", pid)).exists() {
					let _ = std::fs::remove_dir_all(e.path());
				}
			}
		}
	}
}

pub fn cleanup_scratch_root() {
	let _ = std::fs::remove_dir_all(scratch_root());
}

pub fn copy_dir(from: &Path, to: &Path) -> std::io::Result<()> {
	std::fs::create_dir_all(to)?;
	for e in std::fs::read_dir(from)? {
		let e = e?;
		let p = e.path();
		let t = to.join(e.file_name());
		if p.is_dir() {
			copy_dir(&p, &t)?;
		} else {
			std::fs::copy(&p, &t)?;
		}
	}
	Ok(())
}

#[derive(Clone, Debug, PartialEq)]
pub enum StatusKind {
	Next,
	Fork,
	Reorg,
}

#[derive(Default)]
pub struct RecAdapter {
	pub events: Mutex<Vec<(Hash, StatusKind)>>,
}

impl ChainAdapter for RecAdapter {
	fn block_accepted(&self, block: &Block, status: BlockStatus, _opts: Options) {
		let k = match status {
			BlockStatus::Next { .. } => StatusKind::Next,
			BlockStatus::Fork { .. } => StatusKind::Fork,
			BlockStatus::Reorg { .. } => StatusKind::Reorg,
		};
		self.events.lock().unwrap().push((block.hash(), k));
	}
}

pub struct Node {
	/// parent directory (holds `chain_data` and grin's `tmp`)
	pub dir: PathBuf,
	chain: Option<Chain>,
	pub adapter: Arc<RecAdapter>,
	pub genesis: Block,
	pub archive_mode: bool,
}

#[derive(Clone, Debug, PartialEq, Eq)]
pub struct StateDigest {
	pub head: Hash,
	pub head_height: u64,
	pub head_td: u64,
	pub header_head: Hash,
	pub header_head_height: u64,
	pub output_root: Hash,
	pub bitmap_root: Hash,
	pub rproof_root: Hash,
	pub kernel_root: Hash,
	pub sizes: (u64, u64, u64),
}

impl StateDigest {
	pub fn short(&self) -> String {
		format!(
			"head={}@{} td={} hh={}@{} or={} bm={} rp={} kr={} sz={:?}",
			self.head,
			self.head_height,
			self.head_td,
			self.header_head,
			self.header_head_height,
			self.output_root,
			self.bitmap_root,
			self.rproof_root,
			self.kernel_root,
			self.sizes
		)
	}
	pub fn hash64(&self) -> u64 {
		crate::rng::fnv64(self.short().as_bytes())
	}
	/// Same body state (ignores header_head, which may legitimately differ).
	pub fn same_body(&self, o: &StateDigest) -> bool {
		self.head == o.head
			&& self.output_root == o.output_root
			&& self.bitmap_root == o.bitmap_root
			&& self.rproof_root == o.rproof_root
			&& self.kernel_root == o.kernel_root
			&& self.sizes == o.sizes
	}
}

impl Node {
	pub fn db_root(dir: &Path) -> String {
		dir.join("chain_data").to_str().unwrap().to_string()
	}

	pub fn create(tag: &str, genesis: Block) -> Node {
		let dir = fresh_dir(tag);
		Node::open_at(dir, genesis, false).expect("Chain::init on fresh dir")
	}

	pub fn open_at(dir: PathBuf, genesis: Block, archive_mode: bool) -> Result<Node, Error> {
		let adapter = Arc::new(RecAdapter::default());
		let chain = Chain::init(
			Node::db_root(&dir),
			adapter.clone(),
			genesis.clone(),
			pow::verify_size,
			archive_mode,
			None,
		)?;
		Ok(Node {
			dir,
			chain: Some(chain),
			adapter,
			genesis,
			archive_mode,
		})
	}

	pub fn chain(&self) -> &Chain {
		self.chain.as_ref().expect("node is stopped")
	}

	pub fn is_running(&self) -> bool {
		self.chain.is_some()
	}

	/// Clean stop: drop the Chain (closes LMDB env and files).
	pub fn stop(&mut self) {
		self.chain = None;
	}

	/// Clean restart on the same directory.
	pub fn restart(&mut self) -> Result<(), Error> {
		self.chain = None;
		let chain = Chain::init(
			Node::db_root(&self.dir),
			self.adapter.clone(),
			self.genesis.clone(),
			pow::verify_size,
			self.archive_mode,
			None,
		)?;
		self.chain = Some(chain);
		Ok(())
	}

	pub fn destroy(&mut self) {
		self.chain = None;
		let _ = std::fs::remove_dir_all(&self.dir);
	}

	pub fn take_events(&self) -> Vec<(Hash, StatusKind)> {
		std::mem::take(&mut *self.adapter.events.lock().unwrap())
	}

	pub fn digest(&self) -> Result<StateDigest, Error> {
		let c = self.chain();
		let head = c.head()?;
		let hh = c.header_head()?;
		let ths = c.txhashset();
		let t = ths.read();
		let roots = t.roots()?;
		Ok(StateDigest {
			head: head.last_block_h,
			head_height: head.height,
			head_td: head.total_difficulty.to_num(),
			header_head: hh.last_block_h,
			header_head_height: hh.height,
			output_root: roots.output_roots.pmmr_root,
			bitmap_root: roots.output_roots.bitmap_root,
			rproof_root: roots.rproof_root,
			kernel_root: roots.kernel_root,
			sizes: (
				t.output_mmr_size(),
				t.rangeproof_mmr_size(),
				t.kernel_mmr_size(),
			),
		})
	}

	/// For every commitment in `commits`: is it reported unspent, and at what (pos, height).
	pub fn unspent_view(
		&self,
		commits: &[CommitKey],
	) -> Result<BTreeMap<CommitKey, (u64, u64)>, Error> {
		let mut m = BTreeMap::new();
		let c = self.chain();
		for k in commits {
			let commit = Commitment::from_vec(k.to_vec());
			if let Some((_, pos)) = c.get_unspent(commit)? {
				m.insert(*k, (pos.pos, pos.height));
			}
		}
		Ok(m)
	}

	/// Enumerate the unspent outputs through `unspent_outputs_by_pmmr_index`.
	pub fn enumerate_unspent(&self) -> Result<Vec<CommitKey>, Error> {
		let c = self.chain();
		let mut out = vec![];
		let mut start = 1u64;
		loop {
			let (last, max, outs) = c.unspent_outputs_by_pmmr_index(start, 100, None)?;
			for o in &outs {
				out.push(ckey(&o.commitment()));
			}
			if last >= max || outs.is_empty() {
				break;
			}
			start = last + 1;
		}
		Ok(out)
	}
}

impl Drop for Node {
	fn drop(&mut self) {
		self.chain = None;
	}
}
