mod node;
mod rng;
mod world;

use std::time::Instant;

fn main() {
	let args: Vec<String> = std::env::args().collect();
	world::init_process_globals();
	match args.get(1).map(|s| s.as_str()) {
		Some("world") => {
			let seed: u64 = args.get(2).and_then(|s| s.parse().ok()).unwrap_or(1);
			let t = Instant::now();
			let mut r = rng::SimRng::new(seed).fork("cfg");
			let cfg = world::WorldCfg::draw(&mut r, true);
			println!("cfg {:?}", cfg);
			let mut w = world::World::new(seed, cfg, "w");
			match w.generate_tree() {
				Ok(()) => {}
				Err(e) => {
					println!("ERR {}", e);
				}
			}
			for b in &w.blocks {
				println!(
					"  #{} p={:?} h={} br={} td={} in={} out={} k={} {}",
					b.id,
					b.parent,
					b.height,
					b.branch,
					b.total_difficulty,
					b.block.inputs().len(),
					b.block.outputs().len(),
					b.block.kernels().len(),
					b.note
				);
			}
			println!(
				"world seed={} blocks={} digest={:016x} winner={} wall={:?}",
				seed,
				w.blocks.len(),
				w.digest(),
				w.winner(),
				t.elapsed()
			);
			w.cleanup();
			node::cleanup_scratch_root();
		}
		_ => {
			eprintln!("usage: verif-sim world <seed>");
			std::process::exit(2);
		}
	}
}
