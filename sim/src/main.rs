mod alloc;
mod apisim;
mod badgen;
mod chainsim;
mod checks;
mod crashsim;
mod netsim;
mod node;
mod pibdsim;
mod poolsim;
mod refmodel;
mod rng;
mod schedsim;
mod dbsim;
mod sim;
mod simclock;
mod syncsim;
mod storesim;
mod txhsim;
mod wiresim;
mod world;

use serde_json::Value;

#[global_allocator]
static GLOBAL: alloc::Counting = alloc::Counting;
use std::time::Instant;

fn usage() -> ! {
	eprintln!(
		"usage:\n  verif-sim check <PROPERTY> [--tier quick|thorough]\n  verif-sim replay <file>\n  verif-sim worker <PROPERTY> <tier> <case_seed> <case> <out>\n  verif-sim world <seed>"
	);
	std::process::exit(2);
}

fn tier_from(args: &[String]) -> String {
	let mut tier = std::env::var("VERIF_TIER").unwrap_or_else(|_| "quick".to_string());
	let mut i = 0;
	while i < args.len() {
		if args[i] == "--tier" && i + 1 < args.len() {
			tier = args[i + 1].clone();
		}
		i += 1;
	}
	if tier != "thorough" {
		tier = "quick".to_string();
	}
	tier
}

fn main() {
	let args: Vec<String> = std::env::args().collect();
	world::init_process_globals();
	// a panic anywhere in a worker is reported through the result file by the caller;
	// keep the default hook quiet about backtraces
	match args.get(1).map(|s| s.as_str()) {
		Some("check") => {
			let prop = args.get(2).cloned().unwrap_or_else(|| usage());
			let tier = tier_from(&args);
			let spec = match checks::spec(&prop, &tier) {
				Some(s) => s,
				None => {
					eprintln!("HARNESS-ERROR: property {} has no check", prop);
					std::process::exit(2);
				}
			};
			let code = sim::drive(&spec, &tier);
			std::process::exit(code);
		}
		Some("worker") => {
			if args.len() < 7 {
				usage();
			}
			let prop = args[2].clone();
			let tier = args[3].clone();
			let seed: u64 = args[4].parse().unwrap_or(0);
			let case: u64 = args[5].parse().unwrap_or(0);
			let out = args[6].clone();
			let r = std::panic::catch_unwind(|| checks::run_case(&prop, &tier, seed, case));
			let r = match r {
				Ok(r) => r,
				Err(p) => {
					let msg = if let Some(s) = p.downcast_ref::<String>() {
						s.clone()
					} else if let Some(s) = p.downcast_ref::<&str>() {
						s.to_string()
					} else {
						"panic".to_string()
					};
					let mut r = sim::CaseResult::new(case, seed);
					r.harness_error = Some(format!("worker panicked: {}", msg));
					r
				}
			};
			sim::write_case_result(&out, &r);
			node::cleanup_scratch_root();
		}
		Some("replay") => {
			let file = args.get(2).cloned().unwrap_or_else(|| usage());
			let s = std::fs::read_to_string(&file).expect("read replay file");
			let v: Value = serde_json::from_str(&s).expect("parse replay file");
			let prop = v["property"].as_str().unwrap_or("?").to_string();
			let want_key = v["key"].as_str().unwrap_or("").to_string();
			let rp = &v["replay"];
			let res = match rp["engine"].as_str() {
				Some("chainsim") => checks::replay_chainsim(rp),
				Some("storesim") => storesim::replay(rp),
				Some("crashsim") => crashsim::replay(rp),
				Some("txhsim") => txhsim::replay(rp),
				Some("poolsim") => poolsim::replay(rp),
				Some("pibdsim") => pibdsim::replay(rp),
				Some("schedsim") => schedsim::replay(rp),
				Some("dbsim") => dbsim::replay(rp),
				Some("apisim") => apisim::replay(rp),
				Some("netsim") => netsim::replay(rp),
				Some("syncsim") => syncsim::replay(rp),
				Some("wiresim") => {
					if rp["property"].as_str() == Some("C11") {
						wiresim::replay_c11(rp)
					} else {
						wiresim::replay(rp)
					}
				}
				other => Err(format!("unknown engine {:?}", other)),
			};
			node::cleanup_scratch_root();
			match res {
				Ok(Some(viol)) => {
					println!("  what: {}", viol.what);
					if viol.key == want_key {
						println!("VIOLATION property={} replay={}", prop, file);
						std::process::exit(1);
					} else {
						println!(
							"replay failed differently: got key {} expected {}",
							viol.key, want_key
						);
						println!("VIOLATION property={} replay={}", prop, file);
						std::process::exit(1);
					}
				}
				Ok(None) => {
					println!("replay of {} did not reproduce a violation", file);
					std::process::exit(0);
				}
				Err(e) => {
					eprintln!("HARNESS-ERROR: {}", e);
					std::process::exit(2);
				}
			}
		}
		Some("selftest-clock") => match simclock::selftest() {
			Ok(s) => println!("ok: {}", s),
			Err(e) => {
				eprintln!("HARNESS-ERROR: {}", e);
				std::process::exit(2);
			}
		},
		Some("caseseed") => {
			// verif-sim caseseed <PROPERTY> <case> [base seed]: the seed the driver gives that case
			let prop = args.get(2).cloned().unwrap_or_default();
			let case: u64 = args.get(3).and_then(|s| s.parse().ok()).unwrap_or(0);
			let base: u64 = args.get(4).and_then(|s| s.parse().ok()).unwrap_or(1);
			println!("{}", sim::case_seed(base, &prop, case));
		}
		Some("syncrun") => {
			// verif-sim syncrun <seed> [mode]: one sync-loop run, verbose
			let seed: u64 = args.get(2).and_then(|s| s.parse().ok()).unwrap_or(1);
			let mode = args.get(3).cloned().unwrap_or_else(|| "auto".to_string());
			syncsim::debug_run(seed, &mode);
			node::cleanup_scratch_root();
		}
		Some("world") => {
			let seed: u64 = args.get(2).and_then(|s| s.parse().ok()).unwrap_or(1);
			let t = Instant::now();
			let mut r = rng::SimRng::new(seed).fork("cfg");
			let cfg = world::WorldCfg::draw(&mut r, true);
			println!("cfg {:?}", cfg);
			let mut w = world::World::new(seed, cfg, "w");
			if let Err(e) = w.generate_tree() {
				println!("ERR {}", e);
			}
			for b in &w.blocks {
				println!(
					"  #{} p={:?} h={} br={} td={} in={} out={} k={} {}",
					b.id,
					b.parent,
					b.height,
					b.branch,
					b.total_difficulty,
					b.block.inputs().len(),
					b.block.outputs().len(),
					b.block.kernels().len(),
					b.note
				);
			}
			println!(
				"world seed={} blocks={} digest={:016x} winner={} wall={:?}",
				seed,
				w.blocks.len(),
				w.digest(),
				w.winner(),
				t.elapsed()
			);
			w.cleanup();
			node::cleanup_scratch_root();
		}
		_ => usage(),
	}
}
