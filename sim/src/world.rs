//! The generated universe of a run: deterministic wallet, miner, genesis and a
//! fork tree of real blocks (real range proofs, real signatures, real PoW).
//!
//! One seed = one byte-identical world. Nothing here draws from `thread_rng`
//! in a way that influences block bytes: kernels are signed with an explicit
//! nonce, coinbases use `reward::output(.., test_mode = true)`.

use crate::node::{self, Node};
use crate::rng::SimRng;
use chrono::Duration;
use grin_chain::types::Options;
use grin_core::consensus;
use grin_core::core::hash::{Hash, Hashed};
use grin_core::core::{
	Block, BlockHeader, FeeFields, KernelFeatures, NRDRelativeHeight, Output, OutputFeatures,
	Transaction, TxKernel,
};
use grin_core::genesis;
use grin_core::global;
use grin_core::libtx::{self, build, reward, ProofBuilder};
use grin_core::pow::{self, Difficulty};
use grin_keychain::{BlindingFactor, ExtKeychain, ExtKeychainPath, Identifier, Keychain};
use grin_util::secp;
use grin_util::secp::key::SecretKey;
use grin_util::secp::pedersen::Commitment;
use std::collections::BTreeMap;

pub type CommitKey = [u8; 33];

pub fn ckey(c: &Commitment) -> CommitKey {
	let mut k = [0u8; 33];
	k.copy_from_slice(&c.0[..33]);
	k
}

/// What the wallet knows about an output it created.
#[derive(Clone, Debug)]
pub struct OutInfo {
	pub commit: Commitment,
	pub value: u64,
	pub key_id: Identifier,
	pub coinbase: bool,
	/// height of the block that created it (on the branch the ledger belongs to)
	pub height: u64,
	/// leaf index in the output MMR of the branch the ledger belongs to
	pub leaf: u64,
}

/// Unspent set after a block, derived only from block contents.
pub type Ledger = BTreeMap<CommitKey, OutInfo>;

#[derive(Clone, Debug)]
pub struct WBlock {
	pub id: usize,
	pub parent: Option<usize>,
	pub block: Block,
	pub hash: Hash,
	pub height: u64,
	pub total_difficulty: u64,
	/// branch tag: 0 = trunk, n = n-th side branch
	pub branch: usize,
	/// unspent set after this block (reference ledger)
	pub ledger: Ledger,
	/// last height (on this branch) at which each NRD excess occurred
	pub nrd_last: BTreeMap<CommitKey, u64>,
	/// transactions that went into the block (before aggregation/cut-through)
	pub txs: Vec<Transaction>,
	/// short description of what the block contains
	pub note: String,
}

/// A block that must be rejected when delivered on top of `parent`.
#[derive(Clone, Debug)]
pub struct BadBlock {
	pub parent: usize,
	pub block: Block,
	pub hash: Hash,
	pub kind: String,
	/// bad already at header level (header must not be remembered either)
	pub header_bad: bool,
	/// the block is an altered copy of this honest block and shares its hash (a header's hash covers
	/// only its proof of work): the node may well know that hash - what it stores under it must stay
	/// the honest header
	pub twin_of: Option<usize>,
	/// valid headers extending this block's (valid) header: a header-only fork on top of a block whose
	/// body is refused - residue a node is allowed to keep, and which must not change how it judges
	/// the blocks of its own chain
	pub ghosts: Vec<BlockHeader>,
}

pub struct Wallet {
	pub keychain: ExtKeychain,
	next_key: u32,
	pub rng: SimRng,
	/// every output this wallet ever created (value knowledge for the conservation oracle)
	pub known: BTreeMap<CommitKey, OutInfo>,
}

impl Wallet {
	pub fn new(rng: &SimRng) -> Wallet {
		let mut r = rng.fork("wallet");
		let seed = r.bytes(32);
		Wallet {
			keychain: ExtKeychain::from_seed(&seed, false).expect("keychain"),
			next_key: 1,
			rng: r,
			known: BTreeMap::new(),
		}
	}

	pub fn fresh_key(&mut self) -> Identifier {
		let n = self.next_key;
		self.next_key += 1;
		ExtKeychainPath::new(3, 7, n >> 16, n & 0xffff, 0).to_identifier()
	}

	pub fn commit(&self, value: u64, key_id: &Identifier) -> Commitment {
		self.keychain
			.commit(value, key_id, grin_keychain::SwitchCommitmentType::Regular)
			.expect("commit")
	}

	pub fn secret(&mut self) -> SecretKey {
		loop {
			let b = self.rng.bytes(32);
			if let Ok(k) = SecretKey::from_slice(self.keychain.secp(), &b) {
				return k;
			}
		}
	}

	/// Coinbase output + kernel for a block collecting `fees`.
	pub fn coinbase(&mut self, fees: u64, height: u64) -> (Output, TxKernel, OutInfo) {
		let key_id = self.fresh_key();
		self.coinbase_with_key(fees, height, key_id)
	}

	pub fn coinbase_with_key(
		&mut self,
		fees: u64,
		height: u64,
		key_id: Identifier,
	) -> (Output, TxKernel, OutInfo) {
		let (out, kern) = reward::output(
			&self.keychain,
			&ProofBuilder::new(&self.keychain),
			&key_id,
			fees,
			true,
		)
		.expect("reward output");
		let info = OutInfo {
			commit: out.commitment(),
			value: consensus::reward(fees),
			key_id,
			coinbase: true,
			height,
			leaf: 0,
		};
		self.known.insert(ckey(&info.commit), info.clone());
		(out, kern, info)
	}

	/// Build a transaction spending `inputs` into outputs of the given values
	/// (fresh keys unless `out_keys` supplies them) with the given kernel features.
	/// Deterministic: excess and nonce come from the wallet PRNG.
	pub fn build_tx(
		&mut self,
		inputs: &[OutInfo],
		out_values: &[u64],
		out_keys: Option<Vec<Identifier>>,
		features: KernelFeatures,
	) -> (Transaction, Vec<OutInfo>) {
		let (tx, outs, _) = self.build_tx_ex(inputs, out_values, out_keys, features, None);
		(tx, outs)
	}

	/// As `build_tx`, optionally with a caller-chosen kernel excess key; returns the key used.
	pub fn build_tx_ex(
		&mut self,
		inputs: &[OutInfo],
		out_values: &[u64],
		out_keys: Option<Vec<Identifier>>,
		features: KernelFeatures,
		excess_key: Option<SecretKey>,
	) -> (Transaction, Vec<OutInfo>, SecretKey) {
		let kc = self.keychain.clone();
		let pb = ProofBuilder::new(&kc);
		let mut elems = vec![];
		for i in inputs {
			if i.coinbase {
				elems.push(build::coinbase_input(i.value, i.key_id.clone()));
			} else {
				elems.push(build::input(i.value, i.key_id.clone()));
			}
		}
		let mut outs = vec![];
		for (n, v) in out_values.iter().enumerate() {
			let key_id = match &out_keys {
				Some(k) => k[n].clone(),
				None => self.fresh_key(),
			};
			elems.push(build::output(*v, key_id.clone()));
			let commit = self.commit(*v, &key_id);
			outs.push(OutInfo {
				commit,
				value: *v,
				key_id,
				coinbase: false,
				height: 0,
				leaf: 0,
			});
		}
		let skey = match excess_key {
			Some(k) => k,
			None => self.secret(),
		};
		let nonce = self.secret();
		let kernel = self.sign_kernel(features, &skey, &nonce);
		let excess = BlindingFactor::from_secret_key(skey.clone());
		let tx = build::transaction_with_kernel(&elems, kernel, excess, &kc, &pb).expect("tx build");
		for o in &outs {
			self.known.insert(ckey(&o.commit), o.clone());
		}
		(tx, outs, skey)
	}

	pub fn sign_kernel(
		&self,
		features: KernelFeatures,
		skey: &SecretKey,
		nonce: &SecretKey,
	) -> TxKernel {
		let secp = self.keychain.secp();
		let mut kernel = TxKernel::with_features(features);
		let msg = kernel.msg_to_sign().expect("msg");
		kernel.excess = secp.commit(0, skey.clone()).expect("excess commit");
		let pubkey = kernel.excess.to_pubkey(secp).expect("pubkey");
		kernel.excess_sig = secp::aggsig::sign_single(
			secp,
			&msg,
			skey,
			Some(nonce),
			None,
			None,
			Some(&pubkey),
			None,
		)
		.expect("sign");
		kernel
	}
}

/// Mainnet-shaped genesis: one reward output, one coinbase kernel, MMR sizes 1.
pub fn make_genesis(wallet: &mut Wallet) -> (Block, OutInfo) {
	let key_id = ExtKeychainPath::new(1, 0, 0, 0, 0).to_identifier();
	let (out, kern, info) = wallet.coinbase_with_key(0, 0, key_id);
	let mut g = genesis::genesis_dev().with_reward(out, kern);
	g.header.output_mmr_size = 1;
	g.header.kernel_mmr_size = 1;
	(g, info)
}

#[derive(Clone, Debug)]
pub struct WorldCfg {
	pub trunk: u64,
	pub branches: usize,
	pub max_branch_depth: u64,
	pub max_txs: usize,
	pub nrd: bool,
	/// probability (percent) that a block carries at least one tx
	pub tx_pct: u64,
	/// SKIP_POW world with free per-block difficulties
	pub free_difficulty: bool,
	/// make the deepest branch overtake the trunk (reorg) with this percent probability
	pub reorg_pct: u64,
	/// bias spends and locks to sit exactly on the maturity / lock-height / NRD thresholds
	pub boundary_bias: bool,
	/// side branches fork off within this many blocks of the trunk tip (0 = anywhere recent)
	pub fork_near_tip: u64,
	/// prefer spending old outputs whose MMR sibling leaf is already spent (both leaves of a pair
	/// spent = data that compaction may remove)
	pub sibling_bias: bool,
	/// every block carries one transaction with as many outputs as the block weight allows (10):
	/// the quickest way to more than 1024 outputs, i.e. to a second chunk of the unspent bitmap
	pub fat_outputs: bool,
	/// side branches fork off the trunk at heights 1-4, i.e. far (50+ blocks) below the tip of a long trunk
	pub fork_deep: bool,
	/// every block carries exactly one 1-input / 1-output transaction: competing blocks then have the
	/// same shape (same MMR sizes, same number of unspent leaves) and differ only in what they spend
	pub uniform_txs: bool,
}

impl WorldCfg {
	pub fn draw(rng: &mut SimRng, quick: bool) -> WorldCfg {
		let trunk = if quick {
			rng.range(10, 24)
		} else {
			rng.range(10, 40)
		};
		WorldCfg {
			trunk,
			branches: rng.range(1, 4) as usize,
			max_branch_depth: rng.range(1, 8),
			max_txs: rng.range(1, 3) as usize,
			nrd: rng.chance(1, 3),
			tx_pct: rng.range(40, 90),
			free_difficulty: false,
			reorg_pct: 50,
			boundary_bias: false,
			fork_near_tip: 0,
			sibling_bias: false,
			fat_outputs: false,
			fork_deep: false,
			uniform_txs: false,
		}
	}
}

pub struct World {
	pub seed: u64,
	pub cfg: WorldCfg,
	pub wallet: Wallet,
	pub genesis: Block,
	pub blocks: Vec<WBlock>,
	pub bad: Vec<BadBlock>,
	/// builder node holding every honest block of the world
	pub builder: Node,
	pub rng: SimRng,
	pub opts: Options,
	pub proof_ctr: u64,
	/// excess keys of NRD kernels used so far (reused to create duplicate excesses)
	pub nrd_keys: Vec<SecretKey>,
	/// generation-time probes (boundary cases hit, kernel variants used, ...)
	pub stats: BTreeMap<String, u64>,
	/// optional hand-shaped scenario on top of the generated tree (block ids; meaning is the engine's)
	pub scenario: Vec<usize>,
	/// second hand-shaped scenario (same layout)
	pub scenario2: Vec<usize>,
	/// deepest reorganisation inside the horizon after a compaction (checks.rs)
	pub scenario3: Vec<usize>,
}

/// The parts of a world that a run on top of it advances: saved before, restored after, so that every
/// run over one world (and the replay of one of them in a fresh process) starts from the same state.
pub struct WorldMark {
	n_blocks: usize,
	rng: SimRng,
	wallet_rng: SimRng,
	next_key: u32,
	proof_ctr: u64,
	n_nrd_keys: usize,
}

impl World {
	pub fn mark(&self) -> WorldMark {
		WorldMark {
			n_blocks: self.blocks.len(),
			rng: self.rng.clone(),
			wallet_rng: self.wallet.rng.clone(),
			next_key: self.wallet.next_key,
			proof_ctr: self.proof_ctr,
			n_nrd_keys: self.nrd_keys.len(),
		}
	}

	/// (the builder node keeps the blocks mined since the mark; they are valid blocks on side
	/// branches and change nothing a later run reads)
	pub fn reset_to(&mut self, m: &WorldMark) {
		self.blocks.truncate(m.n_blocks);
		self.rng = m.rng.clone();
		self.wallet.rng = m.wallet_rng.clone();
		self.wallet.next_key = m.next_key;
		self.proof_ctr = m.proof_ctr;
		self.nrd_keys.truncate(m.n_nrd_keys);
	}
}

pub fn header_time_plus(h: &BlockHeader, secs: i64) -> chrono::DateTime<chrono::Utc> {
	h.timestamp + Duration::seconds(secs)
}

impl World {
	/// New world holding only genesis.
	pub fn new(seed: u64, cfg: WorldCfg, dir_tag: &str) -> World {
		let rng = SimRng::new(seed);
		let mut wallet = Wallet::new(&rng);
		let (genesis, ginfo) = make_genesis(&mut wallet);
		global::set_local_nrd_enabled(cfg.nrd);
		let builder = Node::create(&format!("{}-builder", dir_tag), genesis.clone());
		let mut ledger = Ledger::new();
		ledger.insert(ckey(&ginfo.commit), ginfo);
		let g = WBlock {
			id: 0,
			parent: None,
			hash: genesis.hash(),
			height: 0,
			total_difficulty: genesis.header.total_difficulty().to_num(),
			block: genesis.clone(),
			branch: 0,
			ledger,
			nrd_last: BTreeMap::new(),
			txs: vec![],
			note: "genesis".into(),
		};
		let opts = if cfg.free_difficulty {
			Options::SKIP_POW
		} else {
			Options::NONE
		};
		World {
			seed,
			cfg,
			wallet,
			genesis,
			blocks: vec![g],
			bad: vec![],
			builder,
			rng: rng.fork("world"),
			opts,
			proof_ctr: 0,
			nrd_keys: vec![],
			stats: BTreeMap::new(),
			scenario: vec![],
			scenario2: vec![],
			scenario3: vec![],
		}
	}

	pub fn tip_of_branch(&self, branch: usize) -> usize {
		self.blocks
			.iter()
			.rev()
			.find(|b| b.branch == branch)
			.map(|b| b.id)
			.unwrap_or(0)
	}

	/// Spendable entries of a ledger for a block at `height` (coinbase maturity respected).
	pub fn spendable(ledger: &Ledger, height: u64) -> Vec<OutInfo> {
		let maturity = global::coinbase_maturity();
		ledger
			.values()
			.filter(|o| !o.coinbase || (height >= maturity && o.height + maturity <= height))
			.cloned()
			.collect()
	}

	/// Draw 0..max_txs honest transactions valid on top of `parent` at `height`.
	pub fn draw_txs(&mut self, parent: usize, height: u64) -> (Vec<Transaction>, String) {
		let mut txs = vec![];
		let mut note = String::new();
		let late_zone = self.cfg.sibling_bias && height >= 70;
		if !late_zone && !self.cfg.fat_outputs && !self.cfg.uniform_txs && !self.rng.chance(self.cfg.tx_pct, 100) {
			return (txs, note);
		}
		let ledger = self.blocks[parent].ledger.clone();
		let nrd_last = self.blocks[parent].nrd_last.clone();
		let mut pool = World::spendable(&ledger, height);
		self.rng.shuffle(&mut pool);
		if self.cfg.boundary_bias {
			// coinbases that matured exactly at this height go last (popped first)
			let maturity = global::coinbase_maturity();
			pool.sort_by_key(|o| (o.coinbase && o.height + maturity == height) as u8);
		}
		if self.cfg.sibling_bias && (late_zone || self.rng.chance(3, 4)) {
			let live: std::collections::BTreeSet<u64> = ledger.values().map(|o| o.leaf).collect();
			let horizon = global::cut_through_horizon() as u64;
			pool.sort_by_key(|o| (!live.contains(&(o.leaf ^ 1)) && o.height + horizon < height) as u8);
		}
		if self.cfg.fat_outputs || self.cfg.uniform_txs {
			// the largest output goes last (popped first): it always covers the fee of an 11-output tx
			pool.sort_by_key(|o| o.value);
		}
		let mut nrd_used: Vec<CommitKey> = vec![];
		let n_txs = if self.cfg.fat_outputs || self.cfg.uniform_txs { 1 } else { self.rng.range(1, self.cfg.max_txs as u64) as usize };
		// outputs created by earlier txs of this block, spendable by later ones (cut-through)
		let mut fresh: Vec<OutInfo> = vec![];
		// weight budget: block max weight 250, coinbase = 21+3
		let mut weight_left: i64 = global::max_block_weight() as i64 - 30;
		for _ in 0..n_txs {
			let n_in = if self.cfg.fat_outputs || self.cfg.uniform_txs { 1 } else { self.rng.range(1, 2) as usize };
			let mut ins = vec![];
			for _ in 0..n_in {
				if !fresh.is_empty() && self.rng.chance(1, 3) {
					ins.push(fresh.remove(0));
				} else if let Some(o) = pool.pop() {
					ins.push(o);
				}
			}
			if ins.is_empty() {
				break;
			}
			for i in &ins {
				if i.coinbase && i.height + global::coinbase_maturity() == height {
					*self.stats.entry("coinbase_spent_exactly_at_maturity".into()).or_insert(0) += 1;
				}
			}
			let n_out = if self.cfg.fat_outputs { 10 } else if self.cfg.uniform_txs { 1 } else { self.rng.range(1, 3) as usize };
			let w = (n_in as i64) + 21 * (n_out as i64) + 3;
			if w > weight_left {
				break;
			}
			weight_left -= w;
			let total: u64 = ins.iter().map(|o| o.value).sum();
			let fee_base = libtx::tx_fee(ins.len(), n_out, 1);
			let fee = fee_base + self.rng.below(1000) * 1000;
			if total <= fee + n_out as u64 {
				continue;
			}
			let mut rest = total - fee;
			let mut vals = vec![];
			for i in 0..n_out {
				if i + 1 == n_out {
					vals.push(rest);
				} else {
					let v = self.rng.range(1, rest - (n_out - i - 1) as u64);
					vals.push(v);
					rest -= v;
				}
			}
			// kernel variant
			let ff = FeeFields::new(0, fee).expect("fee");
			let hv = consensus::header_version(height).0;
			let mut features = KernelFeatures::Plain { fee: ff };
			let mut excess_key: Option<SecretKey> = None;
			let k = self.rng.below(10);
			if k < 2 {
				// lock height at or below this block's height
				let lh = if self.cfg.boundary_bias && self.rng.chance(1, 2) {
					height
				} else {
					self.rng.range(0, height)
				};
				features = KernelFeatures::HeightLocked {
					fee: ff,
					lock_height: lh,
				};
				note.push_str(&format!("hl{} ", lh));
				if lh == height {
					*self.stats.entry("lock_height_equals_height".into()).or_insert(0) += 1;
				}
			} else if k < 5 && self.cfg.nrd && hv >= 4 {
				// NRD kernel; half of the time reuse an earlier excess at a legal distance
				let mut rh = self.rng.range(1, 4);
				if !self.nrd_keys.is_empty() && self.rng.chance(1, 2) {
					let key = self.rng.pick(&self.nrd_keys).clone();
					let ex = ckey(&self.wallet.keychain.secp().commit(0, key.clone()).expect("commit"));
					if !nrd_used.contains(&ex) {
						let ok = match nrd_last.get(&ex) {
							Some(p) => {
								let dist = height - *p;
								if dist >= 1 {
									rh = if self.rng.chance(2, 3) { dist } else { self.rng.range(1, dist) };
									rh = rh.min(1440);
									if rh == dist {
										*self.stats.entry("nrd_duplicate_exactly_at_relative_height".into()).or_insert(0) += 1;
									}
									true
								} else {
									false
								}
							}
							None => true,
						};
						if ok {
							excess_key = Some(key);
							nrd_used.push(ex);
							note.push_str("dup-");
						}
					}
				}
				features = KernelFeatures::NoRecentDuplicate {
					fee: ff,
					relative_height: NRDRelativeHeight::new(rh).expect("rh"),
				};
				note.push_str(&format!("nrd{} ", rh));
			}
			// occasionally re-create a commitment that was spent earlier on this branch
			let mut out_keys = None;
			if self.rng.chance(1, 12) && n_out == 1 {
				// find a known plain output with the same value that is not currently unspent
				let cand: Vec<OutInfo> = self
					.wallet
					.known
					.values()
					.filter(|o| {
						!o.coinbase
							&& o.value == vals[0] && !ledger.contains_key(&ckey(&o.commit))
					})
					.cloned()
					.collect();
				if let Some(c) = cand.first() {
					out_keys = Some(vec![c.key_id.clone()]);
					note.push_str("recreate ");
				}
			}
			let is_nrd = matches!(features, KernelFeatures::NoRecentDuplicate { .. });
			let (tx, outs, used_key) = self.wallet.build_tx_ex(&ins, &vals, out_keys, features, excess_key);
			if is_nrd {
				let ex = ckey(&tx.kernels()[0].excess);
				if !nrd_used.contains(&ex) {
					nrd_used.push(ex);
				}
				if !self.nrd_keys.iter().any(|k| k == &used_key) {
					self.nrd_keys.push(used_key);
				}
			}
			note.push_str(&format!("tx{}i{}o ", ins.len(), outs.len()));
			for o in outs {
				fresh.push(o);
			}
			txs.push(tx);
		}
		(txs, note)
	}

	/// Assemble, root, and mine a block on `parent` from `txs`. Does not add it to the world.
	pub fn assemble(
		&mut self,
		parent: usize,
		txs: &[Transaction],
		dt_secs: i64,
		free_diff: Option<u64>,
	) -> Result<Block, String> {
		let prev = self.blocks[parent].block.header.clone();
		let height = prev.height + 1;
		let fees: u64 = txs.iter().map(|t| t.fee()).sum();
		let (out, kern, _info) = self.wallet.coinbase(fees, height);
		self.assemble_with_reward(parent, txs, dt_secs, free_diff, out, kern)
	}

	pub fn assemble_with_reward(
		&mut self,
		parent: usize,
		txs: &[Transaction],
		dt_secs: i64,
		free_diff: Option<u64>,
		out: Output,
		kern: TxKernel,
	) -> Result<Block, String> {
		let (mut b, diff) = self.pre_block(parent, txs, dt_secs, free_diff, out, kern)?;
		self.root_and_mine(&mut b, diff, true)?;
		Ok(b)
	}

	/// Block with header fields set except roots/sizes and PoW.
	pub fn pre_block(
		&mut self,
		parent: usize,
		txs: &[Transaction],
		dt_secs: i64,
		free_diff: Option<u64>,
		out: Output,
		kern: TxKernel,
	) -> Result<(Block, Difficulty), String> {
		let prev = self.blocks[parent].block.header.clone();
		let info = self.next_difficulty(&prev);
		let diff = match free_diff {
			Some(d) => Difficulty::from_num(d),
			None => info.difficulty,
		};
		let mut b = Block::from_reward(&prev, txs, out, kern, diff)
			.map_err(|e| format!("from_reward: {:?}", e))?;
		b.header.timestamp = header_time_plus(&prev, dt_secs);
		b.header.pow.secondary_scaling = info.secondary_scaling;
		Ok((b, diff))
	}

	/// Set roots/sizes from the builder node's state at the parent, then solve PoW.
	/// With `must_root == false` a failure to apply the block (e.g. a double spend) leaves the
	/// roots as they are.
	pub fn root_and_mine(&mut self, b: &mut Block, diff: Difficulty, must_root: bool) -> Result<(), String> {
		match self.builder.chain().set_txhashset_roots(b) {
			Ok(()) => {}
			Err(e) => {
				if must_root {
					return Err(format!("set_txhashset_roots: {:?}", e));
				}
				// keep plausible sizes so the header passes its own checks
				let prev = self.builder.chain().get_block_header(&b.header.prev_hash).map_err(|e| format!("{:?}", e))?;
				let n_out = b.outputs().len() as u64;
				let n_ker = b.kernels().len() as u64;
				b.header.output_mmr_size = grin_core::core::pmmr::insertion_to_pmmr_index(prev.output_mmr_count() + n_out);
				b.header.kernel_mmr_size = grin_core::core::pmmr::insertion_to_pmmr_index(prev.kernel_mmr_count() + n_ker);
				let _ = self.builder.chain().set_prev_root_only(&mut b.header);
			}
		}
		self.mine(b, diff);
		Ok(())
	}

	pub fn next_difficulty(&self, prev: &BlockHeader) -> consensus::HeaderDifficultyInfo {
		let store = self.builder.chain().store();
		let iter = grin_chain::store::DifficultyIter::from(prev.hash(), store);
		consensus::next_difficulty(prev.height + 1, iter)
	}

	/// Solve PoW (or, for free-difficulty worlds, attach a unique PRNG-drawn placeholder proof:
	/// the header hash is the hash of the proof, so it must differ per block).
	pub fn mine(&mut self, b: &mut Block, diff: Difficulty) {
		let edge_bits = global::min_edge_bits();
		b.header.pow.proof.edge_bits = edge_bits;
		if self.cfg.free_difficulty {
			self.proof_ctr += 1;
			let mut r = self.rng.fork(&format!("proof{}", self.proof_ctr));
			let mask = (1u64 << edge_bits) - 1;
			let mut nonces = std::collections::BTreeSet::new();
			while nonces.len() < global::proofsize() {
				nonces.insert(r.next_u64() & mask);
			}
			b.header.pow.proof = grin_core::pow::Proof::new(nonces.into_iter().collect());
			b.header.pow.proof.edge_bits = edge_bits;
			b.header.pow.nonce = self.proof_ctr;
		} else {
			b.header.pow.nonce = 0;
			pow::pow_size(&mut b.header, diff, global::proofsize(), edge_bits).expect("pow");
		}
	}

	/// Ledger and NRD index after applying `block` on `parent`'s state.
	pub fn apply_to_ledger(&self, parent: usize, block: &Block) -> (Ledger, BTreeMap<CommitKey, u64>) {
		let mut ledger = self.blocks[parent].ledger.clone();
		let mut nrd = self.blocks[parent].nrd_last.clone();
		let height = block.header.height;
		let inputs: Vec<grin_core::core::CommitWrapper> = block.inputs().into();
		for i in inputs {
			ledger.remove(&ckey(&i.commitment()));
		}
		let mut leaf = grin_core::core::pmmr::n_leaves(self.blocks[parent].block.header.output_mmr_size);
		for o in block.outputs() {
			let k = ckey(&o.commitment());
			let mut info = self
				.wallet
				.known
				.get(&k)
				.cloned()
				.expect("output not known to wallet");
			info.height = height;
			info.coinbase = o.is_coinbase();
			info.leaf = leaf;
			leaf += 1;
			ledger.insert(k, info);
		}
		for k in block.kernels() {
			if let KernelFeatures::NoRecentDuplicate { .. } = k.features {
				nrd.insert(ckey(&k.excess), height);
			}
		}
		(ledger, nrd)
	}

	/// Add an honest block to the world: the builder node must accept it.
	pub fn add_block(
		&mut self,
		parent: usize,
		block: Block,
		branch: usize,
		txs: Vec<Transaction>,
		note: String,
	) -> Result<usize, String> {
		// (a run restored to an earlier mark re-creates, byte for byte, blocks the builder already has)
		let res = if self.builder.chain().block_exists(block.hash()).unwrap_or(false) {
			Ok(None)
		} else {
			self.builder.chain().process_block(block.clone(), self.opts)
		};
		if let Err(e) = res {
			return Err(format!(
				"builder rejected honest block h{} on parent {} ({}): {:?}",
				block.header.height, parent, note, e
			));
		}
		let (ledger, nrd_last) = self.apply_to_ledger(parent, &block);
		let id = self.blocks.len();
		self.blocks.push(WBlock {
			id,
			parent: Some(parent),
			hash: block.hash(),
			height: block.header.height,
			total_difficulty: block.header.total_difficulty().to_num(),
			block,
			branch,
			ledger,
			nrd_last,
			txs,
			note,
		});
		Ok(id)
	}

	/// Extend `parent` with one block whose only transaction spends an output of the given class:
	/// "recent", "pre-hf3" (created before header version 3), "below-tail" (created below the given
	/// height), "pair-completing" (older than the horizon and its MMR sibling leaf already spent), "any".
	pub fn extend_with_spend(&mut self, parent: usize, age: &str, tail_height: u64) -> Option<usize> {
		let height = self.blocks[parent].height + 1;
		let ledger = self.blocks[parent].ledger.clone();
		let live: std::collections::BTreeSet<u64> = ledger.values().map(|o| o.leaf).collect();
		let horizon = global::cut_through_horizon() as u64;
		let pool = World::spendable(&ledger, height);
		let cands: Vec<OutInfo> = pool
			.into_iter()
			.filter(|o| match age {
				"recent" => o.height + 6 >= height,
				"pre-hf3" => o.height < 6,
				"below-tail" => o.height < tail_height,
				"pair-completing" => !live.contains(&(o.leaf ^ 1)) && o.height + horizon + 1 < height,
				"pair-starting" => {
					// sibling alive, both old: spending this one leaves a half-spent pair
					live.contains(&(o.leaf ^ 1))
						&& o.height + horizon + 3 < height
						&& ledger.values().any(|s| s.leaf == (o.leaf ^ 1) && s.height + horizon + 3 < height && (!s.coinbase || true))
				}
				_ => true,
			})
			.collect();
		if cands.is_empty() {
			return None;
		}
		let x = self.rng.pick(&cands).clone();
		let fee = libtx::tx_fee(1, 2, 1);
		if x.value <= fee + 2 {
			return None;
		}
		let a = self.rng.range(1, x.value - fee - 1);
		let (tx, _) = self.wallet.build_tx(
			&[x.clone()],
			&[a, x.value - fee - a],
			None,
			KernelFeatures::Plain {
				fee: FeeFields::new(0, fee).ok()?,
			},
		);
		let dt = self.draw_dt();
		let b = self.assemble(parent, &[tx.clone()], dt, None).ok()?;
		self.add_block(parent, b, 90, vec![tx], format!("spend-{}", age)).ok()
	}

	/// Extend `parent` with a block spending, in one transaction, two outputs that were created at
	/// `created_height` and are siblings in the output MMR (both leaves of a pair).
	pub fn extend_with_pair_spend(&mut self, parent: usize, created_height: u64) -> Option<usize> {
		let height = self.blocks[parent].height + 1;
		let ledger = self.blocks[parent].ledger.clone();
		let pool = World::spendable(&ledger, height);
		let at: Vec<OutInfo> = pool.into_iter().filter(|o| o.height == created_height).collect();
		let mut pair: Option<(OutInfo, OutInfo)> = None;
		for a in &at {
			if a.leaf % 2 == 0 {
				if let Some(b) = at.iter().find(|b| b.leaf == a.leaf + 1) {
					pair = Some((a.clone(), b.clone()));
					break;
				}
			}
		}
		let (a, b) = pair?;
		let fee = libtx::tx_fee(2, 1, 1);
		let total = a.value + b.value;
		if total <= fee + 1 {
			return None;
		}
		let (tx, _) = self.wallet.build_tx(
			&[a, b],
			&[total - fee],
			None,
			KernelFeatures::Plain {
				fee: FeeFields::new(0, fee).ok()?,
			},
		);
		let dt = self.draw_dt();
		let blk = self.assemble(parent, &[tx.clone()], dt, None).ok()?;
		self.add_block(parent, blk, 90, vec![tx], "spend-sibling-pair-of-horizon-block".into()).ok()
	}

	/// Extend `parent` with an empty (coinbase only) block on the given branch.
	pub fn extend_empty(&mut self, parent: usize, branch: usize) -> Result<usize, String> {
		let dt = self.draw_dt();
		let fd = self.draw_free_diff();
		let b = self.assemble(parent, &[], dt, fd)?;
		self.add_block(parent, b, branch, vec![], "empty".into())
	}

	pub fn draw_dt(&mut self) -> i64 {
		// skewed / jumping miner clocks: mostly around a minute, sometimes 1 s, sometimes hours
		match self.rng.below(10) {
			0 => 1,
			1 => self.rng.range(2, 10) as i64,
			2 => self.rng.range(600, 7200) as i64,
			_ => self.rng.range(20, 120) as i64,
		}
	}

	pub fn draw_free_diff(&mut self) -> Option<u64> {
		if self.cfg.free_difficulty {
			Some(match self.rng.below(4) {
				0 => 1,
				1 => self.rng.range(1, 5),
				2 => self.rng.range(1, 1000),
				_ => self.rng.range(1, 50),
			})
		} else {
			None
		}
	}

	/// Extend `parent` by one honest block with drawn transactions.
	pub fn extend(&mut self, parent: usize, branch: usize) -> Result<usize, String> {
		let height = self.blocks[parent].height + 1;
		let (txs, note) = self.draw_txs(parent, height);
		let dt = self.draw_dt();
		let fd = self.draw_free_diff();
		let b = self.assemble(parent, &txs, dt, fd)?;
		self.add_block(parent, b, branch, txs, note)
	}

	/// Generate the honest fork tree described by the config.
	pub fn generate_tree(&mut self) -> Result<(), String> {
		let mut tip = 0usize;
		for _ in 0..self.cfg.trunk {
			tip = self.extend(tip, 0)?;
		}
		for br in 1..=self.cfg.branches {
			// fork point somewhere on the existing tree, not too deep
			let trunk_ids: Vec<usize> = self
				.blocks
				.iter()
				.filter(|b| b.branch == 0 || self.rng_peek_allow_nested(b))
				.map(|b| b.id)
				.collect();
			let max_h = self.blocks[self.tip_of_branch(0)].height;
			let lo_h = if self.cfg.fork_near_tip > 0 {
				max_h.saturating_sub(self.cfg.fork_near_tip)
			} else {
				max_h.saturating_sub(self.cfg.max_branch_depth + 4)
			};
			let deep = self.cfg.fork_deep;
			let cands: Vec<usize> = trunk_ids
				.into_iter()
				.filter(|id| {
					let h = self.blocks[*id].height;
					if deep {
						self.blocks[*id].branch == 0 && h >= 1 && h <= 4
					} else {
						h >= lo_h && h < max_h
					}
				})
				.collect();
			if cands.is_empty() {
				continue;
			}
			let fp = *self.rng.pick(&cands);
			let depth = self.rng.range(1, self.cfg.max_branch_depth);
			let mut p = fp;
			for _ in 0..depth {
				p = self.extend(p, br)?;
			}
		}
		self.make_unique_winner()?;
		Ok(())
	}

	fn rng_peek_allow_nested(&self, b: &WBlock) -> bool {
		// allow forks off side branches too: deterministic function of the block id
		b.id % 3 == 0
	}

	/// Leaves of the tree.
	pub fn leaves(&self) -> Vec<usize> {
		let mut has_child = vec![false; self.blocks.len()];
		for b in &self.blocks {
			if let Some(p) = b.parent {
				has_child[p] = true;
			}
		}
		(0..self.blocks.len()).filter(|i| !has_child[*i]).collect()
	}

	/// Make the maximum total difficulty unique among all blocks (extend a leader on ties).
	pub fn make_unique_winner(&mut self) -> Result<(), String> {
		// optionally let a side branch overtake the trunk
		if self.cfg.branches > 0 && self.rng.chance(self.cfg.reorg_pct, 100) {
			let side: Vec<usize> = self
				.leaves()
				.into_iter()
				.filter(|l| self.blocks[*l].branch != 0)
				.collect();
			if !side.is_empty() {
				let l = *self.rng.pick(&side);
				let br = self.blocks[l].branch;
				let target = self.blocks.iter().map(|b| b.total_difficulty).max().unwrap();
				let mut p = l;
				let mut guard = 0;
				while self.blocks[p].total_difficulty <= target && guard < 12 {
					p = self.extend(p, br)?;
					guard += 1;
				}
			}
		}
		for _ in 0..8 {
			let max = self.blocks.iter().map(|b| b.total_difficulty).max().unwrap();
			let top: Vec<usize> = self
				.blocks
				.iter()
				.filter(|b| b.total_difficulty == max)
				.map(|b| b.id)
				.collect();
			if top.len() == 1 {
				return Ok(());
			}
			let p = top[0];
			let br = self.blocks[p].branch;
			self.extend(p, br)?;
		}
		Err("could not make winner unique".into())
	}

	/// The block with the greatest total difficulty.
	pub fn winner(&self) -> usize {
		let mut best = 0;
		for b in &self.blocks {
			if b.total_difficulty > self.blocks[best].total_difficulty {
				best = b.id;
			}
		}
		best
	}

	/// Path of block ids from genesis (excluded) to `id` (included).
	pub fn path_to(&self, id: usize) -> Vec<usize> {
		let mut v = vec![];
		let mut cur = id;
		while let Some(p) = self.blocks[cur].parent {
			v.push(cur);
			cur = p;
		}
		v.reverse();
		v
	}

	pub fn is_ancestor(&self, a: usize, of: usize) -> bool {
		let mut cur = of;
		loop {
			if cur == a {
				return true;
			}
			match self.blocks[cur].parent {
				Some(p) => cur = p,
				None => return false,
			}
		}
	}

	pub fn id_of_hash(&self, h: &Hash) -> Option<usize> {
		self.blocks.iter().find(|b| &b.hash == h).map(|b| b.id)
	}

	/// Digest over all honest block hashes (world identity).
	pub fn digest(&self) -> u64 {
		let mut bytes = vec![];
		for b in &self.blocks {
			bytes.extend_from_slice(b.hash.as_bytes());
		}
		for b in &self.bad {
			bytes.extend_from_slice(b.hash.as_bytes());
		}
		crate::rng::fnv64(&bytes)
	}

	pub fn all_commits(&self) -> Vec<CommitKey> {
		self.wallet.known.keys().cloned().collect()
	}

	pub fn cleanup(&mut self) {
		self.builder.destroy();
	}
}

pub fn init_process_globals() {
	global::init_global_chain_type(global::ChainTypes::AutomatedTesting);
	global::set_local_chain_type(global::ChainTypes::AutomatedTesting);
	node::quiet_logs();
}

#[allow(dead_code)]
pub fn out_features(coinbase: bool) -> OutputFeatures {
	if coinbase {
		OutputFeatures::Coinbase
	} else {
		OutputFeatures::Plain
	}
}
