//! dbsim (C18): the LMDB wrapper `grin_store::lmdb::Store` / `Batch` against a nested-transaction
//! map model. Three parts:
//!  1. sequential histories of put/delete/get/exists/iter over three key spaces in nested batches
//!     (depth <= 3) with commit/drop at every level, reads outside an open batch, reopen, and data
//!     volumes that force map resizes;
//!  2. the same store under the seeded baton scheduler: writers committing versioned groups of keys
//!     (with aborted batches and dropped children in between), readers and iterators on other
//!     threads checking atomicity and monotonicity, while the map is being enlarged;
//!  3. process death at every crash point of a batch commit: the reopened store holds either the
//!     pre-batch or the post-batch map.

use crate::node::{copy_dir, fresh_dir};
use crate::rng::{fnv64, SimRng};
use crate::sim::{CaseResult, Violation};
use grin_core::global;
use grin_core::ser::{self, Readable, Reader, Writeable, Writer};
use grin_store::lmdb::{Batch, Store};
use grin_util::verif;
use grin_util::verif::sched;
use serde_json::{json, Value};
use std::collections::BTreeMap;
use std::path::Path;
use std::sync::{Arc, Mutex};
use std::time::Instant;

const PREFIXES: [u8; 3] = [b'a', b'k', b'z'];

#[derive(Clone, Debug, PartialEq)]
struct Blob(Vec<u8>);
impl Writeable for Blob {
	fn write<W: Writer>(&self, w: &mut W) -> Result<(), ser::Error> {
		w.write_u32(self.0.len() as u32)?;
		w.write_fixed_bytes(&self.0[..])
	}
}
impl Readable for Blob {
	fn read<R: Reader>(r: &mut R) -> Result<Blob, ser::Error> {
		let n = r.read_u32()? as usize;
		// a reader thread may be preempted while it deserializes straight out of the memory map
		if sched::active() {
			sched::yield_point("deser", None);
		}
		// values are read back in pieces: the generic reader caps a single read at 100_000 bytes
		let mut out = Vec::with_capacity(n.min(1 << 20));
		let mut left = n;
		while left > 0 {
			let k = left.min(50_000);
			out.extend(r.read_fixed_bytes(k)?);
			left -= k;
		}
		Ok(Blob(out))
	}
}

fn viol(key: &str, what: String) -> Violation {
	Violation {
		key: format!("C18:{}", key),
		what,
		replay: Value::Null,
	}
}

fn open(dir: &Path) -> Result<Store, String> {
	Store::new(dir.to_str().unwrap(), None, Some("dbsim"), PREFIXES.to_vec(), None, None).map_err(|e| format!("{:?}", e))
}

type Map = BTreeMap<(u8, Vec<u8>), Vec<u8>>;

/// View of the model inside a stack of open batches.
fn view<'a>(committed: &'a Map, stack: &'a [BTreeMap<(u8, Vec<u8>), Option<Vec<u8>>>], k: &(u8, Vec<u8>)) -> Option<&'a Vec<u8>> {
	for layer in stack.iter().rev() {
		if let Some(v) = layer.get(k) {
			return v.as_ref();
		}
	}
	committed.get(k)
}

fn full_view(committed: &Map, stack: &[BTreeMap<(u8, Vec<u8>), Option<Vec<u8>>>]) -> Map {
	let mut m = committed.clone();
	for layer in stack {
		for (k, v) in layer {
			match v {
				Some(x) => {
					m.insert(k.clone(), x.clone());
				}
				None => {
					m.remove(k);
				}
			}
		}
	}
	m
}

struct Seq {
	store: Option<Store>,
	dir: std::path::PathBuf,
	committed: Map,
	rng: SimRng,
	log: Vec<String>,
	ops: u64,
	probes: BTreeMap<String, u64>,
	max_value: usize,
	keyspace: u64,
}

impl Seq {
	fn probe(&mut self, k: &str) {
		*self.probes.entry(k.to_string()).or_insert(0) += 1;
	}

	fn key(&mut self) -> (u8, Vec<u8>) {
		let p = *self.rng.pick(&PREFIXES);
		let n = self.rng.below(self.keyspace);
		(p, format!("key{:04}", n).into_bytes())
	}

	fn value(&mut self) -> Vec<u8> {
		let n = match self.rng.below(10) {
			0 => 0,
			1..=5 => self.rng.range(1, 200) as usize,
			_ => self.rng.range(200, self.max_value as u64) as usize,
		};
		let tag = self.rng.next_u64();
		let mut v = tag.to_le_bytes().to_vec();
		v.resize(n.max(8), (tag & 0xff) as u8);
		v
	}

	/// Ops inside one open batch (recursive for children). `stack.last()` is this batch's overlay.
	fn in_batch(&mut self, b: &mut Batch<'_>, stack: &mut Vec<BTreeMap<(u8, Vec<u8>), Option<Vec<u8>>>>, depth: usize, budget: &mut i64) -> Result<(), Violation> {
		let n_ops = self.rng.range(1, 8);
		for _ in 0..n_ops {
			self.ops += 1;
			match self.rng.below(12) {
				0..=3 => {
					let k = self.key();
					let v = self.value();
					if *budget - (v.len() as i64) < 0 {
						continue;
					}
					*budget -= v.len() as i64 + 64;
					b.put_ser(Some(k.0), &k.1, &Blob(v.clone()))
						.map_err(|e| viol("put-failed", format!("put failed: {:?}", e)))?;
					stack.last_mut().unwrap().insert(k, Some(v));
				}
				4 => {
					let k = self.key();
					b.delete(Some(k.0), &k.1).map_err(|e| viol("delete-failed", format!("{:?}", e)))?;
					stack.last_mut().unwrap().insert(k, None);
				}
				5 | 6 => {
					let k = self.key();
					let got: Option<Blob> = b
						.get_ser(Some(k.0), &k.1, None)
						.map_err(|e| viol("get-failed", format!("{:?}", e)))?;
					let want = view(&self.committed, stack, &k).cloned();
					if got.as_ref().map(|x| &x.0) != want.as_ref() {
						return Err(viol(
							"batch-read-differs",
							format!("depth {}: get inside the batch returned {:?} bytes, the model's view has {:?}", depth, got.map(|x| x.0.len()), want.map(|x| x.len())),
						));
					}
				}
				7 => {
					let k = self.key();
					let got = b.exists(Some(k.0), &k.1).map_err(|e| viol("exists-failed", format!("{:?}", e)))?;
					if got != view(&self.committed, stack, &k).is_some() {
						return Err(viol("batch-exists-differs", format!("depth {}: exists inside the batch = {}", depth, got)));
					}
				}
				8 => {
					// iterate one key space inside the batch: must be the batch's own view, in key order
					let p = *self.rng.pick(&PREFIXES);
					let it = b
						.iter(Some(p), |k, v| Ok((k.to_vec(), v.to_vec())))
						.map_err(|e| viol("iter-failed", format!("{:?}", e)))?;
					let got: Vec<(Vec<u8>, Vec<u8>)> = it.filter_map(|x| x.ok()).collect();
					let want: Vec<Vec<u8>> = full_view(&self.committed, stack).into_iter().filter(|((pp, _), _)| *pp == p).map(|((_, k), _)| k).collect();
					let got_keys: Vec<Vec<u8>> = got.iter().map(|(k, _)| k.clone()).collect();
					if got_keys != want {
						return Err(viol("batch-iter-differs", format!("depth {}: iterator inside the batch yields {} keys, the model's view {}", depth, got_keys.len(), want.len())));
					}
					self.probe("iter_in_batch");
				}
				9 => {
					// a read outside the batch (fresh read transaction) sees committed state only
					let k = self.key();
					let got: Option<Blob> = self.store.as_ref().unwrap().get_ser(Some(k.0), &k.1, None).map_err(|e| viol("outside-get-failed", format!("{:?}", e)))?;
					let want = self.committed.get(&k).cloned();
					if got.as_ref().map(|x| &x.0) != want.as_ref() {
						return Err(viol(
							"uncommitted-write-visible-outside",
							format!("depth {}: a read outside the open batch returned {:?} bytes, the committed state has {:?}", depth, got.map(|x| x.0.len()), want.map(|x| x.len())),
						));
					}
					self.probe("outside_read_during_batch");
				}
				_ => {
					if depth < 3 {
						let mut child = b.child().map_err(|e| viol("child-failed", format!("{:?}", e)))?;
						stack.push(BTreeMap::new());
						self.in_batch(&mut child, stack, depth + 1, budget)?;
						let layer = stack.pop().unwrap();
						if self.rng.chance(2, 3) {
							child.commit().map_err(|e| viol("child-commit-failed", format!("{:?}", e)))?;
							// merge into the parent's overlay
							for (k, v) in layer {
								stack.last_mut().unwrap().insert(k, v);
							}
							self.probe("child_committed");
						} else {
							drop(child);
							self.probe("child_dropped");
						}
					}
				}
			}
		}
		Ok(())
	}

	fn compare_all(&mut self, ctx: &str) -> Result<(), Violation> {
		let store = self.store.as_ref().unwrap();
		for p in PREFIXES {
			let it = store.iter(Some(p), |k, v| Ok((k.to_vec(), v.to_vec()))).map_err(|e| viol("iter-failed", format!("{}: {:?}", ctx, e)))?;
			let got: Vec<(Vec<u8>, Vec<u8>)> = it.filter_map(|x| x.ok()).collect();
			let want: Vec<(Vec<u8>, usize)> = self.committed.iter().filter(|((pp, _), _)| *pp == p).map(|((_, k), v)| (k.clone(), v.len())).collect();
			if got.len() != want.len() || got.iter().zip(want.iter()).any(|((gk, _), (wk, _))| gk != wk) {
				return Err(viol(
					"committed-state-differs",
					format!("{}: key space {:?} holds {} keys, the model {} (a committed write was lost, or an aborted one left a trace)", ctx, p as char, got.len(), want.len()),
				));
			}
			// values (raw value = u32 length + bytes)
			for ((k, raw), (_, wl)) in got.iter().zip(want.iter()) {
				if raw.len() != wl + 4 {
					return Err(viol("committed-value-differs", format!("{}: value of {:?} has {} bytes, model {}", ctx, String::from_utf8_lossy(k), raw.len() - 4, wl)));
				}
			}
		}
		// spot reads through get_ser / exists
		let keys: Vec<(u8, Vec<u8>)> = (0..6).map(|_| self.key()).collect();
		let store = self.store.as_ref().unwrap();
		for k in keys {
			let got: Option<Blob> = store.get_ser(Some(k.0), &k.1, None).map_err(|e| viol("get-failed", format!("{}: {:?}", ctx, e)))?;
			let want = self.committed.get(&k);
			if got.as_ref().map(|x| &x.0) != want {
				return Err(viol("committed-read-differs", format!("{}: get_ser differs from the model", ctx)));
			}
			let ex = store.exists(Some(k.0), &k.1).map_err(|e| viol("exists-failed", format!("{}: {:?}", ctx, e)))?;
			if ex != want.is_some() {
				return Err(viol("committed-exists-differs", format!("{}: exists differs from the model", ctx)));
			}
		}
		Ok(())
	}
}

/// High-water mark of the data file (what needs_resize compares with the map size).
fn file_size(dir: &Path) -> u64 {
	std::fs::metadata(dir.join("multi_lmdb").join("data.mdb")).map(|m| m.len()).unwrap_or(0)
}

/// Size of the LMDB memory map of this environment as the kernel sees it (/proc/self/maps):
/// it changes exactly when the environment is resized.
fn map_size(dir: &Path) -> u64 {
	let needle = format!("{}/multi_lmdb/data.mdb", dir.to_str().unwrap_or(""));
	let maps = std::fs::read_to_string("/proc/self/maps").unwrap_or_default();
	let mut best = 0u64;
	for l in maps.lines() {
		if l.ends_with(&needle) {
			if let Some(range) = l.split_whitespace().next() {
				let mut it = range.split('-');
				if let (Some(a), Some(b)) = (it.next(), it.next()) {
					if let (Ok(a), Ok(b)) = (u64::from_str_radix(a, 16), u64::from_str_radix(b, 16)) {
						best = best.max(b - a);
					}
				}
			}
		}
	}
	best
}

/// Loads the store with single-put batches (each far below the headroom of the smallest map) until
/// the map has been enlarged to at least `min_map` bytes and the data file has reached `pct` percent
/// of the map. Afterwards the 10% headroom below the resize threshold is >= 10% of `min_map`, which
/// bounds what batches prepared concurrently may write before the next resize check (the envelope
/// the allocation policy is designed for: production headroom is >= 12.8 MB, a batch is a block).
fn prefill(store: &Store, dir: &Path, min_map: u64, pct: u64, mut model: Option<&mut Map>) -> Result<usize, String> {
	let mut n = 0;
	while n < 2000 {
		let m = map_size(dir);
		if m == 0 {
			return Err("memory map of the environment not found in /proc/self/maps".into());
		}
		if m >= min_map && file_size(dir) * 100 >= m * pct {
			break;
		}
		let key = format!("prefill{:04}", n).into_bytes();
		let val = vec![(n & 0xff) as u8; 30_000];
		let mut b = store.batch().map_err(|e| format!("{:?}", e))?;
		b.put_ser(Some(b'k'), &key, &Blob(val.clone())).map_err(|e| format!("prefill put: {:?}", e))?;
		b.commit().map_err(|e| format!("prefill commit: {:?}", e))?;
		if let Some(m) = model.as_mut() {
			m.insert((b'k', key), val);
		}
		n += 1;
	}
	Ok(n)
}

/// Part 1: one sequential history.
pub fn sequential(seed: u64, tag: &str) -> (Option<Violation>, u64, BTreeMap<String, u64>, u64) {
	let dir = fresh_dir(tag);
	let rng = SimRng::new(seed);
	let store = match open(&dir) {
		Ok(s) => s,
		Err(e) => return (Some(viol("open-failed", e)), 0, BTreeMap::new(), 0),
	};
	let mut s = Seq {
		store: Some(store),
		dir: dir.clone(),
		committed: Map::new(),
		rng: rng.fork("seq"),
		log: vec![],
		ops: 0,
		probes: BTreeMap::new(),
		max_value: 0,
		keyspace: 0,
	};
	s.max_value = *s.rng.pick(&[400usize, 4_000, 20_000]);
	s.keyspace = *s.rng.pick(&[8u64, 40, 300]);
	if s.max_value > 400 {
		let pct = s.rng.range(40, 88);
		let mut model = Map::new();
		match prefill(s.store.as_ref().unwrap(), &dir, 2 << 20, pct, Some(&mut model)) {
			Ok(_) => s.committed = model,
			Err(e) => return (Some(viol("operation-failed", format!("prefill: {}", e))), 0, BTreeMap::new(), 0),
		}
		s.probe("prefilled_through_first_resize");
	}
	let batches = s.rng.range(10, 120);
	let hold_snapshot = s.rng.chance(1, 3);
	let mut held = None;
	let mut violation = None;
	let mut last_size = map_size(&dir);
	for bi in 0..batches {
		if s.rng.chance(1, 25) {
			// clean reopen
			s.store = None;
			match open(&dir) {
				Ok(st) => s.store = Some(st),
				Err(e) => {
					violation = Some(viol("reopen-failed", e));
					break;
				}
			}
			s.probe("reopen");
			if let Err(v) = s.compare_all("after reopen") {
				violation = Some(v);
				break;
			}
		}
		let store_ptr: *const Store = s.store.as_ref().unwrap();
		// one top-level batch; keep it within 5% of the allocation chunk (1 MiB in test mode)
		let mut budget: i64 = 50_000;
		let mut stack = vec![BTreeMap::new()];
		let res = {
			// SAFETY: the store outlives the batch; `s.store` is not touched while the batch is open
			let store_ref: &Store = unsafe { &*store_ptr };
			// optionally this thread keeps a snapshot iterator open across the whole batch (a nested
			// transaction for the resize gate): it must keep showing the pre-batch contents
			if hold_snapshot {
				let p = *s.rng.pick(&PREFIXES);
				let want: Vec<(Vec<u8>, usize)> = s.committed.iter().filter(|((pp, _), _)| *pp == p).map(|((_, k), v)| (k.clone(), v.len())).collect();
				match store_ref.iter(Some(p), |k, v| Ok((k.to_vec(), v.len()))) {
					Ok(it) => held = Some((p, want, it)),
					Err(e) => {
						violation = Some(viol("operation-failed", format!("snapshot iterator: {:?}", e)));
						break;
					}
				}
			}
			match store_ref.batch() {
				Ok(mut b) => {
					let r = s.in_batch(&mut b, &mut stack, 1, &mut budget);
					match r {
						Ok(()) => {
							if s.rng.chance(4, 5) {
								match b.commit() {
									Ok(()) => {
										let layer = stack.pop().unwrap();
										for (k, v) in layer {
											match v {
												Some(x) => {
													s.committed.insert(k, x);
												}
												None => {
													s.committed.remove(&k);
												}
											}
										}
										s.probe("batch_committed");
										Ok(())
									}
									Err(e) => Err(viol("commit-failed", format!("batch {}: commit failed: {:?}", bi, e))),
								}
							} else {
								drop(b);
								s.probe("batch_dropped");
								Ok(())
							}
						}
						Err(v) => Err(v),
					}
				}
				Err(e) => Err(viol("batch-open-failed", format!("batch {}: {:?}", bi, e))),
			}
		};
		if let Err(v) = res {
			violation = Some(v);
			break;
		}
		if let Some((p, want, it)) = held.take() {
			let got: Vec<(Vec<u8>, usize)> = it.filter_map(|x| x.ok()).map(|(k, l)| (k, l - 4)).collect();
			if got != want {
				violation = Some(viol(
					"snapshot-iterator-saw-later-batch",
					format!("batch {}: an iterator over {:?} opened before the batch yields {} items, the contents at the time it was opened had {} (it must not observe a batch committed after it was opened)", bi, p as char, got.len(), want.len()),
				));
				break;
			}
			s.probe("snapshot_held_across_batch");
		}
		if let Err(v) = s.compare_all(&format!("after batch {}", bi)) {
			violation = Some(v);
			break;
		}
		let sz = map_size(&dir);
		if sz > last_size && last_size > 0 {
			s.probe("map_grew");
		}
		last_size = sz;
	}
	let total: usize = s.committed.values().map(|v| v.len()).sum();
	s.log.push(format!("{} batches, {} keys, {} bytes", batches, s.committed.len(), total));
	let digest = fnv64(format!("{:?}{}", s.probes, total).as_bytes());
	let ops = s.ops;
	let probes = s.probes.clone();
	drop(held);
	s.store = None;
	let _ = std::fs::remove_dir_all(&s.dir);
	(violation, ops, probes, digest)
}

/// Part 1b: key spaces larger than the iterator's key page (10 000 keys).
pub fn paging(seed: u64, tag: &str) -> (Option<Violation>, u64) {
	let dir = fresh_dir(tag);
	let mut rng = SimRng::new(seed).fork("paging");
	let n = *rng.pick(&[9_999usize, 10_000, 10_001, 19_999, 20_000, 20_001, 23_456]);
	let res: Result<(), Violation> = (|| {
		let store = open(&dir).map_err(|e| viol("open-failed", e))?;
		let mut model: BTreeMap<Vec<u8>, u64> = BTreeMap::new();
		let mut i = 0;
		while i < n {
			let mut b = store.batch().map_err(|e| viol("operation-failed", format!("{:?}", e)))?;
			for j in i..(i + 400).min(n) {
				// keys in shuffled insertion order, sorted order decided by the store
				let k = format!("p{:06}", (j * 7919) % 1_000_003).into_bytes();
				b.put_ser(Some(b'a'), &k, &(j as u64)).map_err(|e| viol("operation-failed", format!("{:?}", e)))?;
				model.insert(k, j as u64);
			}
			b.commit().map_err(|e| viol("operation-failed", format!("{:?}", e)))?;
			i += 400;
		}
		let read_all = |it: &mut dyn Iterator<Item = Result<(Vec<u8>, Vec<u8>), grin_store::lmdb::Error>>| -> Vec<(Vec<u8>, u64)> { it.filter_map(|x| x.ok()).map(|(k, v)| (k, u64::from_be_bytes([v[0], v[1], v[2], v[3], v[4], v[5], v[6], v[7]]))).collect() };
		let cmp = |got: Vec<(Vec<u8>, u64)>, model: &BTreeMap<Vec<u8>, u64>, ctx: &str| -> Result<(), Violation> {
			let want: Vec<(Vec<u8>, u64)> = model.iter().map(|(k, v)| (k.clone(), *v)).collect();
			if got != want {
				let first = got.iter().zip(want.iter()).position(|(a, b)| a != b).unwrap_or(got.len().min(want.len()));
				return Err(viol("iterator-differs-large-keyspace", format!("{}: iterator over {} keys yields {} items; first difference at index {}", ctx, want.len(), got.len(), first)));
			}
			Ok(())
		};
		let mut it = store.iter(Some(b'a'), |k, v| Ok((k.to_vec(), v.to_vec()))).map_err(|e| viol("operation-failed", format!("{:?}", e)))?;
		cmp(read_all(&mut it), &model, "committed")?;
		drop(it);
		// inside a batch: deletions and insertions around the page boundaries
		let keys: Vec<Vec<u8>> = model.keys().cloned().collect();
		let mut view = model.clone();
		let mut b = store.batch().map_err(|e| viol("operation-failed", format!("{:?}", e)))?;
		let step = rng.range(3, 40) as usize;
		for idx in (9_990..keys.len().min(10_020)).chain((0..keys.len()).step_by(step).take(300)) {
			b.delete(Some(b'a'), &keys[idx]).map_err(|e| viol("operation-failed", format!("{:?}", e)))?;
			view.remove(&keys[idx]);
		}
		for j in 0..rng.range(1, 60) {
			let k = format!("p{:06}x{}", rng.below(1_000_003), j).into_bytes();
			b.put_ser(Some(b'a'), &k, &(j as u64)).map_err(|e| viol("operation-failed", format!("{:?}", e)))?;
			view.insert(k, j as u64);
		}
		{
			let mut it = b.iter(Some(b'a'), |k, v| Ok((k.to_vec(), v.to_vec()))).map_err(|e| viol("operation-failed", format!("{:?}", e)))?;
			cmp(read_all(&mut it), &view, "inside the batch")?;
		}
		{
			let mut it = store.iter(Some(b'a'), |k, v| Ok((k.to_vec(), v.to_vec()))).map_err(|e| viol("operation-failed", format!("{:?}", e)))?;
			cmp(read_all(&mut it), &model, "outside while the batch is open")?;
		}
		if rng.chance(1, 2) {
			b.commit().map_err(|e| viol("operation-failed", format!("{:?}", e)))?;
			model = view;
		} else {
			drop(b);
		}
		let mut it = store.iter(Some(b'a'), |k, v| Ok((k.to_vec(), v.to_vec()))).map_err(|e| viol("operation-failed", format!("{:?}", e)))?;
		cmp(read_all(&mut it), &model, "after the batch ended")?;
		Ok(())
	})();
	let _ = std::fs::remove_dir_all(&dir);
	(res.err(), n as u64)
}

// ------------------------------------------------------------------------------------------
// Part 2: concurrent readers / iterators / writers under the baton scheduler (forked child)

fn version_of(raw_or_val: &[u8], off: usize) -> u64 {
	let mut b8 = [0u8; 8];
	b8.copy_from_slice(&raw_or_val[off..off + 8]);
	u64::from_le_bytes(b8)
}

fn concurrent_child(seed: u64, dir: &Path, replay: Option<Vec<u32>>) -> Value {
	let store = match open(dir) {
		Ok(s) => Arc::new(s),
		Err(e) => return json!({"harness_error": e}),
	};
	let mut rng = SimRng::new(seed);
	let n_writers = rng.range(1, 2) as usize;
	let n_readers = rng.range(1, 3) as usize;
	let rounds = rng.range(6, 14) as usize;
	// one batch = 6 group values + one new fill key, kept below 5% of the 1 MiB chunk
	let payload = *rng.pick(&[100usize, 2_000, 5_000]);
	let fill = *rng.pick(&[1_000usize, 10_000, 18_000]);
	let stay = *rng.pick(&[30u64, 60, 85]);
	let prefill_pct = rng.range(80, 88);
	// initial version 0 of every group, committed before the threads start
	for w in 0..n_writers {
		let mut b = store.batch().unwrap();
		for (i, p) in PREFIXES.iter().enumerate() {
			for j in 0..2 {
				let key = format!("w{}g{}{}", w, i, j).into_bytes();
				let mut v = 0u64.to_le_bytes().to_vec();
				v.resize(16, 0);
				b.put_ser(Some(*p), &key, &Blob(v)).unwrap();
			}
		}
		b.commit().unwrap();
	}
	// fill the map (through its first enlargements) close to the resize threshold so that the
	// threshold is crossed while the threads are running
	let pf = match prefill(&store, dir, 3 << 20, prefill_pct, None) {
		Ok(n) => n,
		Err(e) => return json!({"harness_error": e}),
	};
	let viols: Arc<Mutex<Vec<(String, String)>>> = Arc::new(Mutex::new(vec![]));
	let committed_version: Arc<Vec<std::sync::atomic::AtomicU64>> = Arc::new((0..n_writers).map(|_| std::sync::atomic::AtomicU64::new(0)).collect());
	let committed_rounds: Arc<Mutex<Vec<Vec<u64>>>> = Arc::new(Mutex::new(vec![vec![]; n_writers]));
	// round whose top-level commit() has been invoked (set right before the call): nothing newer may
	// be visible to anybody else
	let commit_invoked: Arc<Vec<std::sync::atomic::AtomicU64>> = Arc::new((0..n_writers).map(|_| std::sync::atomic::AtomicU64::new(0)).collect());
	let size_before = map_size(dir);
	let mut sr = SimRng::new(seed).fork("stalls");
	let mut stalls: Vec<(u64, u64)> = vec![];
	if sr.chance(1, 2) {
		for _ in 0..sr.range(1, 3) {
			stalls.push((sr.below(6000), sr.range(150, 4000)));
		}
	}
	let n_stalls = stalls.len();
	sched::install_with_stalls(seed, stay, replay, 300_000, stalls);
	let mut handles = vec![];
	for w in 0..n_writers {
		let store = store.clone();
		let viols = viols.clone();
		let cv = committed_version.clone();
		let cr = committed_rounds.clone();
		let ci = commit_invoked.clone();
		let mut wr = rng.fork(&format!("writer{}", w));
		let debug = std::env::var("VERIF_DEBUG").is_ok();
		let dirp = dir.to_path_buf();
		handles.push(sched::spawn(&format!("writer{}", w), move || {
			global::set_local_chain_type(global::ChainTypes::AutomatedTesting);
			for round in 1..=rounds as u64 {
				let abort = wr.chance(1, 5);
				let drop_child = wr.chance(1, 3);
				let res: Result<(), String> = (|| {
					if debug {
						eprintln!("  writer{} round {} before batch(): file {} map {}", w, round, file_size(&dirp), map_size(&dirp));
					}
					// the data file's high-water mark is beyond the resize threshold of the current map
					// (with a margin for the harness' coarser measure): the resize check that batch() runs
					// on a thread without open transactions must have enlarged the map - at once, or by
					// the deferred resize it waits for - before the batch is handed out
					let (fs0, ms0) = (file_size(&dirp), map_size(&dirp));
					let must_grow = ms0 > 0 && fs0.saturating_sub(4096) as f64 > 0.9 * ms0 as f64 + 32768.0;
					let mut b = store.batch().map_err(|e| format!("batch(): {:?}", e))?;
					if must_grow {
						let ms1 = map_size(&dirp);
						if ms1 <= ms0 {
							return Err(format!("RESIZE-LOST batch() handed out a batch in a map of {} bytes although the data file had already reached {} bytes (threshold 90%) when it was called: the resize did not take place", ms1, fs0));
						}
						sched::yield_point("resize-observed", None);
					}
					if debug {
						eprintln!("  writer{} round {} in batch: file {} map {}", w, round, file_size(&dirp), map_size(&dirp));
					}
					for (i, p) in PREFIXES.iter().enumerate() {
						// first key of the pair in the parent batch, second through a child batch
						let mut v = round.to_le_bytes().to_vec();
						v.resize(16 + payload, (round & 0xff) as u8);
						b.put_ser(Some(*p), &format!("w{}g{}0", w, i).into_bytes(), &Blob(v.clone())).map_err(|e| format!("put: {:?}", e))?;
						{
							let mut c = b.child().map_err(|e| format!("child: {:?}", e))?;
							c.put_ser(Some(*p), &format!("w{}g{}1", w, i).into_bytes(), &Blob(v.clone())).map_err(|e| format!("child put: {:?}", e))?;
							c.commit().map_err(|e| format!("child commit: {:?}", e))?;
						}
						if drop_child {
							// a dropped child must leave no trace
							let mut c = b.child().map_err(|e| format!("child: {:?}", e))?;
							let mut junk = u64::MAX.to_le_bytes().to_vec();
							junk.resize(16, 0xee);
							c.put_ser(Some(*p), &format!("w{}g{}1", w, i).into_bytes(), &Blob(junk)).map_err(|e| format!("child put: {:?}", e))?;
							drop(c);
						}
					}
					// a new key per round: the data volume grows and the set of rounds present is observable
					let mut f = round.to_le_bytes().to_vec();
					f.resize(8 + fill, 0xf1);
					b.put_ser(Some(b'z'), &format!("w{}fill{:04}", w, round).into_bytes(), &Blob(f)).map_err(|e| format!("put fill: {:?}", e))?;
					if abort {
						drop(b);
					} else {
						ci[w].store(round, std::sync::atomic::Ordering::SeqCst);
						b.commit().map_err(|e| format!("commit: {:?}", e))?;
						cr.lock().unwrap()[w].push(round);
						cv[w].store(round, std::sync::atomic::Ordering::SeqCst);
					}
					Ok(())
				})();
				if let Err(e) = res {
					let class = if e.starts_with("RESIZE-LOST") { "resize-lost" } else { "operation-failed" };
					viols.lock().unwrap().push((class.into(), format!("writer{} round {}: {}", w, round, e)));
					return;
				}
			}
		}));
	}
	for r in 0..n_readers {
		let store = store.clone();
		let viols = viols.clone();
		let cv = committed_version.clone();
		let cr = committed_rounds.clone();
		let ci = commit_invoked.clone();
		let iters = rounds * 2;
		handles.push(sched::spawn(&format!("reader{}", r), move || {
			global::set_local_chain_type(global::ChainTypes::AutomatedTesting);
			let mut last_seen: Vec<u64> = vec![0; n_writers];
			let fail = |k: &str, w: String| viols.lock().unwrap().push((k.to_string(), w));
			for it in 0..iters {
				// what was committed before this read began: a lower bound for what must be seen
				let floor: Vec<u64> = (0..n_writers).map(|w| cv[w].load(std::sync::atomic::Ordering::SeqCst)).collect();
				if (it + r) % 2 == 0 {
					// one iterator = one snapshot: every key of a writer's group carries the same version
					for p in PREFIXES {
						// the closure runs on borrowed map memory: a preemption point before it is copied
						let res = store.iter(Some(p), |k, v| {
							sched::yield_point("iter-item", None);
							Ok((k.to_vec(), v.to_vec()))
						});
						let items: Vec<(Vec<u8>, Vec<u8>)> = match res {
							Ok(i) => i.filter_map(|x| x.ok()).collect(),
							Err(e) => {
								fail("operation-failed", format!("reader{} iter: {:?}", r, e));
								return;
							}
						};
						if items.windows(2).any(|w| w[0].0 >= w[1].0) {
							fail("iterator-order", format!("reader{}: iterator keys not strictly increasing", r));
							return;
						}
						for w in 0..n_writers {
							let vs: Vec<u64> = items.iter().filter(|(k, _)| k.starts_with(format!("w{}g", w).as_bytes())).map(|(_, v)| version_of(v, 4)).collect();
							if vs.len() != 2 {
								fail("iterator-missed-keys", format!("reader{}: iterator over {:?} yields {} keys of writer{}'s group instead of 2", r, p as char, vs.len(), w));
								return;
							}
							if vs[0] == u64::MAX || vs[1] == u64::MAX {
								fail("dropped-child-visible", format!("reader{}: a value written by a dropped child batch is visible", r));
								return;
							}
							if vs[0] != vs[1] {
								fail("partial-batch-observed", format!("reader{}: one iterator shows versions {:?} for keys written by the same batch (parent and child writes)", r, vs));
								return;
							}
							if vs[0] < floor[w] {
								fail("committed-write-not-visible", format!("reader{}: sees version {} of writer{} although {} was committed before the read began", r, vs[0], w, floor[w]));
								return;
							}
							// isolation: what is visible was committed, or its commit() is at least under way
							let invoked = ci[w].load(std::sync::atomic::Ordering::SeqCst);
							if vs[0] != 0 && vs[0] != invoked && !cr.lock().unwrap()[w].contains(&vs[0]) {
								fail("uncommitted-write-visible", format!("reader{}: an iterator shows version {} of writer{}, which belongs to a batch that was dropped or whose commit has not been called (last commit invoked: {})", r, vs[0], w, invoked));
								return;
							}
							if p == b'z' {
								// rounds whose fill key is present = committed rounds up to the version seen
								let present: Vec<u64> = items.iter().filter(|(k, _)| k.starts_with(format!("w{}fill", w).as_bytes())).map(|(_, v)| version_of(v, 4)).collect();
								let known: Vec<u64> = cr.lock().unwrap()[w].clone();
								let v = vs[0];
								let want: Vec<u64> = known.iter().cloned().filter(|x| *x <= v).collect();
								let ok = if want.last() == Some(&v) || v == 0 {
									present == want
								} else {
									// commit of round v returned after our snapshot was taken but is not recorded yet
									let mut w2 = want.clone();
									w2.push(v);
									present == w2
								};
								if !ok {
									fail(
										"partial-batch-observed",
										format!("reader{}: iterator shows group version {} of writer{} but the per-round keys of rounds {:?} (committed rounds up to it: {:?}): part of a batch, or an aborted batch, is visible", r, v, w, present, want),
									);
									return;
								}
							}
						}
						if p == b'a' {
							for w in 0..n_writers {
								let v = items.iter().find(|(k, _)| k.starts_with(format!("w{}g", w).as_bytes())).map(|(_, v)| version_of(v, 4)).unwrap_or(0);
								if v < last_seen[w] {
									fail("version-went-back", format!("reader{}: version of writer{} went from {} to {}", r, w, last_seen[w], v));
									return;
								}
								last_seen[w] = v;
							}
						}
					}
				} else {
					for w in 0..n_writers {
						for (i, p) in PREFIXES.iter().enumerate() {
							for j in 0..2 {
								let key = format!("w{}g{}{}", w, i, j).into_bytes();
								match store.get_ser::<Blob>(Some(*p), &key, None) {
									Ok(Some(b)) => {
										let v = version_of(&b.0, 0);
										if v == u64::MAX {
											fail("dropped-child-visible", format!("reader{}: get sees a dropped child's value", r));
											return;
										}
										if v < floor[w] {
											fail("committed-write-not-visible", format!("reader{}: get sees version {} although {} was committed before", r, v, floor[w]));
											return;
										}
										let invoked = ci[w].load(std::sync::atomic::Ordering::SeqCst);
										if v != 0 && v != invoked && !cr.lock().unwrap()[w].contains(&v) {
											fail("uncommitted-write-visible", format!("reader{}: get returns version {} of writer{}, which belongs to a batch that was dropped or whose commit has not been called (last commit invoked: {})", r, v, w, invoked));
											return;
										}
										if b.0.len() != 16 + payload && v != 0 {
											fail("value-torn", format!("reader{}: value of {} has {} bytes", r, String::from_utf8_lossy(&key), b.0.len()));
											return;
										}
									}
									Ok(None) => {
										fail("committed-key-missing", format!("reader{}: key {} missing", r, String::from_utf8_lossy(&key)));
										return;
									}
									Err(e) => {
										fail("operation-failed", format!("reader{} get: {:?}", r, e));
										return;
									}
								}
								match store.exists(Some(*p), &key) {
									Ok(true) => {}
									other => {
										fail("committed-key-missing", format!("reader{}: exists({}) = {:?}", r, String::from_utf8_lossy(&key), other.map_err(|e| format!("{:?}", e))));
										return;
									}
								}
							}
						}
					}
				}
			}
		}));
	}
	let out = match sched::run(handles, 120) {
		Some(o) => o,
		None => return json!({"harness_error": "watchdog: no scheduling point reached within 120 s"}),
	};
	let mut vs: Vec<(String, String)> = std::mem::take(&mut *viols.lock().unwrap());
	if let Some(d) = &out.deadlock {
		vs.push(("deadlock".into(), format!("all live threads blocked: {}", d)));
	}
	for p in &out.panics {
		vs.push(("panic".into(), p.clone()));
	}
	if out.out_of_steps {
		vs.push(("no-progress".into(), format!("threads still running after {} scheduling points (livelock, e.g. a resize that waits for a transaction that does not exist): last points {:?}", out.trace.len(), out.trace.iter().rev().take(6).map(|(t, l)| format!("{}:{}", out.names.get(*t as usize).cloned().unwrap_or_default(), l)).collect::<Vec<_>>())));
	}
	// final contents: the last committed version of every group, the fill keys of committed rounds only
	if out.deadlock.is_none() && !out.out_of_steps && out.panics.is_empty() {
		for w in 0..n_writers {
			let want = committed_version[w].load(std::sync::atomic::Ordering::SeqCst);
			for (i, p) in PREFIXES.iter().enumerate() {
				for j in 0..2 {
					let key = format!("w{}g{}{}", w, i, j).into_bytes();
					match store.get_ser::<Blob>(Some(*p), &key, None) {
						Ok(Some(b)) => {
							if version_of(&b.0, 0) != want {
								vs.push(("final-contents-differ".into(), format!("key {} ends with version {}, last committed {}", String::from_utf8_lossy(&key), version_of(&b.0, 0), want)));
							}
						}
						other => vs.push(("final-contents-differ".into(), format!("key {}: {:?}", String::from_utf8_lossy(&key), other.map(|x| x.map(|b| b.0.len()))))),
					}
				}
			}
			let known = committed_rounds.lock().unwrap()[w].clone();
			for round in 1..=rounds as u64 {
				let ex = store.exists(Some(b'z'), &format!("w{}fill{:04}", w, round).into_bytes()).unwrap_or(false);
				if ex != known.contains(&round) {
					vs.push(("final-contents-differ".into(), format!("per-round key of writer{} round {} present={} but committed={}", w, round, ex, known.contains(&round))));
				}
			}
		}
		for i in 0..pf {
			if !store.exists(Some(b'k'), &format!("prefill{:04}", i).into_bytes()).unwrap_or(false) {
				vs.push(("committed-write-lost".into(), format!("prefill key {} is gone", i)));
			}
		}
	}
	if std::env::var("VERIF_DEBUG").is_ok() {
		let lines: Vec<String> = out.trace.iter().map(|(t, l)| format!("{} {}", out.names.get(*t as usize).cloned().unwrap_or_default(), l)).collect();
		let _ = std::fs::write("/dev/shm/verif-sim/dbsim-trace.txt", lines.join("\n"));
	}
	let mut sw = vec![];
	let mut last = u32::MAX;
	for (t, l) in &out.trace {
		if *t != last {
			sw.extend_from_slice(&t.to_le_bytes());
			sw.extend_from_slice(l.as_bytes());
			last = *t;
		}
	}
	let mut full = vec![];
	for (t, l) in &out.trace {
		full.extend_from_slice(&t.to_le_bytes());
		full.extend_from_slice(l.as_bytes());
	}
	json!({
		"violations": vs.iter().map(|(k, w)| json!([k, w])).collect::<Vec<_>>(),
		"choices": out.choices,
		"points": out.trace.len(),
		"switches": out.switches,
		"switch_digest": format!("{:016x}", fnv64(&sw)),
		"trace_digest": format!("{:016x}", fnv64(&full)),
		"resized": map_size(dir) > size_before,
		"stalls": n_stalls,
		"map_before": size_before,
		"map_after": map_size(dir),
		"helper_threads": out.names.iter().filter(|n| n.as_str() == "helper").count(),
		"threads": out.names,
		"out_of_steps": out.out_of_steps,
	})
}

fn thread_count() -> usize {
	std::fs::read_to_string("/proc/self/status")
		.ok()
		.and_then(|s| s.lines().find(|l| l.starts_with("Threads:")).and_then(|l| l.split_whitespace().nth(1).map(|x| x.parse::<usize>().unwrap_or(1))))
		.unwrap_or(1)
}

fn fork_run<F: FnOnce(&Path) -> Value>(tag: &str, f: F) -> Result<Value, String> {
	let dir = fresh_dir(tag);
	let out_file = dir.join("result.json");
	let mut spins = 0;
	while thread_count() > 1 && spins < 500 {
		std::thread::sleep(std::time::Duration::from_millis(2));
		spins += 1;
	}
	let pid = unsafe { libc::fork() };
	if pid < 0 {
		return Err("fork failed".into());
	}
	if pid == 0 {
		let v = std::panic::catch_unwind(std::panic::AssertUnwindSafe(|| f(&dir))).unwrap_or_else(|_| json!({"harness_error": "child panicked"}));
		let _ = std::fs::write(&out_file, serde_json::to_string(&v).unwrap_or_default());
		unsafe { libc::_exit(0) }
	}
	let mut status: libc::c_int = 0;
	let t0 = Instant::now();
	loop {
		let r = unsafe { libc::waitpid(pid, &mut status, libc::WNOHANG) };
		if r == pid {
			break;
		}
		if t0.elapsed().as_secs() > 180 {
			unsafe { libc::kill(pid, libc::SIGKILL) };
			unsafe { libc::waitpid(pid, &mut status, 0) };
			let _ = std::fs::remove_dir_all(&dir);
			return Err("child watchdog (180 s)".into());
		}
		std::thread::sleep(std::time::Duration::from_millis(2));
	}
	let res = if libc::WIFSIGNALED(status) {
		// the code under test brought the process down (e.g. a fault on a remapped page)
		Ok(json!({"violations": [["process-died", format!("the process running the store died with signal {}", libc::WTERMSIG(status))]], "choices": [], "points": 0, "switches": 0, "switch_digest": "0", "trace_digest": "0"}))
	} else {
		std::fs::read_to_string(&out_file).ok().and_then(|s| serde_json::from_str::<Value>(&s).ok()).ok_or_else(|| format!("child wrote no result (status {})", status))
	};
	let _ = std::fs::remove_dir_all(&dir);
	res
}

// ------------------------------------------------------------------------------------------
// Part 3: process death around commit

fn crash_part(seed: u64, res: &mut CaseResult) -> Option<Violation> {
	let mut rng = SimRng::new(seed).fork("crash");
	let base = fresh_dir("db-crash-base");
	let mut pre: Map = Map::new();
	{
		let store = match open(&base) {
			Ok(s) => s,
			Err(e) => return Some(viol("open-failed", e)),
		};
		let mut b = store.batch().ok()?;
		for i in 0..rng.range(3, 12) {
			let p = *rng.pick(&PREFIXES);
			let k = format!("key{:03}", i).into_bytes();
			let n = rng.range(1, 3000) as usize;
			let v = rng.bytes(n);
			b.put_ser(Some(p), &k, &Blob(v.clone())).ok()?;
			pre.insert((p, k), v);
		}
		b.commit().ok()?;
	}
	// the batch under test: puts, deletes, a committed child and a dropped child
	let mut post = pre.clone();
	let mut plan: Vec<(u8, Vec<u8>, Option<Vec<u8>>, u8)> = vec![]; // (prefix, key, value, where: 0 parent 1 committed child 2 dropped child)
	for i in 0..rng.range(3, 10) {
		let p = *rng.pick(&PREFIXES);
		let k = format!("key{:03}", rng.below(14)).into_bytes();
		let n = rng.range(1, 4000) as usize;
		let v = if rng.chance(1, 5) { None } else { Some(rng.bytes(n)) };
		let w = if i % 3 == 2 { rng.below(3) as u8 } else { 0 };
		plan.push((p, k, v, w));
	}
	for (p, k, v, w) in &plan {
		if *w == 2 {
			continue;
		}
		match v {
			Some(x) => {
				post.insert((*p, k.clone()), x.clone());
			}
			None => {
				post.remove(&(*p, k.clone()));
			}
		}
	}
	let run_child = |work: &Path, crash_at: i64| -> (i32, Vec<String>) {
		let labels_file = work.join("labels.txt");
		let pid = unsafe { libc::fork() };
		if pid == 0 {
			let code = std::panic::catch_unwind(std::panic::AssertUnwindSafe(|| {
				let store = match open(work) {
					Ok(s) => s,
					Err(_) => return 3,
				};
				if crash_at == 0 {
					verif::start_recording();
				} else {
					verif::set_crash_at(crash_at);
				}
				let mut b = match store.batch() {
					Ok(b) => b,
					Err(_) => return 4,
				};
				for (p, k, v, w) in &plan {
					let apply = |bb: &mut Batch<'_>| match v {
						Some(x) => bb.put_ser(Some(*p), k, &Blob(x.clone())).is_ok(),
						None => bb.delete(Some(*p), k).is_ok(),
					};
					match w {
						0 => {
							apply(&mut b);
						}
						1 => {
							if let Ok(mut c) = b.child() {
								apply(&mut c);
								let _ = c.commit();
							}
						}
						_ => {
							if let Ok(mut c) = b.child() {
								apply(&mut c);
								drop(c);
							}
						}
					}
				}
				let _ = b.commit();
				if crash_at == 0 {
					let _ = std::fs::write(&labels_file, verif::take_labels().join("\n"));
				}
				0
			}))
			.unwrap_or(5);
			unsafe { libc::_exit(code) }
		}
		let mut status: libc::c_int = 0;
		unsafe { libc::waitpid(pid, &mut status, 0) };
		let code = if libc::WIFEXITED(status) { libc::WEXITSTATUS(status) } else { -1 };
		let labels = std::fs::read_to_string(&labels_file).map(|s| s.lines().map(|x| x.to_string()).collect()).unwrap_or_default();
		let _ = std::fs::remove_file(&labels_file);
		(code, labels)
	};
	let work = fresh_dir("db-crash-count");
	let _ = copy_dir(&base, &work);
	let (code, labels) = run_child(&work, 0);
	let _ = std::fs::remove_dir_all(&work);
	if code != 0 {
		let _ = std::fs::remove_dir_all(&base);
		return Some(viol("crash-count-failed", format!("counting child exited {}", code)));
	}
	for (i, label) in labels.iter().enumerate() {
		let n = i + 1;
		let work = fresh_dir(&format!("db-crash-p{}", n));
		let _ = copy_dir(&base, &work);
		let (code, _) = run_child(&work, n as i64);
		res.runs += 1;
		res.fault(&format!("kill@{}", label));
		res.run_digests.push((fnv64(format!("{}:{}:{}", seed, n, label).as_bytes()), true));
		if code != verif::CRASH_EXIT_CODE {
			let _ = std::fs::remove_dir_all(&work);
			continue;
		}
		// reopen and compare with pre / post
		let got: Result<Map, String> = (|| {
			let store = open(&work)?;
			let mut m = Map::new();
			for p in PREFIXES {
				let it = store.iter(Some(p), |k, v| Ok((k.to_vec(), v.to_vec()))).map_err(|e| format!("{:?}", e))?;
				for kv in it {
					let (k, v) = kv.map_err(|e| format!("{:?}", e))?;
					m.insert((p, k), v[4..].to_vec());
				}
			}
			Ok(m)
		})();
		let _ = std::fs::remove_dir_all(&work);
		match got {
			Ok(m) => {
				let is_pre = m == pre;
				let is_post = m == post;
				if !is_pre && !is_post {
					let _ = std::fs::remove_dir_all(&base);
					return Some(viol(
						&format!("partial-batch-after-crash:{}", label),
						format!("killed at crash point {} '{}': the reopened store holds {} keys and equals neither the pre-batch ({}) nor the post-batch ({}) contents", n, label, m.len(), pre.len(), post.len()),
					));
				}
				let must_be_post = label.contains("after-commit") && !label.contains("child");
				let must_be_pre = label.contains("before-commit") || label.contains("child");
				if must_be_post && !is_post {
					let _ = std::fs::remove_dir_all(&base);
					return Some(viol("committed-batch-lost", format!("killed right after the top-level commit ('{}') but the reopened store holds the pre-batch contents", label)));
				}
				if must_be_pre && !is_pre && pre != post {
					let _ = std::fs::remove_dir_all(&base);
					return Some(viol("uncommitted-batch-durable", format!("killed before the top-level commit ('{}') but the reopened store holds the post-batch contents", label)));
				}
				res.probe(if is_post && pre != post { "reopened_post_batch" } else { "reopened_pre_batch" });
			}
			Err(e) => {
				let _ = std::fs::remove_dir_all(&base);
				return Some(viol("reopen-after-crash-failed", format!("killed at '{}': {}", label, e)));
			}
		}
	}
	let _ = std::fs::remove_dir_all(&base);
	None
}

pub fn case(tier: &str, seed: u64, case: u64) -> CaseResult {
	let t0 = Instant::now();
	let thorough = tier == "thorough";
	let mut res = CaseResult::new(case, seed);
	let rng = SimRng::new(seed);
	// part 1
	let n_seq = if thorough { 150 } else { 30 };
	for i in 0..n_seq {
		let s = rng.fork(&format!("seq{}", i)).next_u64();
		let (v, ops, probes, digest) = sequential(s, &format!("db-c{}s{}", case, i));
		res.runs += 1;
		res.steps += ops;
		for (k, n) in &probes {
			res.probe_n(k, *n);
		}
		res.run_digests.push((digest, probes.get("child_dropped").is_some() || probes.get("batch_dropped").is_some()));
		if let Some(mut v) = v {
			v.replay = json!({"engine": "dbsim", "property": "C18", "mode": "sequential", "seed": s});
			res.violations.push(v);
			res.wall_s = t0.elapsed().as_secs_f64();
			return res;
		}
	}
	{
		let s = rng.fork("paging").next_u64();
		let (v, n) = paging(s, &format!("db-c{}pg", case));
		res.runs += 1;
		res.steps += n;
		res.probe("iterator_key_paging");
		res.run_digests.push((fnv64(format!("paging{}{}", s, n).as_bytes()), true));
		if let Some(mut v) = v {
			v.replay = json!({"engine": "dbsim", "property": "C18", "mode": "paging", "seed": s});
			res.violations.push(v);
			res.wall_s = t0.elapsed().as_secs_f64();
			return res;
		}
	}
	if res.samples.is_empty() {
		res.samples.push(json!({"sequential": "nested batches (depth<=3) of put/delete/get/exists/iter over key spaces a,k,z with commit/drop at every level, outside reads during open batches, reopen", "probes": res.probes}));
	}
	// part 2
	let n_conc = if thorough { 120 } else { 30 };
	let mut det_checked = false;
	for i in 0..n_conc {
		let s = rng.fork(&format!("conc{}", i)).next_u64();
		let r = match fork_run(&format!("db-c{}c{}", case, i), |d| concurrent_child(s, d, None)) {
			Ok(v) => v,
			Err(e) => {
				res.harness_error = Some(e);
				break;
			}
		};
		if let Some(e) = r["harness_error"].as_str() {
			res.harness_error = Some(e.to_string());
			break;
		}
		res.runs += 1;
		res.steps += r["points"].as_u64().unwrap_or(0);
		res.probe_n("context_switches", r["switches"].as_u64().unwrap_or(0));
		if r["resized"].as_bool().unwrap_or(false) {
			res.probe("map_resized_under_concurrency");
		}
		res.probe_n("resize_helper_threads_scheduled", r["helper_threads"].as_u64().unwrap_or(0));
		res.fault_n("thread_stalled", r["stalls"].as_u64().unwrap_or(0));
		let sd = u64::from_str_radix(r["switch_digest"].as_str().unwrap_or("0"), 16).unwrap_or(0);
		res.run_digests.push((sd, true));
		res.states.insert(sd);
		if !det_checked {
			let choices: Vec<u32> = serde_json::from_value(r["choices"].clone()).unwrap_or_default();
			if let Ok(r2) = fork_run(&format!("db-c{}det", case), |d| concurrent_child(s, d, Some(choices))) {
				if r2["trace_digest"] != r["trace_digest"] {
					res.harness_error = Some(format!("replay of the recorded schedule diverged: {} vs {}", r["trace_digest"], r2["trace_digest"]));
					break;
				}
				res.probe("replay_identical");
			}
			det_checked = true;
		}
		if let Some(vs) = r["violations"].as_array() {
			if let Some(v) = vs.first() {
				let key = v[0].as_str().unwrap_or("").to_string();
				let recorded: Vec<u32> = serde_json::from_value(r["choices"].clone()).unwrap_or_default();
				let mut trial = 0;
				// a child that died leaves no schedule to shrink
				let minimal = if recorded.is_empty() {
					recorded.clone()
				} else {
					crate::sim::minimise_choices(
						&recorded,
						|cand| {
							trial += 1;
							let c = cand.to_vec();
							match fork_run(&format!("db-c{}min{}", case, trial), |d| concurrent_child(s, d, Some(c))) {
								Ok(r2) => r2["violations"].as_array().map(|a| a.iter().any(|x| x[0].as_str() == Some(key.as_str()))).unwrap_or(false),
								Err(_) => false,
							}
						},
						40,
					)
				};
				let nonzero = |c: &[u32]| c.iter().filter(|x| **x != 0).count();
				res.violations.push(Violation {
					key: format!("C18:{}", key),
					what: format!(
						"{} [schedule seed {}; {} scheduling points, {} switches; schedule minimised from {} to {} forced decisions]",
						v[1].as_str().unwrap_or(""),
						s,
						r["points"],
						r["switches"],
						nonzero(&recorded),
						nonzero(&minimal)
					),
					replay: json!({"engine": "dbsim", "property": "C18", "mode": "concurrent", "seed": s, "choices": minimal}),
				});
				res.wall_s = t0.elapsed().as_secs_f64();
				return res;
			}
		}
	}
	// part 3
	let n_crash = if thorough { 24 } else { 6 };
	for i in 0..n_crash {
		let s = rng.fork(&format!("crash{}", i)).next_u64();
		if let Some(mut v) = crash_part(s, &mut res) {
			v.replay = json!({"engine": "dbsim", "property": "C18", "mode": "crash", "seed": s});
			res.violations.push(v);
			break;
		}
	}
	res.wall_s = t0.elapsed().as_secs_f64();
	res
}

pub fn replay(rp: &Value) -> Result<Option<Violation>, String> {
	let seed = rp["seed"].as_u64().ok_or("no seed")?;
	match rp["mode"].as_str().unwrap_or("") {
		"sequential" => Ok(sequential(seed, "db-replay").0),
		"paging" => Ok(paging(seed, "db-replay").0),
		"concurrent" => {
			let choices: Vec<u32> = serde_json::from_value(rp["choices"].clone()).unwrap_or_default();
			let r = fork_run("db-replay", |d| concurrent_child(seed, d, Some(choices)))?;
			println!("  points {} switches {}", r["points"], r["switches"]);
			if let Some(vs) = r["violations"].as_array() {
				if let Some(v) = vs.first() {
					return Ok(Some(viol(v[0].as_str().unwrap_or(""), v[1].as_str().unwrap_or("").to_string())));
				}
			}
			Ok(None)
		}
		"crash" => {
			let mut res = CaseResult::new(0, seed);
			Ok(crash_part(seed, &mut res))
		}
		m => Err(format!("unknown dbsim mode {}", m)),
	}
}
