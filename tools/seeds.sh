#!/bin/bash
# Zero-alarm campaign over base seeds: every registered quick check at each given VERIF_SEED, using a
# private snapshot of the harness binary. Appends to /verif/validation/seeds.txt.
# usage: tools/seeds.sh 2 3 4 5
cd /verif
(cd /verif/sim && CARGO_NET_OFFLINE=true cargo build --release --offline >/dev/null 2>&1) || { echo "build failed"; exit 2; }
mkdir -p /verif/target/snapshot && cp /verif/target/release/verif-sim /verif/target/snapshot/verif-sim-seeds-$$
BIN=/verif/target/snapshot/verif-sim-seeds-$$
export VERIF_EVIDENCE_DIR=/verif/target/campaign-evidence-$$; mkdir -p $VERIF_EVIDENCE_DIR
OUT=/verif/validation/seeds.txt
echo "# quick checks at other base seeds, harness $(git -C /verif rev-parse --short HEAD), repo $(git -C /repo rev-parse --short HEAD), $(date -u +%FT%TZ)" >> $OUT
for seed in "$@"; do
  for id in $(python3 -c "import json; print(' '.join(c['property_id'] for c in json.load(open('MANIFEST.json'))['checks']))"); do
    out=$(VERIF_SEED=$seed $BIN check $id 2>&1); rc=$?
    line="seed=$seed $id rc=$rc $(echo "$out" | grep -E '^summary' | tail -1 | sed 's/summary property=[A-Z0-9]* //')"
    echo "$line" | tee -a $OUT
    if [ $rc -ne 0 ]; then echo "$out" | grep -E "^VIOLATION|^HARNESS|what:" | head -4 | cut -c1-300 | tee -a $OUT; fi
  done
done
rm -rf $BIN $VERIF_EVIDENCE_DIR
