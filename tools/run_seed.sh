#!/bin/bash
# usage: run_seed.sh <seed id> <check id>...   applies seeded/<id>/patch.diff (or /tmp/seed-<id>) to /repo, runs the checks, reverts
ID=$1; shift
P=/verif/seeded/$ID/patch.diff; [ -f $P ] || P=/tmp/seed-$ID/patch.diff
cd /repo && { git apply $P 2>/dev/null || git apply --3way $P; } || { echo "patch does not apply"; exit 2; }
export VERIF_EVIDENCE_DIR=/verif/target/campaign-evidence-seed; mkdir -p $VERIF_EVIDENCE_DIR
cd /verif
for c in "$@"; do
  echo "=== seed $ID check $c"
  ./check $c 2>&1 | grep -v "^KNOWN-FINDING" | tail -4
done
git -C /repo reset -q
git -C /repo checkout -- .
git -C /repo status --short | head -3
