#!/bin/bash
# Determinism campaign: every registered check is run twice at each of the given base seeds, once
# with 16 workers and once with 5, and the digest over the event-log digests of all runs (in case
# order) must be identical. Writes /verif/validation/determinism.txt. Exit 2 on divergence.
# usage: tools/determinism.sh [seed...]        (default: 1 7)
cd /verif
(cd /verif/sim && CARGO_NET_OFFLINE=true cargo build --release --offline >/dev/null 2>&1) || { echo "build failed"; exit 2; }
mkdir -p /verif/target/snapshot && cp /verif/target/release/verif-sim /verif/target/snapshot/verif-sim-det-$$
BIN=/verif/target/snapshot/verif-sim-det-$$
export VERIF_EVIDENCE_DIR=/verif/target/campaign-evidence-$$; mkdir -p $VERIF_EVIDENCE_DIR
SEEDS=${@:-1 7}
OUT=/verif/validation/determinism.txt
mkdir -p /verif/validation
[ -n "$CHECKS" ] && OUT=/verif/validation/determinism_round8.txt
echo "# determinism campaign $(date -u +%FT%TZ), harness $(git -C /verif rev-parse --short HEAD), repo $(git -C /repo rev-parse --short HEAD): check seed jobs=16 vs jobs=5 -> event_log_digest / evaluations" > $OUT
rc=0
# CHECKS="C03 C16" restricts the campaign to those checks (results are then appended, not rewritten)
IDS=${CHECKS:-$(python3 -c "import json; print(' '.join(c['property_id'] for c in json.load(open('MANIFEST.json'))['checks']))")}
for id in $IDS; do
  for seed in $SEEDS; do
    d=()
    for jobs in 16 5; do
      VERIF_SEED=$seed VERIF_JOBS=$jobs $BIN check $id >/dev/null 2>&1
      d+=("$(python3 -c "import json; c=json.load(open('$VERIF_EVIDENCE_DIR/$id.json'))['coverage']; print(c.get('event_log_digest'), c.get('evaluations'))")")
    done
    if [ "${d[0]}" == "${d[1]}" ]; then v=identical; else v=DIVERGED; rc=2; fi
    echo "$id seed=$seed $v  [${d[0]}] [${d[1]}]" | tee -a $OUT
  done
done
rm -rf $BIN $VERIF_EVIDENCE_DIR
exit $rc
