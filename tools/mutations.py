#!/usr/bin/env python3
"""Sensitivity campaign: applies one property-breaking mutation at a time to /repo's working tree,
runs the named quick checks, records whether each reported a VIOLATION, and reverts.
usage: tools/mutations.py [name-substring ...]      results: /verif/validation/sensitivity.json
/repo must have no modified tracked files (apart from the two pre-existing 0-byte test data files)."""
import json, subprocess, sys, os, time

R = "/repo/"
M = [
 # name, property, file, old, new, checks
 ("c01-drop-verify-coinbase", "C01", "core/src/core/block.rs", "\t\tself.verify_coinbase()?;\n\n\t\t// take the kernel offset for this block", "\n\t\t// take the kernel offset for this block", ["C01"]),
 ("c01-drop-block-kernel-sums", "C01", "core/src/core/block.rs", "\t\tself.verify_kernel_sums(\n\t\t\tself.header.overage(),\n\t\t\tself.block_kernel_offset(prev_kernel_offset.clone())?,\n\t\t)?;\n\n\t\tOk(())", "\t\tlet _ = self.block_kernel_offset(prev_kernel_offset.clone())?;\n\n\t\tOk(())", ["C01"]),
 ("c01-drop-pipe-block-sums", "C01", "chain/src/pipe.rs", "\t\tverify_block_sums(b, batch)?;\n\n\t\t// Apply the block to the txhashset state.", "\t\t// Apply the block to the txhashset state.", ["C01"]),
 ("c03-more-work-ge", "C03", "chain/src/pipe.rs", "header.total_difficulty() > head.total_difficulty\n}", "header.total_difficulty() >= head.total_difficulty\n}", ["C03"]),
 ("c03-no-force-rollback", "C03", "chain/src/pipe.rs", "\t\tif !has_more_work(&b.header, &head) {\n\t\t\text.extension.force_rollback();\n\t\t}", "\t\tlet _ = &head;", ["C03", "C06"]),
 ("c04-drop-timestamp-check", "C04", "chain/src/pipe.rs", "\tif header.timestamp <= prev.timestamp {", "\tif false && header.timestamp <= prev.timestamp {", ["C04"]),
 ("c04-drop-target-difficulty-check", "C04", "chain/src/pipe.rs", "\t\tif target_difficulty != next_header_info.difficulty {", "\t\tif false && target_difficulty != next_header_info.difficulty {", ["C04"]),
 ("c04-accept-any-version", "C04", "chain/src/pipe.rs", "\tif !consensus::valid_header_version(header.height, header.version) {", "\tif false && !consensus::valid_header_version(header.height, header.version) {", ["C04"]),
 ("c04-drop-height-check", "C04", "chain/src/pipe.rs", "\tif header.height != prev.height + 1 {", "\tif false && header.height != prev.height + 1 {", ["C04"]),
 ("c06-no-discard-on-error", "C06", "chain/src/txhashset/txhashset.rs", "\t\t\tdebug!(\"Error returned, discarding txhashset extension: {}\", e);\n\t\t\ttrees.output_pmmr_h.backend.discard();", "\t\t\tdebug!(\"Error returned, discarding txhashset extension: {}\", e);", ["C06", "C01"]),
 ("c13-maturity-off-by-one", "C13", "chain/src/txhashset/utxo_view.rs", "\t\t\tif pos > cutoff_pos {\n\t\t\t\treturn Err(Error::ImmatureCoinbase);", "\t\t\tif pos > cutoff_pos + 1 {\n\t\t\t\treturn Err(Error::ImmatureCoinbase);", ["C13"]),
 ("c13-lock-height-ge", "C13", "core/src/core/block.rs", "\t\t\t\tif lock_height > self.header.height {", "\t\t\t\tif lock_height > self.header.height + 1 {", ["C13"]),
 ("c13-skip-nrd-index-rewind", "C13", "chain/src/txhashset/txhashset.rs", "\t\t\t\t\tkernel_index.rewind(batch, kernel.excess(), prev_header.kernel_mmr_size)?;", "\t\t\t\t\tlet _ = (&kernel_index, &prev_header);", ["C13"]),
 ("c13-pool-skips-lock-height", "C13", "pool/src/transaction_pool.rs", "\t\tself.blockchain.verify_tx_lock_height(tx)?;", "", ["C13"]),
 ("c13-pool-skips-maturity", "C13", "pool/src/transaction_pool.rs", "\t\tself.blockchain\n\t\t\t.verify_coinbase_maturity(&coinbase_inputs.as_slice().into())?;", "\t\tlet _ = &coinbase_inputs;", ["C13"]),
 ("c13-tx-lock-height-lt", "C13", "chain/src/chain.rs", "\t\tif tx.lock_height() <= height {\n\t\t\tOk(())", "\t\tif tx.lock_height() < height {\n\t\t\tOk(())", ["C13"]),
 ("c02-skip-output-pos-restore", "C02", "chain/src/txhashset/txhashset.rs", "\t\t\t\t\tbatch.save_output_pos_height(&out.commitment(), pos1)?;\n\t\t\t\t}\n\t\t\t}\n\t\t}\n\n\t\tOk(affected_pos)", "\t\t\t\t\tlet _ = (&out, &pos1);\n\t\t\t\t}\n\t\t\t}\n\t\t}\n\n\t\tOk(affected_pos)", ["C02"]),
 ("c02-leafset-rewind-skip-or", "C02", "store/src/leaf_set.rs", "\t\tself.bitmap.or_inplace(&rewind_rm_pos);\n\t}\n\n\t/// Append a new position to the leaf_set.", "\t\tlet _ = &rewind_rm_pos;\n\t}\n\n\t/// Append a new position to the leaf_set.", ["C02", "C08"]),
 ("c08-leaf-shift-off-by-one", "C08", "store/src/prune_list.rs", "\t\tlet idx = self.bitmap.rank(1 + pos0 as u32);\n\t\tif idx == 0 {\n\t\t\treturn 0;\n\t\t}\n\t\tself.leaf_shift_cache", "\t\tlet idx = self.bitmap.rank(pos0 as u32);\n\t\tif idx == 0 {\n\t\t\treturn 0;\n\t\t}\n\t\tself.leaf_shift_cache", ["C08"]),
 ("c14-skip-txpool-reconcile-block", "C14", "pool/src/transaction_pool.rs", "\t\tself.txpool.reconcile_block(block);\n\t\tself.txpool.reconcile(None, &block.header)?;", "\t\tself.txpool.reconcile(None, &block.header)?;", ["C14"]),
 ("c14-reconcile-block-ignores-inputs", "C14", "pool/src/pool.rs", "\t\t\t!x.tx.kernels().iter().any(|y| block.kernels().contains(y))\n\t\t\t\t&& !tx_inputs.iter().any(|y| block_inputs.contains(y))", "\t\t\tlet _ = (&tx_inputs, &block_inputs);\n\t\t\t!x.tx.kernels().iter().any(|y| block.kernels().contains(y))", ["C14"]),
 ("c16-skip-output-segment-validation", "C16", "chain/src/txhashset/desegmenter.rs", "\t\t\tself.bitmap_accumulator.root(), // Other root\n\t\t\tfalse,\n\t\t)?;\n\t\tself.cache_output_segment(segment);", "\t\t\tself.bitmap_accumulator.root(), // Other root\n\t\t\tfalse,\n\t\t)\n\t\t.ok();\n\t\tself.cache_output_segment(segment);", ["C16"]),
 ("c19-negotiate-max", "C19", "p2p/src/handshake.rs", "std::cmp::min(self.protocol_version, other)", "std::cmp::max(self.protocol_version, other)", ["C19"]),
 ("c19-limit-ge", "C19", "p2p/src/msg.rs", "\t\t\t\tlet max_len = max_msg_size(msg_type) * 4;\n\t\t\t\tif msg_len > max_len {", "\t\t\t\tlet max_len = max_msg_size(msg_type) * 4;\n\t\t\t\tif msg_len >= max_len {", ["C19"]),
 ("c19-limit-times-eight", "C19", "p2p/src/msg.rs", "\t\t\t\tlet max_len = max_msg_size(msg_type) * 4;\n\t\t\t\tif msg_len > max_len {", "\t\t\t\tlet max_len = max_msg_size(msg_type) * 8;\n\t\t\t\tif msg_len > max_len {", ["C19"]),
 ("c01-drop-both-sum-checks", "C01", "core/src/core/block.rs", "\t\tself.verify_kernel_sums(\n\t\t\tself.header.overage(),\n\t\t\tself.block_kernel_offset(prev_kernel_offset.clone())?,\n\t\t)?;\n\n\t\tOk(())", "\t\tlet _ = self.block_kernel_offset(prev_kernel_offset.clone())?;\n\n\t\tOk(())", ["C01"], [("chain/src/pipe.rs", "\tlet (utxo_sum, kernel_sum) =\n\t\t(block_sums, b as &dyn Committed).verify_kernel_sums(overage, offset)?;", "\tlet (utxo_sum, kernel_sum) = match (block_sums.clone(), b as &dyn Committed).verify_kernel_sums(overage, offset) {\n\t\tOk(x) => x,\n\t\tErr(_) => (block_sums.utxo_sum, block_sums.kernel_sum),\n\t};")]),
 ("c14-no-reconcile-on-block", "C14", "pool/src/transaction_pool.rs", "\t\tself.txpool.reconcile_block(block);\n\t\tself.txpool.reconcile(None, &block.header)?;", "\t\tself.txpool.reconcile_block(block);", ["C14"]),
 ("c14-stempool-not-reconciled", "C14", "pool/src/transaction_pool.rs", "\t\t\tself.stempool.reconcile(txpool_tx, &block.header)?;", "\t\t\tlet _ = txpool_tx;", ["C14"]),
 ("c14-fee-check-dropped", "C14", "pool/src/transaction_pool.rs", "\t\tif tx.shifted_fee() < tx.accept_fee() {", "\t\tif false && tx.shifted_fee() < tx.accept_fee() {", ["C14"]),
 ("c11-segment-prealloc-uncapped", "C11", "core/src/core/pmmr/segment.rs", "\tlet mut items = Vec::with_capacity(min(count, SEGMENT_READ_PREALLOC_ITEMS) as usize);", "\tlet mut items = Vec::with_capacity(count as usize);", ["C11"]),
 ("c11-peer-addrs-cap-removed", "C11", "p2p/src/msg.rs", "\t\tif peer_count > MAX_PEER_ADDRS {", "\t\tif false && peer_count > MAX_PEER_ADDRS {", ["C11"]),
 ("c15-bitmap-rebuild-from-max-idx", "C15", "chain/src/txhashset/txhashset.rs", "\t\tlet min_idx = output_idx.first().cloned().unwrap_or(0);", "\t\tlet min_idx = output_idx.last().cloned().unwrap_or(0);", ["C15"]),
 ("c11-drop-read-multi-cap", "C11", "core/src/ser.rs", "\tif count > 1_000_000 {\n\t\treturn Err(Error::TooLargeReadErr);\n\t}\n\n\tlet res: Vec<T> = IteratingReader", "\tlet res: Vec<T> = IteratingReader", ["C11"]),
 ("c18-enter-tx-ignores-resizing", "C18", "store/src/lmdb.rs", "\t\t\tif !state.resizing.load(Ordering::Acquire) || nested_tx {", "\t\t\tif true || !state.resizing.load(Ordering::Acquire) || nested_tx {", ["C18"]),
 ("c18-resize-despite-open-txs", "C18", "store/src/lmdb.rs", "\t\tif self.open_txs_count() != 0 {", "\t\tif false && self.open_txs_count() != 0 {", ["C18"]),
 ("c18-iter-paging-off-by-one", "C18", "store/src/lmdb.rs", "Self::read_key_page(&self.db, &self.read, self.skip_total)?;", "Self::read_key_page(&self.db, &self.read, self.skip_total + 1)?;", ["C18"]),
 ("c14-adapter-reconciles-only-next", "C14", "servers/src/common/adapters.rs", "\t\tif status.is_next() || status.is_reorg() {\n\t\t\tlet mut tx_pool = self.tx_pool.write();", "\t\tif status.is_next() {\n\t\t\tlet mut tx_pool = self.tx_pool.write();", ["C14"]),
 ("c14-adapter-pool-head-from-header-chain", "C14", "servers/src/common/adapters.rs", "\tfn chain_head(&self) -> Result<BlockHeader, pool::PoolError> {\n\t\tself.chain()\n\t\t\t.head_header()", "\tfn chain_head(&self) -> Result<BlockHeader, pool::PoolError> {\n\t\tself.chain()\n\t\t\t.header_head()\n\t\t\t.and_then(|t| self.chain().get_block_header(&t.last_block_h))", ["C14"]),
 ("c11-api-push-tx-len-unchecked", "C11", "core/src/libtx/secp_ser.rs", "\tif val.len() > MAX_PROOF_SIZE {", "\tif false && val.len() > MAX_PROOF_SIZE {", ["C11"]),
 ("c16-segment-height-guard-removed", "C16", "core/src/core/pmmr/segment.rs", "\t\tif segment_id.height > 63 {", "\t\tif false && segment_id.height > 63 {", ["C16"]),
 ("c16-archive-roots-not-validated", "C16", "chain/src/txhashset/txhashset.rs", "\t\tself.validate_mmrs()?;\n\t\tself.validate_roots(header)?;\n\t\tself.validate_sizes(header)?;", "\t\tself.validate_mmrs()?;\n\t\tself.validate_sizes(header)?;", ["C16"]),
 ("c16-archive-mmrs-not-validated", "C16", "chain/src/txhashset/txhashset.rs", "\t\tself.validate_mmrs()?;\n\t\tself.validate_roots(header)?;\n\t\tself.validate_sizes(header)?;", "\t\tself.validate_roots(header)?;\n\t\tself.validate_sizes(header)?;", ["C16"]),
 ("c14-net-tx-received-header-from-header-chain", "C14", "servers/src/common/adapters.rs", "\t\tlet header = self.chain().head_header()?;\n\n\t\tfor hook in &self.hooks {\n\t\t\thook.on_transaction_received(&tx);", "\t\tlet header = self.chain().get_block_header(&self.chain().header_head()?.last_block_h)?;\n\n\t\tfor hook in &self.hooks {\n\t\t\thook.on_transaction_received(&tx);", ["C14"]),
 ("c14-mine-block-ignores-fees", "C14", "servers/src/mining/mine_block.rs", "\tlet fees = txs.iter().map(|tx| tx.fee()).sum();", "\tlet fees = txs.iter().map(|tx| tx.fee()).sum::<u64>() * 0;", ["C14"]),
 ("c03-net-adapter-drops-blocks-below-head", "C03", "servers/src/common/adapters.rs", "\t\t\tif b.header.height < horizon {", "\t\t\tif b.header.height < horizon || b.header.height < head.height {", ["C03"]),
 ("c11-net-get-block-handler-unwraps", "C11", "servers/src/common/adapters.rs", "\t\t\t\t3..=ProtocolVersion::MAX => Some(b),\n\t\t\t})\n\t\t\t.unwrap_or(None)", "\t\t\t\t3..=ProtocolVersion::MAX => Some(b),\n\t\t\t})\n\t\t\t.unwrap()", ["C11"]),
 ("c11-net-segment-height-range-dropped", "C11", "servers/src/common/adapters.rs", "\t\tif !KERNEL_SEGMENT_HEIGHT_RANGE.contains(&id.height) {", "\t\tif false && !KERNEL_SEGMENT_HEIGHT_RANGE.contains(&id.height) {", ["C11"]),
 ("c03-mesh-header-relay-suppressed", "C03", "p2p/src/peer.rs", "\tpub fn send_header(&self, bh: &core::BlockHeader) -> Result<bool, Error> {\n\t\tif !self.tracking_adapter.has_recv(bh.hash()) {", "\tpub fn send_header(&self, bh: &core::BlockHeader) -> Result<bool, Error> {\n\t\tif self.tracking_adapter.has_recv(bh.hash()) {", ["C03"]),
 ("c14-mesh-tx-relay-by-full-tx-dropped", "C14", "servers/src/common/adapters.rs", "\t\tlet tx = self.tx_pool.read().retrieve_tx_by_kernel_hash(kernel_hash);\n\n\t\tif tx.is_none() {\n\t\t\tself.request_transaction(kernel_hash, peer_info);\n\t\t}", "\t\tlet tx = self.tx_pool.read().retrieve_tx_by_kernel_hash(kernel_hash);\n\n\t\tif tx.is_some() {\n\t\t\tself.request_transaction(kernel_hash, peer_info);\n\t\t}", ["C14"]),
 ("c18-resize-check-skipped-when-busy", "C18", "store/src/lmdb.rs", "\t\t\tif nested_tx {\n\t\t\t\treturn;\n\t\t\t}\n\t\t\tthread::sleep(Duration::from_millis(1));", "\t\t\tlet _ = nested_tx;\n\t\t\treturn;", ["C18"]),
 ("sync-header-stall-never-rerequests", "C03", "servers/src/grin/sync/header_sync.rs", "\t\tlet stalling = header_head.height <= latest_height && now > timeout;", "\t\tlet stalling = false && header_head.height <= latest_height && now > timeout;", ["C03", "C16"]),
 ("sync-body-skips-first-block-after-fork-point", "C03", "servers/src/grin/sync/body_sync.rs", "\t\twhile current.height > fork_point.height {", "\t\twhile current.height > fork_point.height + 1 {", ["C03", "C16"]),
 ("sync-pibd-stale-requests-never-dropped", "C16", "servers/src/grin/sync/state_sync.rs", "\t\t\t.remove_stale_pibd_requests(pibd_params::SEGMENT_REQUEST_TIMEOUT_SECS);", "\t\t\t.remove_stale_pibd_requests(pibd_params::SEGMENT_REQUEST_TIMEOUT_SECS * 1_000_000);", ["C16"]),
 ("sync-caught-up-needs-strictly-less", "C03", "servers/src/grin/sync/syncer.rs", "\t\t\tif peer_info.total_difficulty() <= local_diff {", "\t\t\tif peer_info.total_difficulty() < local_diff {", ["C03", "C16"]),
]

def sh(cmd, **kw):
    return subprocess.run(cmd, shell=True, capture_output=True, text=True, **kw)

def repo_clean():
    out = sh("git -C /repo status --porcelain --untracked-files=no").stdout.strip().splitlines()
    out = [l for l in out if "test_data/chain_" not in l]
    return not out

def main():
    sel = sys.argv[1:]
    path = "/verif/validation/sensitivity.json"
    results = json.load(open(path)) if os.path.exists(path) else {}
    if not repo_clean():
        print("repo has modified tracked files; refusing"); return 2
    for m in M:
        name, prop, f, old, new, checks = m[:6]
        extra = m[6] if len(m) > 6 else []
        if sel and not any(x in name for x in sel):
            continue
        src = open(R + f).read()
        if src.count(old) != 1:
            print(f"{name}: pattern found {src.count(old)} times in {f}; skipped"); results[name] = {"property": prop, "error": "pattern"}; continue
        bad = [ef for ef, eo, en in extra if open(R + ef).read().count(eo) != 1]
        if bad:
            print(f"{name}: extra pattern not found in {bad}; skipped"); results[name] = {"property": prop, "error": "pattern"}; continue
        open(R + f, "w").write(src.replace(old, new))
        saved = []
        for ef, eo, en in extra:
            es = open(R + ef).read(); saved.append((ef, es)); open(R + ef, "w").write(es.replace(eo, en))
        entry = {"property": prop, "file": f, "checks": {}}
        try:
            for c in checks:
                t = time.time()
                r = sh(f"cd /verif && VERIF_EVIDENCE_DIR=/verif/target/campaign-evidence-mut ./check {c}")
                lines = r.stdout.splitlines()
                viol = [l for l in lines if l.startswith("VIOLATION")]
                what = [l.strip()[:300] for l in lines if l.strip().startswith("what:")][:2]
                herr = [l[:300] for l in lines if l.startswith("HARNESS")][:2]
                status = "caught" if (r.returncode == 1 and viol) else ("harness-error" if r.returncode == 2 else "missed")
                entry["checks"][c] = {"status": status, "violations": len(viol), "what": what, "harness": herr, "wall_s": round(time.time() - t, 1)}
                print(f"{name}: {c} -> {status} ({len(viol)} violations) {what[:1] or herr[:1]}")
        finally:
            open(R + f, "w").write(src)
            for ef, es in saved:
                open(R + ef, "w").write(es)
        results[name] = entry
        json.dump(results, open(path, "w"), indent=1)
    assert repo_clean()
    return 0

if __name__ == "__main__":
    sys.exit(main())
