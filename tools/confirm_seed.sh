#!/bin/bash
# Confirm a seeded change in the sub-agent's scratch worktree:
#   demo passes without the change, fails with it, and the crate's existing suite still passes with it.
# usage: confirm_seed.sh <ID> [seed dir suffix] [crate dir the demo belongs in]
ID=$1; SFX=${2:-$1}
WT=/tmp/wt-$ID; SEED=/tmp/seed-$SFX; OUT=/verif/seeded/$SFX
export CARGO_NET_OFFLINE=true
mkdir -p $OUT
cd $WT || exit 2
DEMO=$(ls $SEED/*.rs | head -1)
DEMONAME=$(basename $DEMO .rs)
# crate = first path component of the first file in the patch, unless the demo was placed elsewhere
CRATE_DIR=$(find . -path ./target -prune -o -name "$DEMONAME.rs" -print | head -1 | cut -d/ -f2)
[ -n "$3" ] && CRATE_DIR=$3
[ -z "$CRATE_DIR" ] && CRATE_DIR=$(grep -m1 '^+++ b/' $SEED/patch.diff | sed 's#+++ b/##' | cut -d/ -f1)
PKG=grin_$CRATE_DIR
git checkout -q -- . 
mkdir -p $CRATE_DIR/tests
cp $DEMO $CRATE_DIR/tests/$DEMONAME.rs
{
echo "== seed $SFX: crate $PKG demo $DEMONAME"
echo "== 1. demo WITHOUT the change (expect pass)"
cargo test -p $PKG --test $DEMONAME --offline 2>&1 | grep -E "^test |^test result|error(\[|:)" | tail -15
git apply $SEED/patch.diff || echo "PATCH DOES NOT APPLY"
echo "== 2. demo WITH the change (expect fail)"
cargo test -p $PKG --test $DEMONAME --offline 2>&1 | grep -E "^test |^test result|error(\[|:)" | tail -15
echo "== 3. existing suite of touched crates WITH the change (expect pass; demo excluded)"
mv $CRATE_DIR/tests/$DEMONAME.rs /tmp/$DEMONAME.rs.keep
for c in $(grep '^+++ b/' $SEED/patch.diff | sed 's#+++ b/##' | cut -d/ -f1 | sort -u); do
  cargo test -p grin_$c --offline --no-fail-fast 2>&1 | grep -E "^test result|FAILED|failed" | sort | uniq -c
done
mv /tmp/$DEMONAME.rs.keep $CRATE_DIR/tests/$DEMONAME.rs
git checkout -q -- .
} > $OUT/confirm.log 2>&1
cp $SEED/patch.diff $OUT/patch.diff
cp $DEMO $OUT/
cp $SEED/notes.md $OUT/agent_notes.md 2>/dev/null
echo done $SFX
