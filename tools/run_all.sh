#!/bin/bash
# Runs every registered quick (or thorough) check once at the given seed and prints one line per check.
# usage: tools/run_all.sh [quick|thorough]
cd /verif
TIER=${1:-quick}
for id in $(python3 -c "import json; print(' '.join(c['property_id'] for c in json.load(open('MANIFEST.json'))['checks']))"); do
  s=$(date +%s)
  out=$(./check $id --tier $TIER 2>&1); rc=$?
  echo "$id rc=$rc $(($(date +%s)-s))s $(echo "$out" | grep -E '^summary' | tail -1)"
  echo "$out" | grep -E "^VIOLATION|^HARNESS" | head -3
done
