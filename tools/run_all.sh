#!/bin/bash
# Runs every registered quick (or thorough) check once at the current VERIF_SEED and prints one line
# per check. With SNAPSHOT=1 the harness is built once and a private copy of the binary is used, so
# that sources may be edited while a long campaign runs.
# usage: tools/run_all.sh [quick|thorough]
cd /verif
TIER=${1:-quick}
RUN="./check"
if [ "${SNAPSHOT:-0}" = "1" ]; then
  (cd /verif/sim && CARGO_NET_OFFLINE=true cargo build --release --offline >/dev/null 2>&1) || { echo "build failed"; exit 2; }
  mkdir -p /verif/target/snapshot && cp /verif/target/release/verif-sim /verif/target/snapshot/verif-sim-$$
  RUN="/verif/target/snapshot/verif-sim-$$ check"
  export VERIF_EVIDENCE_DIR=/verif/target/campaign-evidence-$$; mkdir -p $VERIF_EVIDENCE_DIR
fi
for id in $(python3 -c "import json; print(' '.join(c['property_id'] for c in json.load(open('MANIFEST.json'))['checks']))"); do
  s=$(date +%s)
  out=$($RUN $id --tier $TIER 2>&1); rc=$?
  echo "$id rc=$rc $(($(date +%s)-s))s $(echo "$out" | grep -E '^summary' | tail -1)"
  echo "$out" | grep -E "^VIOLATION|^HARNESS|what:" | head -4 | cut -c1-300
done
[ "${SNAPSHOT:-0}" = "1" ] && rm -rf /verif/target/snapshot/verif-sim-$$ $VERIF_EVIDENCE_DIR
