#!/bin/bash
# Reverts one fix: commit in /repo's working tree (not committed), runs the check that found the
# defect, restores the tree. The check must report the violation again.
# usage: tools/revert_fix.sh <commit> <check id> [more check ids]
C=$1; shift
cd /repo && git status --porcelain --untracked-files=no | grep -v test_data/chain_ | grep . && { echo "repo dirty"; exit 2; }
git diff $C^ $C | git apply -R || { echo "cannot revert $C on the current tree"; exit 2; }
export VERIF_EVIDENCE_DIR=/verif/target/campaign-evidence-seed; mkdir -p $VERIF_EVIDENCE_DIR
cd /verif
for id in "$@"; do
  echo "=== fix $C reverted, check $id"
  ./check $id 2>&1 | grep -v "^KNOWN-FINDING" | grep -E "VIOLATION|what:|summary|HARNESS" | cut -c1-260 | head -5
done
git -C /repo checkout -- .
git -C /repo status --short | head -3
