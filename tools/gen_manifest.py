#!/usr/bin/env python3
"""Regenerates /verif/MANIFEST.json from the table below and validates it against the schema."""
import json, subprocess, sys

CHAIN_NOTE = ("Trusted base: the harness wallet/miner/reference models in /verif/sim; AutomatedTesting chain parameters; "
              "p2p and the servers adapters are stubbed by the simulated transport (call order mirrored). "
              "Sampling, not enumeration: a clean batch is evidence, not proof.")

CHECKS = {
 "C18": dict(engine="dbsim", cat="exploration", ref="5/C18",
   text="The real grin_store::lmdb Store/Batch/DatabaseIterator are driven directly. (a) Sequential histories of put/delete/get/exists/iter over three key spaces in nested batches (depth <= 3, commit or drop at every level), reads on fresh read transactions while a batch is open, clean reopen, data volumes that enlarge the map repeatedly, and key spaces above the iterator's 10 000-key page; every result is compared with a nested-transaction map model (stack of overlays) and the whole store after every top-level batch. (b) Seeded schedules (baton scheduler over real threads, preemption points at every lock operation, commit step, sleep and inside reader deserialization on borrowed map memory) of writers committing versioned key groups through parent and child batches, with dropped children and dropped batches, against reader/iterator threads, while the resize threshold is crossed: an iterator must show exactly one committed version per group and exactly the per-round keys of the rounds committed up to it, never less than what was committed before it began, no operation may fail, no deadlock, no crash of the process. (c) Every crash point inside Batch::commit (child and top level) is enumerated with process death; the reopened store equals the pre-batch map before the top-level commit and the post-batch map after it.",
   technique="deterministic simulation: nested-transaction reference model for sequential histories, seeded thread schedules with resize pressure for isolation/atomicity, crash-point enumeration around commit",
   note="Trusted base: hooks H1/H2 and the crash points (MANIFEST.hooks); batches prepared concurrently stay below the 10% headroom of the enlarged map (the envelope of the allocation policy); process death, not power loss."),
 "C17": dict(engine="schedsim", cat="exploration", ref="5/C17",
   text="Seeded schedule exploration: a fixed multiset of operations (peers submitting bodies of competing forks, a headers thread delivering the fork branch header-first while bodies already arrive, readers incl. validate_tx of an always-valid and a never-valid transaction, template builder, segment server, compactor - every fourth case on a 90-93 block chain where compaction really acts and the head crosses into the next archive period while two segment-serving threads run) runs on 4-8 real OS threads against one real Chain; a baton scheduler hooked into grin_util's lock types, the LMDB writer token, the labelled durable steps and sleeps lets exactly one thread run and picks the next one from a seeded PRNG at every such point; in half of the runs one to three threads are additionally stalled for hundreds of scheduling points at random places, and a third of the plans are leapfrog plans in which two peers alternate along a branch (parent being accepted while the child is classified as an orphan). Checked: no deadlock, no panic, every observed head names a stored block of matching height/difficulty, head difficulty never decreases per reader, reads never fail; at join the head is the unique most-work block, validate(false) passes and the unspent view equals the replayed ledger. Every run is in a forked child; a recorded choice list replays to the identical trace.",
   technique="deterministic simulation: seeded scheduler controlling real threads at lock/commit points with deadlock detection and sequential-outcome oracle",
   note="Trusted base: hooks H1/H2 (lock wrappers model parking_lot's writer preference; LMDB writer mutex shadowed by a token); scheduling granularity is lock operations, durable steps and sleeps."),
 "C16": dict(engine="pibdsim", cat="exploration", ref="5/C16",
   text="State sync between a real serving node (Segmenter; optionally compacted) and a real headers-only receiver (Desegmenter) through a harness loop mirroring StateSync::continue_pibd, over a simulated network that reorders, duplicates, drops and corrupts serialized segment responses (one root-bound element per corruption), with segment heights 0-4 via the cfg(grin_verif) override; plus the zip path. Honest segments must validate, corrupted ones be refused, assembly must finish within a bounded number of fault-free rounds and the finalized state must equal that of a node that processed every block to the archive header (roots, sizes, unspent set, validate(false)); the rest of the chain is then accepted and a restart succeeds. Per small world two more syncs run between two real nodes with their complete p2p stacks (E11 netsim): headers as Headers messages, segment requests through the receiver's real Peer object and outbound connection, answers from the serving node's real Protocol / NetToChainAdapter / Segmenter relayed by the simulator (fault free; and with a wire that loses, duplicates, delays and flips bytes), finishing in the same reference state. Per small or compacted world one or two further syncs are driven by the receiving node's own sync loop (E12 syncsim): the real servers run_sync thread (SyncRunner, HeaderSync, StateSync with its PIBD request tracking, 20 s segment timeouts, peer exclusion and 660 s fall-back to the state archive, BodySync) stepped by a sleep gate under a simulated wall clock against a serving real node, with loss, delay, duplication, corruption, stalling and returning peers, clock jumps past every deadline and clean restarts of the receiver mid-sync; whenever the head moves the state must be the reference state of that height, and after the faults the loop must end in NoSync on the serving node's head with identical roots and unspent set. The last sync-loop run of every small world moves the archive header under a half assembled state (the serving node reorganises onto a heavier branch below the archive header, or its chain grows past the next archive interval; the receiver is restarted or follows header announcements): nothing but a reference state may ever be finalised, and completion with the full final-state comparison is demanded where the unchanged loop completes. The final-state comparison includes every kernel of every block up to the archive header as stored by the receiver.",
   technique="deterministic simulation: seeded segment delivery schedules with loss/duplication/reordering/corruption between real Segmenter and Desegmenter, directly, over the two nodes' real p2p stacks, and driven by the node's own sync loop stepped under a simulated clock",
   note="Trusted base: harness mirror of the sync loop and of receive_*_segment (typed and wire runs; the syncsim runs use the real loop, with the bitmap segment of a single-leaf bitmap MMR volunteered by the serving side); the serving chain keeps its archive header at or above its compaction horizon (always true with mainnet parameters); one case in eight has a multi-chunk bitmap (1081+ real outputs)."),
 "C14": dict(engine="poolsim", cat="exploration", ref="5/C14",
   text="A real chain plus a real TransactionPool, wired through the real servers::PoolToChainAdapter and ChainToPoolAndNetAdapter as Server::new wires them, are driven with seeded interleavings of submissions of every kind (valid, dependent on one or two pooled parents, conflicting, duplicate, aggregated incl. an under-fee remainder, under-fee, fee-shifted honest / underpaying, output-less, bad signature, immature / just-mature / mixed-maturity coinbase spends, future/next lock height, fluffing of a stemmed transaction, stem/fluff with simulated relay failures), blocks mined from the mineable set, blocks with arbitrary pool subsets and conflicting spends, headers arriving ahead of their blocks, reorgs and capacity shrinks (every schedule contains a shrink below the current size followed by an under-fee and a valid submission); after every operation the pool's joint validity on the current head, per-entry fee/weight/validity, stempool+txpool validity and the mineable set are checked, and blocks built from the mineable set must be accepted by the chain. Every other run is a network run (E11 netsim): the node carries its complete p2p stack and the real PoolToNetAdapter, submissions and blocks arrive as peer messages from lock-stepped simulated peers (transactions also announced by kernel hash, blocks also header-first and compact with the node's requests served), an outbound simulated peer is the node's Dandelion relay in three of four such runs, and before every block mined from the pool the node's own mine_block::get_block must return a block within the weight limit that a replica of the node's data directory accepts. Every fourth case is a mesh of 2-4 real nodes gossiping over simulated wires (pushes of fluff, stem and conflicting transactions, mining from each node's own pool, partitions): every node's txpool and txpool + stempool must apply on that node's own head after every operation.",
   technique="deterministic simulation: seeded interleavings of pool submissions, block connections, reorgs and evictions with invariants checked after every step; lock-stepped simulated peers against the real p2p stack",
   note="Trusted base: harness wallet/miner (the history's blocks; the node's own block builder is run and judged on a replica); a block connection (process_block including the adapter's reconcile calls) is treated as atomic; reorg-cache ageing uses an explicit cutoff; in network runs acceptance is read from the pool's contents."),
 "C19": dict(engine="wiresim", cat="fault_enumeration", ref="5/C19",
   text="The real Codec / write_message / read_message / Handshake run on one end of a loopback socket whose other end and fragmentation are owned by the simulator (fragment i+1 is released when FIONREAD reports fragment i consumed). Message sequences over every type and protocol versions 1/2/3/1000 (header lists of 0..65 headers, archive + streamed attachment, unknown types) are delivered unfragmented, at every single split point, with random multi-splits and as a one-byte dribble and must be read back as the identical sequence; over-limit and wrong-magic frame headers of every type must be refused having consumed exactly 11 bytes and without a large allocation; the handshake must settle on min(version), refuse another genesis and itself. One case in four (E11 netsim) connects a complete real node to peers that settled on versions 1, 2, 3 and 1000 and checks everything the node itself writes to them (relayed and stemmed transactions, compact-block and header broadcasts, answers to requests): each frame must decode at its connection's version and be something the node was given.",
   technique="deterministic simulation: lock-stepped loopback transport with enumerated fragmentation and frame-limit faults; lock-stepped simulated peers at every protocol version against a complete real node",
   note="Trusted base: kernel loopback TCP; the harness copy of the documented per-type limits; inter-fragment gaps far below the I/O timeouts."),
 "C11": dict(engine="wiresim", cat="exploration", ref="5/C11",
   text="A simulated hostile peer feeds the real Codec (and, in a forked child, MerkleProof::from_hex) structure-aware mutations of real encodings of every message type at every protocol version: truncation + close, boundary values in every 64/32/16-bit window, every count-like window set to values around the decoders' own caps (with and without truncation shortly after), tag sweeps, random bodies, inconsistent lengths, spliced bodies. The reader thread must not panic, must return after EOF, and no single allocation may exceed twice the announced frame length (which the codec reserves, and refuses above 4x the per-type limit) plus 16x the bytes actually received plus 256 KiB; decoded values go through the stateless pre-state checks (validate_read, segment root reconstruction against the archive header). Bare frame headers announcing limit+1 .. 2^64-1 bytes for known and unused type bytes go through the Codec and through read_message in forked children (panic, abort, hang and over-allocation are exit statuses). One case in five a simulated hostile API client drives the real Foreign and Owner JSON-RPC dispatch over a real chain, pool and peer store with valid requests of every method and structure-aware mutations of their JSON trees and text, and feeds mutated replies to the typed decoders API consumers use (incl. OutputPrintable with its Merkle proof from hex): no panic, an answer within 20 s, allocation bounded by the document size. One case in five (E11 netsim) the hostile peer talks to a complete real node - conn reader / writer threads, Codec, Protocol, TrackingAdapter, Peers, NetToChainAdapter handlers over a real chain and pool -: every message type valid and mutated (length-consistent), and well-formed requests / answers naming things that are not there; no node thread may panic, every message is followed by a Pong or a closed connection, allocation stays bounded by the frame length, and the node still serves an honest peer afterwards.",
   technique="deterministic simulation: byzantine peer on a simulated stream transport (against the decoders, and lock-stepped against a complete real node) and byzantine API client on the JSON-RPC dispatch, with panic, allocation and liveness oracles",
   note="Trusted base: counting global allocator in the harness; release arithmetic; only single-message streams plus one split are explored per mutation; hyper/TLS/auth in front of the JSON-RPC handlers and the stratum server are not run."),
 "C09": dict(engine="crashsim", cat="fault_enumeration", ref="5/C09",
   text="Fault enumeration: for each scenario (plain extension with spends of several ages, header-then-block, losing fork block, reorg with spends, header-only reorg, compaction, compaction followed by a block, block after compaction) every labelled durable step is enumerated; a forked child opens a copy of the base directory, runs the operation and _exits at that step; the parent reopens the surviving directory and requires Chain::init Ok, head old/new/ancestor, validate(false), unspent set equal to the replayed ledger, an identical second reopen and convergence with an uninterrupted twin after re-delivery. Second level (crash during recovery): for survivors whose restart has recovery work to do and which pass the oracle, the restart itself is killed at each of its crash points and the oracle applied again. Known, unrepaired defects are listed in known_findings.json and reported as KNOWN-FINDING.",
   technique="deterministic simulation: exhaustive crash-point enumeration with process-death fault injection and reopen oracle",
   note="Trusted base: crash points are the cfg(grin_verif) hooks (MANIFEST.hooks); fault model is process death (page cache survives), not power loss; scenarios are sampled by seed, crash points within a scenario are enumerated completely."),
 "C08": dict(engine="storesim", cat="exploration", ref="5/C08",
   text="Store level: a real prunable MMR file backend is driven with generated histories of units of work (boundary-by-boundary rewinds, appends, removals by pattern, sync or discard), compactions at any earlier boundary and reopen, for fixed- and variable-size elements, and compared after every step (root, size, data/hash of every unspent leaf, leaf set, Merkle proofs) with an independent unpruned reference MMR. Chain level: chains long enough for Chain::compact to act; compact() at random points must leave the state digest, unspent view and validate(false) unchanged and still allow a reorg inside the horizon.",
   technique="deterministic simulation: seeded store histories with compaction/reopen/discard faults against an unpruned reference model",
   note="Trusted base: the unpruned reference MMR in /verif/sim/src/refmodel.rs and the workload generator's adherence to the store usage protocol; fault model is clean reopen/discard (crash consistency is C09)."),
 "C01": dict(engine="chainsim", cat="exploration", ref="5/C01",
   text="Seeded simulation over fork trees with fees, all kernel variants and offsets plus one re-rooted, re-mined byzantine block per value-corruption class; after every head change stored block sums are compared with sums recomputed over the full state, Chain::validate runs and the wallet-known value of the unspent set must equal the height-determined supply; corrupted blocks must be refused on every delivery path. A transaction-level matrix (ordinary, output-less, height-locked, fee-shifted, aggregate shapes x single-field corruptions, incl. paying only the shifted fee) must be refused by Transaction::validate while the honest shapes pass.",
   technique="deterministic simulation: seeded histories with single-field value corruptions against a conservation oracle"),
 "C04": dict(engine="chainsim", cat="exploration", ref="5/C04",
   text="Seeded simulation of real-PoW header chains mined by simulated miners with skewed/jumping clocks across all header versions and both retargets; every single-field header mutation (re-mined where needed) is delivered through process_block, process_block_header and sync_block_headers and must be refused and not stored; every honest header's difficulty is compared with an independent re-implementation of the retarget and its minimum/damp/clamp envelope; future-time-limit decode checked at the boundary with a one hour margin.",
   technique="deterministic simulation: seeded header histories with byzantine header mutations plus a reference retarget model"),
 "C06": dict(engine="chainsim", cat="exploration", ref="5/C06",
   text="Twin simulation: a node and a twin receive the same seeded history, the node additionally receives inputs failing at every pipeline stage (including late root/size mismatches after the block touched the working MMRs, and failing header batches); the failing call must leave head, roots, sizes and the unspent view unchanged, and every later result and state digest must equal the twin's. Every fourth case (E11 netsim) the invalid blocks and headers come from a byzantine simulated peer through one real node's complete p2p stack (real Peers / Peer / Handshake / conn reader and writer threads / Protocol / NetToChainAdapter over loopback sockets, one message in flight): the state digest must be unchanged, nothing reported accepted, honest peers never banned, and after an honest peer offered the winning chain the node must equal a node that applied that chain alone.",
   technique="deterministic simulation: differential twin execution under injected invalid inputs; lock-stepped simulated peers against the real p2p stack",
   note="Trusted base: the harness wallet/miner/reference models in /verif/sim; AutomatedTesting chain parameters; chainsim cases stub p2p and the servers adapters (call order mirrored), netsim cases run them for real and stub only the remote peers and the sync/seed/monitor loops. Sampling, not enumeration: a clean batch is evidence, not proof."),
 "C13": dict(engine="chainsim", cat="exploration", ref="5/C13",
   text="Seeded simulation over fork trees whose honest spends and locks sit exactly on the maturity / lock-height / NRD thresholds on every fork and byzantine blocks one step inside each threshold; honest blocks must be accepted (also when re-applied through a reorg), byzantine ones refused, across restarts and delivery orders. Pool clause (every fourth case, poolsim): a real TransactionPool on a real chain receives seeded interleavings of spends of coinbases one block before / exactly at maturity and of lock heights next-block / beyond, with blocks and reorgs moving the thresholds; add_to_pool must refuse / accept exactly as the rule model says.",
   technique="deterministic simulation: seeded fork histories and pool submission interleavings with threshold-boundary workloads against a per-branch rule model"),
 "C15": dict(engine="chainsim", cat="exploration", ref="5/C15",
   text="Seeded simulation: after every delivery (forks, reorgs, restarts) the committed bitmap root must equal an accumulator built from scratch over the reported unspent set and an independent re-implementation; a re-mined block committing to a bitmap with one flipped bit must be refused.",
   technique="deterministic simulation: seeded apply/rewind histories against a from-scratch bitmap commitment model"),
 "C03": dict(engine="chainsim", cat="exploration", ref="5/C03",
   text="Seeded simulation: real Chain replicas are fed generated fork trees (real PoW worlds and SKIP_POW worlds with free per-block difficulties) in seeded delivery orders with duplicates, child-before-parent, header batches (also overlapping what the node already has) and clean restarts, including worlds whose forks leave a 56-66 block trunk more than 50 blocks below its tip; after every delivery head/header_head are compared with a most-work model driven by the node's own accept events, and at quiescence every replica must equal a reference node fed the winning chain alone and pass full validation. Every fourth case (E11 netsim) a real-PoW world reaches one real node through its complete p2p stack (real Peers / Peer / Handshake / conn reader and writer threads / Protocol / TrackingAdapter / NetToChainAdapter over loopback sockets) from 2-3 simulated peers that keep one message in flight: header-first announcements, unsolicited compact and full blocks, children before parents, duplicates, reconnects, unanswered requests; the node's own requests (compact block after a header, full block after failed hydration, parent of an orphan) are served by seeded policy; head must always be an accepted block of greatest work, orphans must be adopted once their parent is there, honest peers are never banned, and the final state must equal the reference node's; one such run in four starts with header sync and body sync through the adapter. Every eighth case is a mesh of 2-4 real nodes with the simulator as every wire between them (seeded link order, partitions that hold frames, heals): blocks mined on a node from its own pool spread by the nodes' own relay, and at quiescence all nodes must sit on the most-work block mined with identical state. Every eighth case (E12 syncsim) the world reaches the node through its own sync loop - the real servers run_sync thread (SyncRunner, HeaderSync, BodySync, StateSync) made a step function by a sleep gate and a simulated wall clock - from a serving real node over a faulty wire (loss, delay, duplication, corruption, stalls, redials, clock jumps past every timeout, clean restarts), starting on a lighter branch, on a prefix or empty; the head must always be a validated block of the served chain with the reference state, and after the faults the loop must finish on the serving node's head.",
   technique="deterministic simulation: seeded schedule search over block/header delivery orders against a most-work reference model; lock-stepped simulated peers against the real p2p stack; the node's sync loop stepped under a simulated clock",
   note="Trusted base: the harness wallet/miner/reference models in /verif/sim; AutomatedTesting chain parameters; chainsim cases stub p2p and the servers adapters (call order mirrored), netsim cases run them for real and stub only the remote peers and the sync/seed/monitor loops. Sampling, not enumeration: a clean batch is evidence, not proof."),
 "C02": dict(engine="chainsim", cat="exploration", ref="5/C02",
   text="Seeded simulation over spend-heavy fork trees plus byzantine blocks (double spend, never-created input, fork-foreign input, duplicated unspent commitment): after every delivery get_unspent over every commitment ever created and the paged enumeration must equal the ledger replayed from the node's own best chain; invalid blocks must be refused.",
   technique="deterministic simulation: seeded delivery histories with byzantine blocks against a replayed-ledger reference model"),
}

NOT_APPLICABLE = {
 "C05": "pure function of header bytes and nonces: no schedule, clock, fault, I/O or second party for a simulator to control (DESIGN.md section 5)",
 "C07": "pure position arithmetic and hashing over an in-memory backend: nothing for deterministic simulation to schedule or fault (DESIGN.md section 5)",
 "C10": "pure function of a value and a protocol version (DESIGN.md section 5)",
 "C12": "pure function of transaction multisets (DESIGN.md section 5)",
 "C20": "pure function of seed, derivation path and amount (DESIGN.md section 5)",
}

PENDING_REASON = "claimed in DESIGN.md but its simulation check is not built yet in this round; not claimed until it runs green"

def main():
    props = [json.loads(l)["id"] for l in open("/verif/properties.jsonl")]
    claimed = [p for p in props if p in CHECKS and p in sys.argv[1:] or (len(sys.argv) == 1 and p in CHECKS)]
    checks = []
    for p in props:
        if p not in CHECKS or p not in claimed:
            continue
        c = CHECKS[p]
        checks.append({
            "property_id": p,
            "quick_cmd": f"./check {p} --tier quick",
            "thorough_cmd": f"./check {p} --tier thorough",
            "evidence_file": f"/verif/evidence/{p}.json",
            "replay_cmd_template": "./check replay {path}",
            "engine": c["engine"],
            "level_claimed": {"category": c["cat"], "text": c["text"], "design_ref": c["ref"]},
            "level_note": c.get("note", CHAIN_NOTE),
            "technique": c["technique"],
        })
    na = []
    for p in props:
        if p in claimed:
            continue
        na.append({"property_id": p, "reason": NOT_APPLICABLE.get(p, PENDING_REASON)})
    hooks_commits = []
    try:
        hooks_commits = [l.strip() for l in open("/verif/hooks_commits.txt") if l.strip()]
    except FileNotFoundError:
        pass
    m = {
        "version": 1,
        "setup_cmd": "./setup.sh",
        "hooks": {
            "guard": "--cfg grin_verif",
            "enable": "RUSTFLAGS --cfg grin_verif set in /verif/sim/.cargo/config.toml; the harness workspace depends on /repo's crates by path, so every build compiles /repo's working tree with the hooks on",
            "baseline_off_cmd": "cd /repo && cargo test --workspace --no-fail-fast --offline",
            "source_commits": hooks_commits,
            "add_only": True,
        },
        "engines": [
            {"name": "storesim", "path": "/verif/sim/src/storesim.rs", "serves_properties": [p for p in claimed if p == "C08"],
             "kind_free_text": "deterministic simulation of one prunable MMR backend against an unpruned reference"},
            {"name": "crashsim", "path": "/verif/sim/src/crashsim.rs", "serves_properties": [p for p in claimed if p == "C09"],
             "kind_free_text": "process-death fault enumeration at every labelled durable step, reopen oracle"},
            {"name": "wiresim", "path": "/verif/sim/src/wiresim.rs", "serves_properties": [p for p in claimed if p in ("C11", "C19")],
             "kind_free_text": "real p2p framing layer against a simulated peer over a lock-stepped loopback socket"},
            {"name": "apisim", "path": "/verif/sim/src/apisim.rs", "serves_properties": [p for p in claimed if p == "C11"],
             "kind_free_text": "real JSON-RPC API (Foreign/Owner) over a real chain, pool and peer store against a simulated hostile client"},
            {"name": "poolsim", "path": "/verif/sim/src/poolsim.rs", "serves_properties": [p for p in claimed if p in ("C14", "C13")],
             "kind_free_text": "real chain + real transaction pool under seeded submission/block/reorg/eviction interleavings"},
            {"name": "pibdsim", "path": "/verif/sim/src/pibdsim.rs", "serves_properties": [p for p in claimed if p == "C16"],
             "kind_free_text": "real Segmenter/Desegmenter pair over a simulated lossy, reordering, corrupting network"},
            {"name": "schedsim", "path": "/verif/sim/src/schedsim.rs", "serves_properties": [p for p in claimed if p in ("C17",)],
             "kind_free_text": "seeded baton scheduler over real threads on one real Chain"},
            {"name": "dbsim", "path": "/verif/sim/src/dbsim.rs", "serves_properties": [p for p in claimed if p == "C18"],
             "kind_free_text": "real LMDB wrapper against a nested-transaction map model; seeded thread schedules; crash points around commit"},
            {"name": "netsim", "path": "/verif/sim/src/netsim.rs", "serves_properties": [p for p in claimed if p in ("C03", "C06", "C11", "C14", "C16", "C19")],
             "kind_free_text": "one real node with its complete p2p stack (Peers, Peer, Handshake, conn threads, Protocol, servers adapters, pool, chain) against simulated remote peers on lock-stepped loopback sockets"},
            {"name": "syncsim", "path": "/verif/sim/src/syncsim.rs", "serves_properties": [p for p in claimed if p in ("C03", "C16")],
             "kind_free_text": "the node's own sync loop (servers run_sync: SyncRunner, HeaderSync, BodySync, StateSync) as a step function: sleep gate and simulated wall clock by symbol interposition (simclock.rs), a serving real node behind a simulated faulty wire"},
            {"name": "chainsim", "path": "/verif/sim/src/chainsim.rs", "serves_properties": [p for p in claimed if CHECKS[p]["engine"] == "chainsim" or p == "C08"],
             "kind_free_text": "deterministic simulation of N real Chain nodes on a simulated network with byzantine inputs"},
        ],
        "checks": checks,
        "notes": "All checks are subcommands of /verif/target/release/verif-sim (built by setup.sh and rebuilt incrementally by ./check from /repo's working tree). VERIF_SEED selects the base seed (default 1). Exit 2 = harness error, never a violation.",
        "not_applicable": na,
    }
    json.dump(m, open("/verif/MANIFEST.json", "w"), indent=1)
    open("/verif/MANIFEST.json", "a").write("\n")
    try:
        import jsonschema
        jsonschema.validate(m, json.load(open("/root/.vp/MANIFEST.schema.json")))
        print("MANIFEST.json valid;", len(checks), "checks,", len(na), "not claimed")
    except ImportError:
        print("jsonschema not available; written without validation")

if __name__ == "__main__":
    main()
